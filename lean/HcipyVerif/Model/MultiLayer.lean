import HcipyVerif.Model.Layer
/-!
# C15 — `MultiLayerAtmosphere` (`hcipy/atmosphere/atmospheric_model.py`)

Three pieces of the class, each as the code computes it:

1. `calculate_propagators`: `np.argsort(-heights)` (NumPy's default sort is not stable: layers of equal height come in an
   unspecified order — the model takes the stable one, the harness compares modulo the order within a group of equal
   heights, and no theorem depends on it), the layers in that order, with `scintillation` a `FresnelPropagator(grid, Δh)` between consecutive layers and one
   over the lowest height down to the ground when that height is positive — `buildElements`;
   the `_dirty` flag of the `layers` / `scintillation` setters and the lazy rebuild in `forward`/`backward` — `Atm`.
2. the fan-out of `reset`, `evolve_until` (and the `t` setter), `Cn_squared` and `outer_scale` over the list of layers
   — `MLA` over the layer machines of `Model/Layer.lean` (a finite layer never refuses a time; an infinite layer refuses a
   backwards time, the exception leaves the loop: the layers before it have been evolved, the others and `_t` have not).
   `MLA.step` models the code after the repair D515 (`reset` rewinds `_t`); `MLA.stepOld` keeps `_t`.
3. `phase_for(λ)`: the sum over the layers of `layer.phase_for(λ)` — `atmPhase`.
-/
namespace HcipyVerif.Layer

/-! ## 1. the element list -/

inductive El where
  /-- `self.layers[j]` -/
  | layer (j : Nat)
  /-- `FresnelPropagator(grid, d)` -/
  | prop (d : Rat)
deriving DecidableEq, Repr

/-- stable insertion into a list that is non-increasing in the height: in front of the first entry that is not higher -/
def insDesc (x : Nat × Rat) : List (Nat × Rat) → List (Nat × Rat)
  | [] => [x]
  | y :: ys => if y.2 ≤ x.2 then x :: y :: ys else y :: insDesc x ys

/-- `layer_indices = np.argsort(-heights)` together with `sorted_heights` -/
def sortDesc (l : List (Nat × Rat)) : List (Nat × Rat) := l.foldr insDesc []

def indexedFrom : Nat → List Rat → List (Nat × Rat)
  | _, [] => []
  | k, h :: r => (k, h) :: indexedFrom (k + 1) r

/-- `enumerate(heights)` -/
def indexed (hs : List Rat) : List (Nat × Rat) := indexedFrom 0 hs

/-- the loop over `layer_indices` and the final propagator to the ground -/
def elementsOf (scint : Bool) : List (Nat × Rat) → List El
  | [] => []
  | [x] => .layer x.1 :: (if scint && 0 < x.2 then [.prop x.2] else [])
  | x :: y :: r => .layer x.1 :: ((if scint then [.prop (x.2 - y.2)] else []) ++ elementsOf scint (y :: r))

/-- `calculate_propagators` for the layer heights `hs` (in the order of `self.layers`) -/
def buildElements (scint : Bool) (hs : List Rat) : List El := elementsOf scint (sortDesc (indexed hs))

def El.dist : El → Rat
  | .prop d => d
  | .layer _ => 0

def El.layer? : El → Option Nat
  | .layer j => some j
  | .prop _ => none

/-- total propagation distance of an element list -/
def propSum : List El → Rat
  | [] => 0
  | e :: es => e.dist + propSum es

/-- the layers of an element list, in the order in which the light meets them -/
def layerOrder (es : List El) : List Nat := es.filterMap El.layer?

/-- `_layers`, `_scintillation`, `_dirty`, `elements`; a layer is represented by its `height` attribute -/
structure Atm where
  heights : List Rat
  scint : Bool
  dirty : Bool
  elements : List El
deriving DecidableEq, Repr

inductive AOp where
  /-- `atm.layers = […]` -/
  | setLayers (hs : List Rat)
  /-- `atm.scintillation = b` -/
  | setScint (b : Bool)
  /-- `atm.layers[j].height = h` (an attribute of the layer object: the atmosphere does not notice) -/
  | setHeight (j : Nat) (h : Rat)
  /-- `forward` / `backward`: rebuild when `_dirty` -/
  | propagate
  /-- `calculate_propagators()` called explicitly -/
  | recalc
deriving DecidableEq, Repr

def Atm.calc (A : Atm) : Atm := { A with elements := buildElements A.scint A.heights, dirty := false }

/-- `__init__` -/
def Atm.new (hs : List Rat) (scint : Bool) : Atm :=
  Atm.calc { heights := hs, scint := scint, dirty := true, elements := [] }

def Atm.step (A : Atm) : AOp → Atm
  | .setLayers hs => { A with heights := hs, dirty := true }
  | .setScint b => { A with scint := b, dirty := A.dirty || (b != A.scint) }
  | .setHeight j h => { A with heights := A.heights.set j h }
  | .propagate => if A.dirty then A.calc else A
  | .recalc => A.calc

def Atm.run (A : Atm) (h : List AOp) : Atm := h.foldl Atm.step A

/-! ## 2. the fan-out over the layers -/

inductive AnyL where
  | fin (L : FinL)
  | inf (L : InfL)
deriving DecidableEq, Repr

/-- what a layer keeps for its whole life: class, shape, pixel size (infinite layer) and — as long as no independent
realisation is requested — the original generator -/
structure Ident where
  isInf : Bool
  nx : Nat
  ny : Nat
  delta : V2
  orig : Rng
deriving DecidableEq, Repr

def AnyL.ident : AnyL → Ident
  | .fin L => ⟨false, L.nx, L.ny, (0, 0), L.orig⟩
  | .inf L => ⟨true, L.nx, L.ny, L.delta, L.orig⟩

def AnyL.vel : AnyL → V2
  | .fin L => L.vel
  | .inf L => L.vel

def AnyL.par : AnyL → Par
  | .fin L => L.par
  | .inf L => L.par

def AnyL.t : AnyL → Rat
  | .fin L => L.t
  | .inf L => L.t

/-- the layer freshly built with this identity and the given velocity and parameters -/
def AnyL.ofIdent (i : Ident) (vel : V2) (par : Par) : AnyL :=
  if i.isInf then .inf (InfL.fresh i.nx i.ny i.delta vel par i.orig) else .fin (FinL.fresh i.nx i.ny vel par i.orig)

def AnyL.step : AnyL → Op → AnyL
  | .fin L, o => .fin (L.step o)
  | .inf L, o => .inf (L.step o)

/-- `layer.evolve_until(t)`; `none` = the `ValueError` of the infinite layer -/
def AnyL.evolve? (t : Rat) : AnyL → Option AnyL
  | .fin L => some (.fin (L.evolve t))
  | .inf L => (L.evolve t).map .inf

/-- what `phase_for` of the layer is a function of -/
def AnyL.view : AnyL → Sum (Rng × Par × V2) (List Sym × V2)
  | .fin L => .inl L.screen
  | .inf L => .inr L.view

/-- `for l in self.layers: l.evolve_until(t)`: stops at the first layer that refuses; `false` = an exception left the loop -/
def evolveAll (t : Rat) : List AnyL → List AnyL × Bool
  | [] => ([], true)
  | a :: r =>
    match a.evolve? t with
    | none => (a :: r, false)
    | some a' => ((a' :: (evolveAll t r).1), (evolveAll t r).2)

def modifyAt {α : Type} (f : α → α) : Nat → List α → List α
  | _, [] => []
  | 0, a :: r => f a :: r
  | j + 1, a :: r => a :: modifyAt f j r

def totalCn2 : List AnyL → Rat
  | [] => 0
  | a :: r => a.par.cn2 + totalCn2 r

structure MLA where
  layers : List AnyL
  /-- `_t` -/
  t : Rat
deriving DecidableEq, Repr

inductive MOp where
  /-- `atm.evolve_until(t)` / `atm.t = t` -/
  | evolve (t : Rat)
  /-- `atm.reset()` -/
  | reset
  /-- `atm.Cn_squared = total` -/
  | setCn2 (total : Rat)
  /-- `atm.outer_scale = l` -/
  | setL0 (l : Rat)
  /-- an operation on the layer object `atm.layers[j]` itself -/
  | direct (j : Nat) (o : Op)
deriving DecidableEq, Repr

def MLA.evolve (t : Rat) (A : MLA) : MLA :=
  { layers := (evolveAll t A.layers).1, t := if (evolveAll t A.layers).2 then t else A.t }

/-- `reset()` with the repair D515: `_t` is rewound together with the layers -/
def MLA.reset (A : MLA) : MLA := { layers := A.layers.map (·.step (.reset false)), t := 0 }

/-- `reset()` as it was: the layers go to time zero, `_t` keeps the old time -/
def MLA.resetOld (A : MLA) : MLA := { A with layers := A.layers.map (·.step (.reset false)) }

/-- `Cn_squared.setter`: every layer keeps its share of the total -/
def MLA.setCn2 (total : Rat) (A : MLA) : MLA :=
  { A with layers := A.layers.map fun a => a.step (.setCn2 (a.par.cn2 / totalCn2 A.layers * total)) }

def MLA.setL0 (l : Rat) (A : MLA) : MLA := { A with layers := A.layers.map (·.step (.setL0 l)) }

def MLA.step (A : MLA) : MOp → MLA
  | .evolve t => A.evolve t
  | .reset => A.reset
  | .setCn2 c => A.setCn2 c
  | .setL0 l => A.setL0 l
  | .direct j o => { A with layers := modifyAt (·.step o) j A.layers }

def MLA.stepOld (A : MLA) : MOp → MLA
  | .reset => A.resetOld
  | o => A.step o

def MLA.run (A : MLA) (h : List MOp) : MLA := h.foldl MLA.step A

/-- what `atm.phase_for` can depend on, and the reported time -/
def MLA.view (A : MLA) : List (Sum (Rng × Par × V2) (List Sym × V2)) × Rat := (A.layers.map AnyL.view, A.t)

def MLA.screens (A : MLA) : List MOp → List (List (Sum (Rng × Par × V2) (List Sym × V2)) × Rat)
  | [] => []
  | o :: h => (A.step o).view :: (A.step o).screens h

/-- the atmosphere freshly built from layers with the given identities, velocities and parameters -/
def MLA.ofIdents (ids : List Ident) (cur : List AnyL) : MLA :=
  { layers := List.zipWith (fun i b => AnyL.ofIdent i b.vel b.par) ids cur, t := 0 }

/-- the arguments of a layer constructor -/
structure Spec where
  isInf : Bool
  nx : Nat
  ny : Nat
  /-- pixel size (used by the infinite layer only) -/
  delta : V2
  vel : V2
  par : Par
  seed : Nat
deriving DecidableEq, Repr

def AnyL.new (s : Spec) : AnyL :=
  if s.isInf then .inf (InfL.new s.nx s.ny s.delta s.vel s.par s.seed) else .fin (FinL.new s.nx s.ny s.vel s.par s.seed)

/-- `MultiLayerAtmosphere([Layer(…, seed=s) for …])` -/
def MLA.new (specs : List Spec) : MLA := { layers := specs.map AnyL.new, t := 0 }

/-- the constructor arguments with the velocity and parameters the running layers have now -/
def currentSpecs (specs : List Spec) (cur : List AnyL) : List Spec :=
  List.zipWith (fun s b => { s with vel := b.vel, par := b.par }) specs cur

/-- `atm.layers = [Layer(…, seed=s) for …]`: newly built layers assigned through the `layers` setter; the atmosphere's own
`_t` is not touched (the new layers are at time zero whatever `atm.t` reports) -/
def MLA.setLayers (specs : List Spec) (A : MLA) : MLA := { layers := specs.map AnyL.new, t := A.t }

/-- `MultiLayerAtmosphere(atm.layers)`: a new atmosphere around the same layer objects, evolved or not; its `_t` starts at 0 -/
def MLA.rewrap (A : MLA) : MLA := { A with t := 0 }

/-! ## 3. `phase_for` -/

/-- one pixel of `np.sum([layer.phase_for(λ) for layer in layers], axis=0)` -/
def atmPhase {K} [Add K] [Div K] [Zero K] (wavelength : K) : List K → K
  | [] => 0
  | a :: r => phaseFor a wavelength + atmPhase wavelength r

end HcipyVerif.Layer
