import HcipyVerif.Model.Fraunhofer
import HcipyVerif.Model.FftSelect
import HcipyVerif.Model.FftIndex2b
import HcipyVerif.Model.Mft

/-!
# C03 — the lens *pipeline*, executable (core Lean only)

What `FraunhoferPropagator.forward/backward` computes, step by step, for a regular pupil grid:

```
uv  = focal.scaled(2π/(λ f))
ft  = make_fourier_transform(pupil, uv)      -- C01: `choose detectFix`; FFT or MFT constructor
out = ft.forward(E) · 1/(iλf)                -- C01: `fastForward2` (literal 2-D FFT pipeline) / `mftForward` (two gemm)
```

Unlike `impulseResponse` (Model/Fraunhofer.lean), which is the summand of the *specification*, the functions
here run the modelled code path: selection, then the selected pipeline, then the norm factor.  They are the very
definitions the C03 theorems are about (`lensAxisCfg` = `axisCfg`, `fastForward2`/`mftForward` inside
`fftTransform2`/`mftTransform2`, `choose detectFix` inside `lensChoice`), instantiated at `K = Rat`,
`C = PSum`, characters `T = E = PSum.turns` — all angular frequencies are carried in units of 2π
(`unit = 1` instead of `2π`), which is the only difference to the `ℝ/ℂ` instance of the proofs.
-/
namespace HcipyVerif.Fraunhofer
open HcipyVerif.Fft

/-- coordinate `j` of a regular axis -/
def regCoord {K : Type} [Add K] [Mul K] [NatCast K] (z δ : K) (j : Nat) : K := z + (j : K) * δ

/-- The axis configuration of the `FastFourierTransform` that `make_fourier_transform(pupil, uv)` builds when the
uv grid is FFT-native with padded size `M`: pupil axis `(n, δ, z)`, focal axis `(Mo, Δ, Z)`, `lf = λ f`;
output spacing `2π·Δ/lf`, shift `(unit/lf)·(Z + Δ⌊Mo/2⌋)` (`unit = 2π` for a character in radians, `1` in turns). -/
def lensAxisCfg {K C : Type} [Add K] [Mul K] [Div K] [NatCast K] (unit : K) (n : Nat) (δ z : K)
    (Mo : Nat) (Δ Z lf : K) (M : Nat) (w : C) (emu : Bool) : Cfg K C :=
  { N := n, M := M, Mo := Mo, δ := δ, z := z, dT := Δ / lf,
    s := unit / lf * (Z + Δ * ((Mo / 2 : Nat) : K)), w := w, emu := emu }

/-- `MatrixFourierTransform(pupil, focal.scaled(2π/lf)).forward` with the output coordinates in units of 2π. -/
def lensMftForward {K C : Type} [Mul K] [Neg K] [Div K] [Zero C] [One C] [Add C] [Mul C] (T : K → C)
    (Nx Ny Nu Nv : Nat) (x y X Y : Nat → K) (lf : K) (w : Weights C) (field : Nat → C) : Nat → C :=
  mftForward T Nx Ny Nu Nv x y (fun k => X k / lf) (fun k => Y k / lf) w field

/-- … and `.backward`. -/
def lensMftBackward {K C : Type} [Mul K] [Neg K] [Div K] [Zero C] [One C] [Add C] [Mul C] (T : K → C)
    (cj : C → C) (Nx Ny Nu Nv : Nat) (x y X Y : Nat → K) (lf : K) (wOut : Weights C) (field : Nat → C) : Nat → C :=
  mftBackward T cj Nx Ny Nu Nv x y (fun k => X k / lf) (fun k => Y k / lf) wOut field

/-! ## the executable instance -/

/-- `make_fourier_transform(pupil, uv)` for a regular Cartesian pupil grid and a regular Cartesian focal grid:
`numFft` (numerical part of `get_fft_parameters`) is the exact `classify ≠ other`; `cheaper` is the outcome of
the planner's float comparison (oracle input). -/
def lensMethod (s : Setup) (focal : RegGrid) (cheaper : Bool) : Option Method :=
  let numFft := (classify s focal).1 != FocalClass.other
  (choose detectFix ⟨.regular, true, s.pupil.ndim⟩ (some ⟨⟨.regular, true, focal.ndim⟩, numFft⟩) cheaper).map (·.method)

/-- … for a focal grid that is separated but not regular -/
def lensMethodSep (s : Setup) (ndimFocal : Nat) (cheaper : Bool) : Option Method :=
  (choose detectFix ⟨.regular, true, s.pupil.ndim⟩ (some ⟨⟨.separated, true, ndimFocal⟩, false⟩) cheaper).map (·.method)

/-- `norm_factor = 1/(iλf) = (1/λf)·exp(2πi·(-1/4))` as a formal phase monomial -/
def normPSum (s : Setup) : PSum := ⟨[⟨1 / lamf s, 3 / 4, 0⟩]⟩

/-- unit impulse at `(jy, jx)` of a 2-D array -/
def impulse2 (jy jx : Nat) (iy ix : Nat) : PSum := if iy = jy ∧ ix = jx then PSum.ofRat 1 else 0

inductive Dir | fwd | bwd
deriving DecidableEq, Repr

/-- **The lens pipeline on a unit impulse.**  `fwd`: impulse at pupil sample `j = (jx, jy)`, result at focal
sample `k = (kx, ky)`; `bwd`: impulse at focal sample `k`, result at pupil sample `j`.  Returns the selected
method and the (monomial) value `c·exp(2πi·t)`.  Pupil spacings are positive (weight `δy·δx`). -/
def lensImpulse (s : Setup) (focal : RegGrid) (dir : Dir) (cheaper emu : Bool) (j k : Nat × Nat) :
    Option (Method × PSum) :=
  match s.pupil.delta, s.pupil.dims, s.pupil.zero, focal.delta, focal.dims, focal.zero with
  | [δx, δy], [Nx, Ny], [zx, zy], [Δx, Δy], [Mox, Moy], [Zx, Zy] =>
    let lf := lamf s
    let (jx, jy) := j
    let (kx, ky) := k
    match lensMethod s focal cheaper with
    | some .fft =>
      match (classify s focal).2 with
      | [Mx, My] =>
        let gy : RCfg := lensAxisCfg 1 Ny δy zy Moy Δy Zy lf My (PSum.ofRat δy) emu
        let gx : RCfg := lensAxisCfg 1 Nx δx zx Mox Δx Zx lf Mx (PSum.ofRat δx) emu
        match dir with
        | .fwd => some (.fft, fastForward2 PSum.turns PSum.turns gy gx (impulse2 jy jx) ky kx * normPSum s)
        | .bwd => some (.fft, fastBackward2 PSum.turns PSum.turns gy gx (impulse2 ky kx) jy jx * (normPSum s)⁻¹)
      | _ => none
    | some .mft =>
      let x := regCoord zx δx; let y := regCoord zy δy
      let X := regCoord Zx Δx; let Y := regCoord Zy Δy
      match dir with
      | .fwd =>
        some (.mft, lensMftForward PSum.turns Nx Ny Mox Moy x y X Y lf (.scalar (PSum.ofRat (δy * δx)))
          (PSum.impulse (jy * Nx + jx)) (ky * Mox + kx) * normPSum s)
      | .bwd =>
        -- weights_output = uv.weights/(2π)² = |1/lf|²·Δy·Δx
        some (.mft, lensMftBackward PSum.turns PSum.conj Nx Ny Mox Moy x y X Y lf
          (.scalar (PSum.ofRat ((1 / lf) * (1 / lf) * (ratAbs Δy * ratAbs Δx))))
          (PSum.impulse (ky * Mox + kx)) (jy * Nx + jx) * (normPSum s)⁻¹)
    | _ => none
  | _, _, _, _, _, _ => none

/-- Forward pipeline for a separated, non-regular Cartesian focal grid with coordinate lists `X`, `Y`
(`MatrixFourierTransform` on the given grid). -/
def lensImpulseSep (s : Setup) (X Y : List Rat) (cheaper : Bool) (j k : Nat × Nat) : Option (Method × PSum) :=
  match s.pupil.delta, s.pupil.dims, s.pupil.zero with
  | [δx, δy], [Nx, Ny], [zx, zy] =>
    match lensMethodSep s 2 cheaper with
    | some .mft =>
      some (.mft, lensMftForward PSum.turns Nx Ny X.length Y.length (regCoord zx δx) (regCoord zy δy)
        (coordOf X) (coordOf Y) (lamf s) (.scalar (PSum.ofRat (δy * δx)))
        (PSum.impulse (j.2 * Nx + j.1)) (k.2 * X.length + k.1) * normPSum s)
    | _ => none
  | _, _, _ => none

end HcipyVerif.Fraunhofer
