import HcipyVerif.Model.Fraunhofer
import HcipyVerif.Model.FftSelect
import HcipyVerif.Model.FftIndex2b
import HcipyVerif.Model.Mft

/-!
# C03 — the lens *pipeline*, executable (core Lean only)

What `FraunhoferPropagator.forward/backward` computes, step by step, for a regular pupil grid:

```
uv  = focal.scaled(2π/(λ f))
ft  = make_fourier_transform(pupil, uv)      -- C01: `choose detectFix`; FFT or MFT constructor
out = ft.forward(E) · 1/(iλf)                -- C01: `fastForward2` (literal 2-D FFT pipeline) / `mftForward` (two gemm)
```

Unlike `impulseResponse` (Model/Fraunhofer.lean), which is the summand of the *specification*, the functions
here run the modelled code path: selection, then the selected pipeline, then the norm factor.  They are the very
definitions the C03 theorems are about (`lensAxisCfg` = `axisCfg`, `fastForward2`/`mftForward` inside
`fftTransform2`/`mftTransform2`, `choose detectFix` inside `lensChoice`), instantiated at `K = Rat`,
`C = PSum`, characters `T = E = PSum.turns` — all angular frequencies are carried in units of 2π
(`unit = 1` instead of `2π`), which is the only difference to the `ℝ/ℂ` instance of the proofs.
-/
namespace HcipyVerif.Fraunhofer
open HcipyVerif.Fft

/-- coordinate `j` of a regular axis -/
def regCoord {K : Type} [Add K] [Mul K] [NatCast K] (z δ : K) (j : Nat) : K := z + (j : K) * δ

/-- The axis configuration of the `FastFourierTransform` that `make_fourier_transform(pupil, uv)` builds when the
uv grid is FFT-native with padded size `M`: pupil axis `(n, δ, z)`, focal axis `(Mo, Δ, Z)`, `lf = λ f`;
output spacing `2π·Δ/lf`, shift `(unit/lf)·(Z + Δ⌊Mo/2⌋)` (`unit = 2π` for a character in radians, `1` in turns). -/
def lensAxisCfg {K C : Type} [Add K] [Mul K] [Div K] [NatCast K] (unit : K) (n : Nat) (δ z : K)
    (Mo : Nat) (Δ Z lf : K) (M : Nat) (w : C) (emu : Bool) : Cfg K C :=
  { N := n, M := M, Mo := Mo, δ := δ, z := z, dT := Δ / lf,
    s := unit / lf * (Z + Δ * ((Mo / 2 : Nat) : K)), w := w, emu := emu }

/-- `MatrixFourierTransform(pupil, focal.scaled(2π/lf)).forward` with the output coordinates in units of 2π. -/
def lensMftForward {K C : Type} [Mul K] [Neg K] [Div K] [Zero C] [One C] [Add C] [Mul C] (T : K → C)
    (Nx Ny Nu Nv : Nat) (x y X Y : Nat → K) (lf : K) (w : Weights C) (field : Nat → C) : Nat → C :=
  mftForward T Nx Ny Nu Nv x y (fun k => X k / lf) (fun k => Y k / lf) w field

/-- … and `.backward`. -/
def lensMftBackward {K C : Type} [Mul K] [Neg K] [Div K] [Zero C] [One C] [Add C] [Mul C] (T : K → C)
    (cj : C → C) (Nx Ny Nu Nv : Nat) (x y X Y : Nat → K) (lf : K) (wOut : Weights C) (field : Nat → C) : Nat → C :=
  mftBackward T cj Nx Ny Nu Nv x y (fun k => X k / lf) (fun k => Y k / lf) wOut field

/-! ## the pipeline, scalar-polymorphic: run at `Rat`/`PSum` by the driver, proved at `ℝ`/`ℂ` -/

/-- one axis of a regular grid: `n` points `x_j = z + j·δ` -/
structure Ax (K : Type) where
  n : Nat
  δ : K
  z : K

section poly
variable {K C : Type} [Add K] [Sub K] [Mul K] [Neg K] [Div K] [One K] [NatCast K] [IntCast K]
  [Zero C] [One C] [Add C] [Mul C] [Inv C] [NatCast C]

/-- coordinate `j` of the axis -/
def Ax.x (a : Ax K) (j : Nat) : K := regCoord a.z a.δ j

/-- `lensAxisCfg` for pupil axis `p`, focal axis `F`; the FFT's per-axis weight is the pupil spacing -/
def lensCfg (unit : K) (ofK : K → C) (p F : Ax K) (lf : K) (M : Nat) (emu : Bool) : Cfg K C :=
  lensAxisCfg unit p.n p.δ p.z F.n F.δ F.z lf M (ofK p.δ) emu

/-- **`FraunhoferPropagator.forward` on a 2-D field** (zero outside the pupil array) through the transform of
method `m` that `make_fourier_transform` returned: `ft.forward(E) · norm_factor`.
`T` character in turns, `E` character in `unit`s (`unit = 2π`: radians), `ofK` the embedding of real numbers,
`My Mx` the padded sizes of `get_fft_parameters` (FFT only), `lf = λ f`.
(`naive` is never selected for two regular Cartesian grids — `lensMethod_ne_naive`.) -/
def lensForward (T E : K → C) (unit : K) (ofK : K → C) (norm : C) (m : Method) (emu : Bool)
    (py px Fy Fx : Ax K) (lf : K) (My Mx : Nat) (field : Nat → Nat → C) (ky kx : Nat) : C :=
  match m with
  | .fft => fastForward2 T E (lensCfg unit ofK py Fy lf My emu) (lensCfg unit ofK px Fx lf Mx emu) field ky kx * norm
  | .mft => lensMftForward T px.n py.n Fx.n Fy.n px.x py.x Fx.x Fy.x lf (.scalar (ofK (py.δ * px.δ)))
      (fun i => field (i / px.n) (i % px.n)) (ky * Fx.n + kx) * norm
  | .naive => 0

/-- **`FraunhoferPropagator.backward`**: `ft.backward(E) / norm_factor`.  The MFT holds
`weights_output = uv.weights/(2π)² = |1/lf|²·|Δy|·|Δx|` (`absK` = absolute value). -/
def lensBackward (T E : K → C) (cj : C → C) (unit : K) (ofK : K → C) (absK : K → K) (norm : C) (m : Method)
    (emu : Bool) (py px Fy Fx : Ax K) (lf : K) (My Mx : Nat) (field : Nat → Nat → C) (jy jx : Nat) : C :=
  match m with
  | .fft => fastBackward2 T E (lensCfg unit ofK py Fy lf My emu) (lensCfg unit ofK px Fx lf Mx emu) field jy jx * norm⁻¹
  | .mft => lensMftBackward T cj px.n py.n Fx.n Fy.n px.x py.x Fx.x Fy.x lf
      (.scalar (ofK ((1 / lf) * (1 / lf) * (absK Fy.δ * absK Fx.δ))))
      (fun i => field (i / Fx.n) (i % Fx.n)) (jy * px.n + jx) * norm⁻¹
  | .naive => 0

end poly

/-! ## the executable instance -/

/-- `make_fourier_transform(pupil, uv)` for a regular Cartesian pupil grid and a regular Cartesian focal grid:
`numFft` (numerical part of `get_fft_parameters`) is the exact `classify ≠ other`; `cheaper` is the outcome of
the planner's float comparison (oracle input). -/
def lensMethod (s : Setup) (focal : RegGrid) (cheaper : Bool) : Option Method :=
  let numFft := (classify s focal).1 != FocalClass.other
  (choose detectFix ⟨.regular, true, s.pupil.ndim⟩ (some ⟨⟨.regular, true, focal.ndim⟩, numFft⟩) cheaper).map (·.method)

/-- … for a focal grid that is separated but not regular -/
def lensMethodSep (s : Setup) (ndimFocal : Nat) (cheaper : Bool) : Option Method :=
  (choose detectFix ⟨.regular, true, s.pupil.ndim⟩ (some ⟨⟨.separated, true, ndimFocal⟩, false⟩) cheaper).map (·.method)

/-- `norm_factor = 1/(iλf) = (1/λf)·exp(2πi·(-1/4))` as a formal phase monomial -/
def normPSum (s : Setup) : PSum := ⟨[⟨1 / lamf s, 3 / 4, 0⟩]⟩

/-- unit impulse at `(jy, jx)` of a 2-D array -/
def impulse2 (jy jx : Nat) (iy ix : Nat) : PSum := if iy = jy ∧ ix = jx then PSum.ofRat 1 else 0

inductive Dir | fwd | bwd
deriving DecidableEq, Repr

/-- **The lens pipeline on a unit impulse.**  `fwd`: impulse at pupil sample `j = (jx, jy)`, result at focal
sample `k = (kx, ky)`; `bwd`: impulse at focal sample `k`, result at pupil sample `j`.  Returns the selected
method and the (monomial) value `c·exp(2πi·t)`.  Pupil spacings are positive (weight `δy·δx`). -/
def lensImpulse (s : Setup) (focal : RegGrid) (dir : Dir) (cheaper emu : Bool) (j k : Nat × Nat) :
    Option (Method × PSum) :=
  match s.pupil.delta, s.pupil.dims, s.pupil.zero, focal.delta, focal.dims, focal.zero with
  | [δx, δy], [Nx, Ny], [zx, zy], [Δx, Δy], [Mox, Moy], [Zx, Zy] =>
    let (jx, jy) := j
    let (kx, ky) := k
    let py : Ax Rat := ⟨Ny, δy, zy⟩; let px : Ax Rat := ⟨Nx, δx, zx⟩
    let Fy : Ax Rat := ⟨Moy, Δy, Zy⟩; let Fx : Ax Rat := ⟨Mox, Δx, Zx⟩
    match lensMethod s focal cheaper with
    | some m =>
      -- padded sizes of `get_fft_parameters` (x first, as `dims`); only the FFT uses them
      let (Mx, My) := match (classify s focal).2 with
        | [Mx, My] => (Mx, My)
        | _ => (0, 0)
      match dir with
      | .fwd => some (m, lensForward PSum.turns PSum.turns 1 PSum.ofRat (normPSum s) m emu py px Fy Fx (lamf s) My Mx
          (impulse2 jy jx) ky kx)
      | .bwd => some (m, lensBackward PSum.turns PSum.turns PSum.conj 1 PSum.ofRat ratAbs (normPSum s) m emu py px Fy Fx
          (lamf s) My Mx (impulse2 ky kx) jy jx)
    | none => none
  | _, _, _, _, _, _ => none

/-- Forward pipeline for a separated, non-regular Cartesian focal grid with coordinate lists `X`, `Y`
(`MatrixFourierTransform` on the given grid). -/
def lensImpulseSep (s : Setup) (X Y : List Rat) (cheaper : Bool) (j k : Nat × Nat) : Option (Method × PSum) :=
  match s.pupil.delta, s.pupil.dims, s.pupil.zero with
  | [δx, δy], [Nx, Ny], [zx, zy] =>
    match lensMethodSep s 2 cheaper with
    | some .mft =>
      some (.mft, lensMftForward PSum.turns Nx Ny X.length Y.length (regCoord zx δx) (regCoord zy δy)
        (coordOf X) (coordOf Y) (lamf s) (.scalar (PSum.ofRat (δy * δx)))
        (PSum.impulse (j.2 * Nx + j.1)) (k.2 * X.length + k.1) * normPSum s)
    | _ => none
  | _, _, _ => none

end HcipyVerif.Fraunhofer
