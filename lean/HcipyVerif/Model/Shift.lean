/-!
# C15 — index bookkeeping of the two ways hcipy moves a turbulence screen

## 1. Spectral shift (`hcipy/util/spectral_noise.py`, `SpectralNoiseFFT.shift`,
`SpectralNoiseMultiscale.shift`)

A 2-D separated grid with axis coordinates `kx` (length `nx`) and `ky` (length `ny`) stores its
points with **x fastest**: flat index `j ↔ (ix, iy) = (j % nx, j / nx)`, i.e. `grid.x =
np.tile(kx, ny)`, `grid.y = np.repeat(ky, nx)` (`gridX`, `gridY`).  The shift builds

    S = [shift[i] * coords[i] for i in range(ndim)]          -- S[0] = sx·kx,  S[1] = sy·ky
    S = np.add.reduce(np.ix_(*S[::-1])).ravel()              -- repaired (D16): y is the first axis
    C *= exp(-1j * S)

`ixSumRavel A B` is `np.add.reduce(np.ix_(A, B)).ravel()` (outer sum, C order).  The code before the
repair used `np.ix_(*S)` = `ixSumRavel Sx Sy` (`phasesOld`).  `exp(i·)` is an abstract character
`χ : K → F`; the model is executed at `K = Rat` (the phase array is the observable).

## 2. Row/column extrusion (`InfiniteAtmosphericLayer._extrude`)

The screen is a flat list in the same order (rows of length `W = nx`, `H = ny` rows).
`extrude` is written with the list operations the code uses: `[::-1]` on the flat array
(`List.reverse`), `.shaped` (`shaped`), `np.hstack((new[:, None], screen[:, :-1]))`,
`np.vstack((new[None, :], screen[:-1, :]))`, `screen[::-1, ::-1].ravel()`.
-/
namespace HcipyVerif.Shift

section spectral
variable {K : Type} {F : Type}

/-- `grid.x` of a separated grid: `np.tile(kx, ny)`. -/
def gridX (kx ky : List K) : List K := ky.flatMap fun _ => kx

/-- `grid.y` of a separated grid: `np.repeat(ky, nx)`. -/
def gridY (kx ky : List K) : List K := ky.flatMap fun b => kx.map fun _ => b

/-- `np.add.reduce(np.ix_(A, B)).ravel()`: the outer sum `A[i] + B[j]` in C order. -/
def ixSumRavel [Add K] (A B : List K) : List K := A.flatMap fun a => B.map fun b => a + b

/-- The phase array of the repaired `shift`: `np.ix_(*S[::-1])`, `S[i] = shift[i] * coords[i]`. -/
def phases [Add K] [Mul K] (sx sy : K) (kx ky : List K) : List K :=
  ixSumRavel (ky.map fun k => sy * k) (kx.map fun k => sx * k)

/-- The phase array as the code computed it before the repair: `np.ix_(*S)`. -/
def phasesOld [Add K] [Mul K] (sx sy : K) (kx ky : List K) : List K :=
  ixSumRavel (kx.map fun k => sx * k) (ky.map fun k => sy * k)

/-- `C *= exp(-1j * S)`. -/
def applyShift [Neg K] [Mul F] (χ : K → F) (C : List F) (S : List K) : List F :=
  List.zipWith (fun c s => c * χ (-s)) C S

/-- `shift` of the repaired code on one set of coefficients. -/
def shift [Add K] [Mul K] [Neg K] [Mul F] (χ : K → F) (sx sy : K) (kx ky : List K) (C : List F) : List F :=
  applyShift χ C (phases sx sy kx ky)

def shiftOld [Add K] [Mul K] [Neg K] [Mul F] (χ : K → F) (sx sy : K) (kx ky : List K) (C : List F) : List F :=
  applyShift χ C (phasesOld sx sy kx ky)

/-- `Σ_j f C[j] A[j] B[j]` over the common length. -/
def zipSum3 [Add F] [Zero F] (f : F → K → K → F) : List F → List K → List K → F
  | c :: C, a :: A, b :: B => f c a b + zipSum3 f C A B
  | _, _, _ => 0

/-- The synthesised screen at the point `(x, y)`: `Σ_j C[j] · χ(kx[j % nx]·x + ky[j / nx]·y)`
(what `fourier.backward(C)` evaluates, up to the constant weight). -/
def synth [Add K] [Mul K] [Add F] [Mul F] [Zero F] (χ : K → F) (kx ky : List K) (C : List F) (x y : K) : F :=
  zipSum3 (fun c a b => c * χ (a * x + b * y)) C (gridX kx ky) (gridY kx ky)

end spectral

/-! ## 1b. An exact character: the (sparse) group ring `ℚ[ℤ/M]`

`exp(2πi·q)` for `q ∈ (1/M)ℤ` is the `M`-th root of unity `ζ^(qM)`; the formal variable `X` stands for `ζ`.  With this
character `synth` is executed exactly on the real code's lattices (`kx[m]·x[n] ∈ (1/M)ℤ` turns on every FFT/MFT grid pair
of the spectral noise), with the real complex coefficients (`i = X^(M/4)`).  `Lemmas/Layer.lean` proves that evaluation
at any `ζ` with `ζ^M = 1` in a field of characteristic 0 is a ring homomorphism, so what the driver prints, evaluated at
`ζ = e^{2πi/M}` by the harness, is `synth (q ↦ ζ^(qM))`. -/

/-- a formal sum `Σ coef · X^exp`; exponents are read modulo `M` -/
structure Cyc (M : Nat) where
  terms : List (Nat × Rat)
deriving Repr

namespace Cyc
variable {M : Nat}
instance : Zero (Cyc M) := ⟨⟨[]⟩⟩
instance : Add (Cyc M) := ⟨fun a b => ⟨a.terms ++ b.terms⟩⟩
instance : Mul (Cyc M) :=
  ⟨fun a b => ⟨a.terms.flatMap fun s => b.terms.map fun t => ((s.1 + t.1) % M, s.2 * t.2)⟩⟩
/-- the monomial `X^e` -/
def mono (e : Nat) : Cyc M := ⟨[(e % M, 1)]⟩
/-- `re + im·i` with `i = X^(M/4)` (`4 ∣ M`) -/
def ofComplex (re im : Rat) : Cyc M := ⟨[(0, re), (M / 4, im)]⟩
/-- the coefficient of `X^r` -/
def coeff (a : Cyc M) (r : Nat) : Rat := (a.terms.filter fun t => t.1 % M == r).foldl (fun acc t => acc + t.2) 0
/-- dense coefficients `[a_0, …, a_{M-1}]` -/
def dense (a : Cyc M) : List Rat := (List.range M).map a.coeff
end Cyc

/-- the exponent of `X` for the phase `q` turns: `⌊qM⌋ mod M` -/
def cycExp (M : Nat) (q : Rat) : Nat := ((q * (M : Rat)).floor % (M : Int)).toNat

/-- the universal character of period 1 with values in `ℚ[ℤ/M]`: `q ↦ X^(qM)` (a character on `(1/M)ℤ`) -/
def cycChar (M : Nat) (q : Rat) : Cyc M := Cyc.mono (cycExp M q)

/-- `fourier.backward(C)` on the points `(x, y)`, `x` fastest, exactly: `synth` with the character `cycChar M`;
`C = Cre + i·Cim`; answer: dense coefficient lists, one per point.  `none` if a phase is not in `(1/M)ℤ`. -/
def synthCyc (M : Nat) (xs ys kx ky cre cim : List Rat) : Option (List (List Rat)) :=
  let ok := kx.all fun a => xs.all fun x => (a * x * (M : Rat)).den == 1
  let ok' := ky.all fun b => ys.all fun y => (b * y * (M : Rat)).den == 1
  if ok && ok' && M % 4 == 0 && cre.length == cim.length then
    let C : List (Cyc M) := List.zipWith Cyc.ofComplex cre cim
    some (ys.flatMap fun y => xs.map fun x => (synth (cycChar M) kx ky C x y).dense)
  else none

section extrude
variable {α : Type}

inductive Where where
  | left | right | top | bottom
deriving DecidableEq, Repr

def Where.flipped : Where → Bool
  | .top | .right => true
  | _ => false

def Where.horizontal : Where → Bool
  | .left | .right => true
  | _ => false

/-- `.shaped`: `H` rows of length `W` cut from the flat list. -/
def shaped (W : Nat) : Nat → List α → List (List α)
  | 0, _ => []
  | H + 1, s => s.take W :: shaped W H (s.drop W)

/-- `.ravel()` -/
def ravel (rows : List (List α)) : List α := rows.flatten

/-- `np.hstack((new[:, np.newaxis], screen[:, :-1]))` -/
def hstackNew (new : List α) (rows : List (List α)) : List (List α) :=
  List.zipWith (fun a r => a :: r.dropLast) new rows

/-- `np.vstack((new[np.newaxis, :], screen[:-1, :]))` -/
def vstackNew (new : List α) (rows : List (List α)) : List (List α) :=
  new :: rows.dropLast

/-- `screen[::-1, ::-1]` -/
def flip2 (rows : List (List α)) : List (List α) := (rows.map List.reverse).reverse

/-- `InfiniteAtmosphericLayer._extrude(where)` on the flat screen `s` (shape `H × W`), with the
freshly computed row/column `new`. -/
def extrude (w : Where) (W H : Nat) (new : List α) (s : List α) : List α :=
  let scr := if w.flipped then s.reverse else s
  let rows := shaped W H scr
  let rows' := if w.horizontal then hstackNew new rows else vstackNew new rows
  if w.flipped then ravel (flip2 rows') else ravel rows'

/-- The part of the screen seen by the stencil: the (possibly flipped) flat screen. -/
def stencilView (w : Where) (s : List α) : List α := if w.flipped then s.reverse else s

end extrude

end HcipyVerif.Shift
