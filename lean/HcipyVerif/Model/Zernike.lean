/-!
# Model of `hcipy/mode_basis/zernike.py` (property C13) — core Lean only

* index maps `noll_to_zernike`, `zernike_to_noll`, `ansi_to_zernike`, `zernike_to_ansi`
  (the float `sqrt` decisions are replaced by the exact integer decisions);
* the q-recursive radial polynomial, in the *repaired* division-free form
  `R_n^m(r) = r^m · S_n^m(r²)` (pending fix D9), symbolically (`reducedPoly`, `radialPoly`) and
  pointwise (`reducedEval`, `radialEval`); the unrepaired recurrence with its division by `r²`
  is kept as `radialEvalOld` (`none` = NaN);
* the factorial definition `radialDef`;
* azimuthal factor through powers of `c + i s`, normalisation, cut-off mask;
* the optional cache as an association list threaded through the evaluation (`memo…`), and the
  unrepaired separated-polar-grid behaviour that masks the cached array in place
  (`memoSeparatedOld`, defect D10).

Irrational normalisation constants never appear: a mode value is
`sqrt (normSq n m) * modeQ …` and the model computes the rational factor `modeQ`.
-/
namespace HcipyVerif.Zernike

/-! ## Index maps -/

/-- `int(sqrt(k) + 0.5)`: the integer nearest to `√k` (never a tie for integer `k`). -/
def roundSqrt (k : Nat) : Nat :=
  let s := Nat.sqrt k
  if k ≤ s * s + s then s else s + 1

/-- radial order of Noll index `i ≥ 1`: `int(sqrt(2i-1)+0.5) - 1` -/
def nollN (i : Nat) : Nat := roundSqrt (2 * i - 1) - 1

/-- `|m|` of Noll index `i` -/
def nollAbsM (i : Nat) : Nat :=
  let n := nollN i
  if n % 2 = 1 then 2 * ((2 * (i + 1) - n * (n + 1)) / 4) - 1
  else 2 * ((2 * i + 1 - n * (n + 1)) / 4)

/-- `noll_to_zernike(i)` for `i ≥ 1` -/
def nollToZernike (i : Nat) : Nat × Int :=
  (nollN i, if i % 2 = 0 then (nollAbsM i : Int) else -(nollAbsM i : Int))

/-- `for j in range(i, i + cnt): if noll_to_zernike(j) == (n, m): return j` -/
def searchNoll (n : Nat) (m : Int) : Nat → Nat → Option Nat
  | _, 0 => none
  | j, cnt + 1 => if nollToZernike j = (n, m) then some j else searchNoll n m (j + 1) cnt

/-- `zernike_to_noll(n, m)`: the brute-force search of the code, over the same window
(start `int(((n+0.5)²+1)/2)+1 = n(n+1)/2+1`, length `(n+1)(n+2)/2+1`).
`none` = the search fails (the code raises). -/
def zernikeToNoll (n : Nat) (m : Int) : Option Nat :=
  searchNoll n m (n * (n + 1) / 2 + 1) ((n + 1) * (n + 2) / 2 + 1)

/-- `ansi_to_zernike(i)`, `i ≥ 0` -/
def ansiToZernike (i : Nat) : Nat × Int :=
  let n := (Nat.sqrt (8 * i + 1) - 1) / 2
  (n, 2 * (i : Int) - n * (n + 2))

/-- `zernike_to_ansi(n, m)` (Python floor division) -/
def zernikeToAnsi (n : Nat) (m : Int) : Int := (m + n * n) / 2 + n

/-- the valid index pairs: `|m| ≤ n`, `n - |m|` even -/
def valid (n : Nat) (m : Int) : Bool := m.natAbs ≤ n && (n - m.natAbs) % 2 == 0

/-! ## Polynomials over `Rat` (coefficient of `x^i` at position `i`) -/

abbrev Poly := List Rat

def padd : Poly → Poly → Poly
  | [], q => q
  | p, [] => p
  | a :: p, b :: q => (a + b) :: padd p q

def pscale (c : Rat) (p : Poly) : Poly := p.map (c * ·)

/-- multiply by `x^k` -/
def pshift (k : Nat) (p : Poly) : Poly := List.replicate k 0 ++ p

/-- substitute `x ↦ x²` -/
def pspread : Poly → Poly
  | [] => []
  | [a] => [a]
  | a :: p => a :: 0 :: pspread p

def peval (p : Poly) (x : Rat) : Rat := p.foldr (fun a acc => a + x * acc) 0

def pmul : Poly → Poly → Poly
  | [], _ => []
  | a :: p, q => padd (pscale a q) (pshift 1 (pmul p q))

/-- strip trailing zeros -/
def pnorm (p : Poly) : Poly := (p.reverse.dropWhile (· == 0)).reverse

/-- `∫₀¹ p(x) dx` on coefficients -/
def pint01 (p : Poly) : Rat :=
  (p.zipIdx.map fun (a, i) => a / ((i : Rat) + 1)).foldr (· + ·) 0

/-! ## The q-recursive coefficients of `zernike_radial` -/

def h3 (p q : Rat) : Rat := -4 * (q - 2) * (q - 3) / ((p + q - 2) * (p - q + 4))
def h2 (p q : Rat) : Rat := h3 p q * (p + q) * (p - q + 2) / (4 * (q - 1)) + (q - 2)
def h1 (p q : Rat) : Rat := q * (q - 1) / 2 - q * h2 p q + h3 p q * (p + q + 2) * (p - q) / 8

/-- `_zernike_radial_reduced(n, m, ·)` with `m = n - 2k`, as a polynomial in `t = r²`:
`S_n^n = 1`, `S_n^{n-2} = n t - (n-1)`,
`S_n^m = h1 t² S_n^{m+4} + (h2 t + h3) S_n^{m+2}` with `p = n`, `q = m + 4`. -/
def reducedPoly (n : Nat) : Nat → Poly
  | 0 => [1]
  | 1 => [-((n : Rat) - 1), (n : Rat)]
  | k + 2 =>
    let q : Rat := ((n - 2 * k : Nat) : Rat)      -- m + 4
    let p : Rat := n
    padd (pscale (h1 p q) (pshift 2 (reducedPoly n k)))
      (padd (pscale (h2 p q) (pshift 1 (reducedPoly n (k + 1)))) (pscale (h3 p q) (reducedPoly n (k + 1))))

/-- the same recurrence on values (what the repaired code computes at one point, `t = r²`) -/
def reducedEval (n : Nat) (t : Rat) : Nat → Rat
  | 0 => 1
  | 1 => (n : Rat) * t - ((n : Rat) - 1)
  | k + 2 =>
    let q : Rat := ((n - 2 * k : Nat) : Rat)
    let p : Rat := n
    h1 p q * t ^ 2 * reducedEval n t k + (h2 p q * t + h3 p q) * reducedEval n t (k + 1)

/-- `zernike_radial(n, m, r)` (repaired): `r^m · S_n^m(r²)`; `m ≥ 0`, `n - m` even. -/
def radialEval (n m : Nat) (r : Rat) : Rat := r ^ m * reducedEval n (r * r) ((n - m) / 2)

/-- `R_n^m` as a polynomial in `r` -/
def radialPoly (n m : Nat) : Poly := pshift m (pspread (reducedPoly n ((n - m) / 2)))

/-- The unrepaired `zernike_radial` at one point, `m = n - 2k`: the recurrence
`h1 R_n^{m+4} + (h2 + h3 / r²) R_n^{m+2}`; `none` models NaN (`-inf * 0` at `r = 0`). -/
def radialEvalOld (n : Nat) (r : Rat) : Nat → Option Rat
  | 0 => some (r ^ n)
  | 1 => some ((n : Rat) * r ^ n - ((n : Rat) - 1) * r ^ (n - 2))
  | k + 2 =>
    let q : Rat := ((n - 2 * k : Nat) : Rat)
    let p : Rat := n
    match radialEvalOld n r k, radialEvalOld n r (k + 1) with
    | some a, some b => if r ^ 2 = 0 then none else some (h1 p q * a + (h2 p q + h3 p q / r ^ 2) * b)
    | _, _ => none

/-! ## The definition: factorial formula -/

def fact : Nat → Nat
  | 0 => 1
  | n + 1 => (n + 1) * fact n

/-- coefficient of `r^(n-2k)` in `R_n^m`: `(-1)^k (n-k)! / (k! ((n+m)/2-k)! ((n-m)/2-k)!)` -/
def defCoeff (n m k : Nat) : Rat :=
  ((-1 : Int) ^ k * (fact (n - k) : Int) : Int) /
    ((fact k * fact ((n + m) / 2 - k) * fact ((n - m) / 2 - k) : Nat) : Rat)

def monomial (n : Nat) : Poly := pshift n [1]

/-- `R_n^m(r) = Σ_{k=0}^{(n-m)/2} defCoeff n m k · r^(n-2k)` -/
def radialDef (n m : Nat) : Poly :=
  (List.range ((n - m) / 2 + 1)).foldr (fun k acc => padd (pscale (defCoeff n m k) (monomial (n - 2 * k))) acc) []

/-- all valid `(n, m)`, `m ≥ 0`, `n ≤ nmax` -/
def pairs (nmax : Nat) : List (Nat × Nat) :=
  (List.range (nmax + 1)).flatMap fun n =>
    ((List.range (n + 1)).filter fun m => (n - m) % 2 == 0).map fun m => (n, m)

/-! ## Azimuthal factor, normalisation, complete mode -/

/-- `(c + i s)^k` as (real, imaginary) part.  Polymorphic in the scalar (plain notation classes): the
driver runs it at `Rat`, the theorems of C13 are about the same definition at `Rat` and at `ℝ`
(`cisPow (cos θ) (sin θ) k = (cos kθ, sin kθ)` for every real `θ`). -/
def cisPow {K : Type} [Add K] [Sub K] [Mul K] [OfNat K 0] [OfNat K 1] (c s : K) : Nat → K × K
  | 0 => (1, 0)
  | k + 1 => let (a, b) := cisPow c s k; (a * c - b * s, a * s + b * c)

/-- `zernike_azimuthal(m, θ) / (√2 if m ≠ 0)` for `(cos θ, sin θ) = (c, s)`:
`cos(mθ)` for `m > 0`, `sin(|m|θ)` for `m < 0`, `1` for `m = 0` (same scalar polymorphism as `cisPow`). -/
def azimQ {K : Type} [Add K] [Sub K] [Mul K] [OfNat K 0] [OfNat K 1] (m : Int) (c s : K) : K :=
  if m = 0 then 1 else if 0 < m then (cisPow c s m.natAbs).1 else (cisPow c s m.natAbs).2

/-- square of the normalisation constant `√(n+1) · (√2 if m ≠ 0)` -/
def normSq (n : Nat) (m : Int) : Rat := ((n : Rat) + 1) * (if m = 0 then 1 else 2)

/-- rational factor of `zernike(n, m, D, grid, radial_cutoff=False)` at the polar point
`(r, θ)`, `(cos θ, sin θ) = (c, s)`; the mode value is `√(normSq n m)` times this. -/
def modeQ (n : Nat) (m : Int) (D r c s : Rat) : Rat :=
  radialEval n m.natAbs (2 * r / D) * azimQ m c s

/-- `(2 r) < D` -/
def inside (D r : Rat) : Bool := 2 * r < D

def modeQCut (n : Nat) (m : Int) (D r c s : Rat) (cutoff : Bool) : Rat :=
  if cutoff && !inside D r then 0 else modeQ n m D r c s

/-- The same mode at the Cartesian point `(x, y)`, without square roots:
`r^|m| cos(mθ) = Re (x+iy)^|m|`, `r² = x² + y²`, scaled by `2/D`. -/
def modeQXY (n : Nat) (m : Int) (D x y : Rat) : Rat :=
  let X := 2 * x / D
  let Y := 2 * y / D
  reducedEval n (X * X + Y * Y) ((n - m.natAbs) / 2) *
    (if m = 0 then 1 else if 0 < m then (cisPow X Y m.natAbs).1 else (cisPow X Y m.natAbs).2)

/-- `2·hypot(x,y) < D` decided exactly (for `D > 0`) -/
def insideXY (D x y : Rat) : Bool := 4 * (x * x + y * y) < D * D

def modeQXYCut (n : Nat) (m : Int) (D x y : Rat) (cutoff : Bool) : Rat :=
  if cutoff && !insideXY D x y then 0 else modeQXY n m D x y

/-! ## The optional cache

The cache of one grid, observed at one grid point (every array operation of the code is
pointwise): keys `('rad', n, m)`, `('rad_reduced', n, m)`, `('azim', m)`. -/

inductive Key where
  | rad (n m : Nat)
  | red (n k : Nat)       -- ('rad_reduced', n, n - 2k)
  | azim (m : Int)
deriving DecidableEq, Repr

abbrev Cache := List (Key × Rat)

def Cache.get (c : Cache) (k : Key) : Option Rat := (c.find? fun p => p.1 == k).map (·.2)
def Cache.put (c : Cache) (k : Key) (v : Rat) : Cache := (k, v) :: c.filter (fun p => !(p.1 == k))

/-- `_zernike_radial_reduced(n, n-2k, t, cache)` -/
def memoReduced (n : Nat) (t : Rat) : Nat → Cache → Rat × Cache
  | 0, c =>
    match c.get (.red n 0) with
    | some v => (v, c)
    | none => (1, c.put (.red n 0) 1)
  | 1, c =>
    match c.get (.red n 1) with
    | some v => (v, c)
    | none => let v := (n : Rat) * t - ((n : Rat) - 1); (v, c.put (.red n 1) v)
  | k + 2, c =>
    match c.get (.red n (k + 2)) with
    | some v => (v, c)
    | none =>
      let q : Rat := ((n - 2 * k : Nat) : Rat)
      let p : Rat := n
      let (s1, c1) := memoReduced n t k c
      let (s2, c2) := memoReduced n t (k + 1) c1
      let v := h1 p q * t ^ 2 * s1 + (h2 p q * t + h3 p q) * s2
      (v, c2.put (.red n (k + 2)) v)

/-- `zernike_radial(n, m, r, cache)` -/
def memoRadial (n m : Nat) (r : Rat) (c : Cache) : Rat × Cache :=
  match c.get (.rad n m) with
  | some v => (v, c)
  | none =>
    let (s, c1) := memoReduced n (r * r) ((n - m) / 2) c
    let v := r ^ m * s
    (v, c1.put (.rad n m) v)

/-- `zernike_azimuthal(m, θ, cache) / √2` (`m = 0` returns 1 without touching the cache) -/
def memoAzim (m : Int) (cs sn : Rat) (c : Cache) : Rat × Cache :=
  if m = 0 then (1, c) else
  match c.get (.azim m) with
  | some v => (v, c)
  | none => let v := azimQ m cs sn; (v, c.put (.azim m) v)

/-- one request `zernike(n, m, D, grid, cutoff, cache)` observed at the grid point
`(r, θ)`; the cache belongs to that grid and that `D` -/
structure Req where
  n : Nat
  m : Int
  cutoff : Bool
deriving Repr, DecidableEq

/-- `zernike(…, cache)` (repaired; both grid branches compute the same thing pointwise) -/
def memoMode (D r cs sn : Rat) (q : Req) (c : Cache) : Rat × Cache :=
  let (zr, c1) := memoRadial q.n q.m.natAbs (2 * r / D) c
  let (za, c2) := memoAzim q.m cs sn c1
  let v := zr * za
  (if q.cutoff && !inside D r then 0 else v, c2)

/-- run a list of requests against one cache, collecting the results -/
def runMemo (D r cs sn : Rat) : List Req → Cache → List Rat
  | [], _ => []
  | q :: qs, c => let (v, c') := memoMode D r cs sn q c; v :: runMemo D r cs sn qs c'

/-- Unrepaired separated-polar branch (D10): `z_r *= mask` acts on the array that *is* the
cache entry, so the masked value is what stays in the cache. -/
def memoModeSeparatedOld (D r cs sn : Rat) (q : Req) (c : Cache) : Rat × Cache :=
  let (zr, c1) := memoRadial q.n q.m.natAbs (2 * r / D) c
  let zr' := if q.cutoff && !inside D r then 0 else zr
  let c1' := if q.cutoff then c1.put (.rad q.n q.m.natAbs) zr' else c1
  let (za, c2) := memoAzim q.m cs sn c1'
  (zr' * za, c2)

def runMemoSeparatedOld (D r cs sn : Rat) : List Req → Cache → List Rat
  | [], _ => []
  | q :: qs, c => let (v, c') := memoModeSeparatedOld D r cs sn q c; v :: runMemoSeparatedOld D r cs sn qs c'


/-! ## `make_zernike_basis`: which mode is the `j`-th element

`modes = [f(i, …) for i in range(starting_mode, starting_mode + num_modes)]` with
`f = zernike_ansi` or `zernike_noll`; for `grid=None` the elements are Field generators, each bound
to its own index at construction time. -/

def basisModes (ansi : Bool) (start num : Nat) : List (Nat × Int) :=
  (List.range num).map fun j => if ansi then ansiToZernike (start + j) else nollToZernike (start + j)

/-- a list of closures that all look the loop variable up when *called* (late binding): every
generator evaluates the last index -/
def basisModesLateBinding (ansi : Bool) (start num : Nat) : List (Nat × Int) :=
  (List.range num).map fun _ => if ansi then ansiToZernike (start + (num - 1)) else nollToZernike (start + (num - 1))

end HcipyVerif.Zernike
