/-!
# Line-protocol helpers (core Lean only)

Numbers travel as exact rationals `num/den` (or plain integers); lists as `[a,b,c]`
(no spaces).  Nothing is ever defaulted: a token that does not parse yields `none`, and the
driver answers `bad-op`.
-/
namespace HcipyVerif.Proto

def parseInt? (s : String) : Option Int := s.toInt?

def parseNat? (s : String) : Option Nat := s.toNat?

/-- `num/den` or `num`; denominator must be a positive natural. -/
def parseRat? (s : String) : Option Rat :=
  match s.splitOn "/" with
  | [n] => (n.toInt?).map fun i => (i : Rat)
  | [n, d] =>
    match n.toInt?, d.toNat? with
    | some i, some k => if k = 0 then none else some (mkRat i k)
    | _, _ => none
  | _ => none

/-- Canonical print: reduced, `n` when the denominator is one. -/
def showRat (q : Rat) : String :=
  if q.den = 1 then toString q.num else s!"{q.num}/{q.den}"

def showBool (b : Bool) : String := if b then "1" else "0"

/-- Split the inside of `[a,b,c]`; `[]` is the empty list. Nested lists are not supported here
(use `;`-separated groups at a higher level). -/
def parseListWith? {α} (p : String → Option α) (s : String) : Option (List α) :=
  if s.length < 2 then none
  else if s.front != '[' || s.back != ']' then none
  else
    let inner := (s.drop 1).dropEnd 1 |>.toString
    if inner.isEmpty then some []
    else (inner.splitOn ",").mapM p

def parseRatList? := parseListWith? parseRat?
def parseNatList? := parseListWith? parseNat?
def parseIntList? := parseListWith? parseInt?

def showList {α} (f : α → String) (l : List α) : String :=
  "[" ++ ",".intercalate (l.map f) ++ "]"

def showRatList := showList showRat
def showNatList := showList (fun (n : Nat) => toString n)
def showIntList := showList (fun (n : Int) => toString n)

/-- A list of lists written `[a,b];[c];[]` (groups separated by `;`). -/
def parseRatLists? (s : String) : Option (List (List Rat)) :=
  if s == "-" then some [] else (s.splitOn ";").mapM parseRatList?

def showRatLists (l : List (List Rat)) : String :=
  if l.isEmpty then "-" else ";".intercalate (l.map showRatList)

end HcipyVerif.Proto
