import HcipyVerif.Model.FftIndex

/-!
# MatrixFourierTransform — executable model, core Lean only

Follows `MatrixFourierTransform._compute_matrices`, `forward`, `backward`
(`hcipy/fourier/matrix_fourier_transform.py`) line by line, including the transposes of the
hand-coded BLAS calls.  Polymorphic in the coordinates `K` and the values `C`; `exp` enters through
the character `E : K → C`, `E r = exp(i·r)`; complex conjugation is the parameter `cj : C → C`
(executable: `PSum.conj`, phase negation; proofs: any map with `cj (E a) = E (-a)`, in particular
`starRingEnd ℂ`).

Conventions (ndim = 2): input separated coordinates `x` (`Nx` samples), `y` (`Ny`), output `u`
(`Nu`), `v` (`Nv`).  `shape_input = (Ny, Nx)`, a flat field has index `iy*Nx + ix` (x fastest),
`shape_output = (Nv, Nu)`, flat output index `iv*Nu + iu`.
-/
set_option linter.unusedVariables false

namespace HcipyVerif.Fft

/-- `weights_input` / `weights_output` after the "all the same → scalar" reduction of
`_compute_matrices`: either a scalar or a flat array. -/
inductive Weights (C : Type) where
  | scalar (w0 : C)
  | array (w : Nat → C)

section
variable {K C : Type} [Mul K] [Neg K] [Zero C] [One C] [Add C] [Mul C]

/-- a matrix is a function of (row, column) -/
abbrev Mat (C : Type) := Nat → Nat → C

/-- `a.T` -/
def Mat.tr (a : Mat C) : Mat C := fun i j => a j i
/-- `a.conj().T` (BLAS `trans = 2`) -/
def Mat.ctr (cj : C → C) (a : Mat C) : Mat C := fun i j => cj (a j i)

/-- `field.reshape((nrows, ncols))`, C order -/
def reshape2 (ncols : Nat) (f : Nat → C) : Mat C := fun i j => f (i * ncols + j)
/-- `a.reshape(-1)` for a C-ordered `(·, ncols)` array -/
def flatten2 (ncols : Nat) (a : Mat C) : Nat → C := fun k => a (k / ncols) (k % ncols)

/-- BLAS `gemm(alpha, a, b)` = `alpha · a @ b` with inner dimension `n` -/
def gemm (alpha : C) (n : Nat) (a b : Mat C) : Mat C :=
  fun i j => alpha * sumRange n fun k => a i k * b k j

variable (E : K → C)

/-- `M1 = exp(-1j * np.outer(v, y))`, shape `(Nv, Ny)` -/
def mftM1 (v y : Nat → K) : Mat C := fun iv iy => E (-(v iv * y iy))
/-- `M2 = exp(-1j * np.outer(x, u))`, shape `(Nx, Nu)` -/
def mftM2 (x u : Nat → K) : Mat C := fun ix iu => E (-(x ix * u iu))
/-- ndim = 1: `M = exp(-1j * np.outer(output_grid.x, input_grid.x))`, shape `(Nu, Nx)` -/
def mftM (u x : Nat → K) : Mat C := fun iu ix => E (-(u iu * x ix))

/-- the `if np.isscalar(weights)` branch: the reshaped operand `f` and `alpha` -/
def mftOperand (ncols : Nat) (w : Weights C) (field : Nat → C) : Mat C × C :=
  match w with
  | .scalar w0 => (reshape2 ncols field, w0)
  | .array wa => (reshape2 ncols (fun i => field i * wa i), 1)

/-- `MatrixFourierTransform.forward`, ndim = 2.
```
gemm(1, M2.T, f.T, c=intermediate_array.T, overwrite_c=True)
res = gemm(alpha, intermediate_array.T, M1.T).T.reshape(-1)
``` -/
def mftForward (Nx Ny Nu Nv : Nat) (x y u v : Nat → K) (w : Weights C) (field : Nat → C) :
    Nat → C :=
  let M1 : Mat C := mftM1 E v y
  let M2 : Mat C := mftM2 E x u
  let (f, alpha) := mftOperand Nx w field
  let intermediateT : Mat C := gemm 1 Nx M2.tr f.tr
  flatten2 Nu (gemm alpha Ny intermediateT M1.tr).tr

/-- `MatrixFourierTransform.backward`, ndim = 2; `wOut` is `weights_output`
(= `output_grid.weights / (2π)^2`, passed in as given numbers).
```
gemm(1, f.T, M1.T, trans_b=2, c=intermediate_array.T, overwrite_c=True)
res = gemm(alpha, M2.T, intermediate_array.T, trans_a=2).T.reshape(-1)
``` -/
def mftBackward (cj : C → C) (Nx Ny Nu Nv : Nat) (x y u v : Nat → K) (wOut : Weights C)
    (field : Nat → C) : Nat → C :=
  let M1 : Mat C := mftM1 E v y
  let M2 : Mat C := mftM2 E x u
  let (f, alpha) := mftOperand Nu wOut field
  let intermediateT : Mat C := gemm 1 Nv f.tr (Mat.ctr cj M1.tr)
  flatten2 Nx (gemm alpha Nu (Mat.ctr cj M2.tr) intermediateT).tr

/-- the flat weights array as seen by `field * weights` (NumPy broadcasting of a scalar) -/
def Weights.get (w : Weights C) (i : Nat) : C :=
  match w with
  | .scalar w0 => w0
  | .array wa => wa i

/-- `forward`, ndim = 1: `f = field * weights_input; res = np.dot(M, f)` -/
def mftForward1 (Nx : Nat) (x u : Nat → K) (w : Weights C) (field : Nat → C) : Nat → C :=
  let M : Mat C := mftM E u x
  let f : Nat → C := fun i => field i * w.get i
  fun iu => sumRange Nx fun ix => M iu ix * f ix

/-- `backward`, ndim = 1: `f = field * weights_output; res = np.dot(M.conj().T, f)` -/
def mftBackward1 (cj : C → C) (Nu : Nat) (x u : Nat → K) (wOut : Weights C) (field : Nat → C) :
    Nat → C :=
  let M : Mat C := mftM E u x
  let f : Nat → C := fun i => field i * wOut.get i
  fun ix => sumRange Nu fun iu => Mat.ctr cj M ix iu * f iu

/-- the defining sum, forward, ndim = 2:
`Σ_iy Σ_ix f[iy*Nx+ix]·w[iy*Nx+ix]·exp(-i(u·x + v·y))` at flat output index `k = iv*Nu + iu` -/
def mftSumForward [Add K] (Nx Ny Nu : Nat) (x y u v : Nat → K) (w : Weights C) (field : Nat → C)
    (k : Nat) : C :=
  sumRange Ny fun iy => sumRange Nx fun ix =>
    field (iy * Nx + ix) * w.get (iy * Nx + ix) * E (-(u (k % Nu) * x ix + v (k / Nu) * y iy))

/-- the defining sum, backward, ndim = 2, at flat input index `k = iy*Nx + ix` -/
def mftSumBackward [Add K] (Nx Nu Nv : Nat) (x y u v : Nat → K) (wOut : Weights C)
    (field : Nat → C) (k : Nat) : C :=
  sumRange Nv fun iv => sumRange Nu fun iu =>
    field (iv * Nu + iu) * wOut.get (iv * Nu + iu) * E (u iu * x (k % Nx) + v iv * y (k / Nx))

end

/-- complex conjugation on formal phase sums: negate every phase -/
def PSum.conj (a : PSum) : PSum :=
  ⟨a.terms.map fun x => ⟨x.c, fracPart (-x.t), -x.r⟩⟩

/-! ## The executable instances (`K = Rat`, `C = PSum`, `E = PSum.rad`) -/

/-- weights from a list of rationals: a single entry is the scalar branch -/
def Weights.ofRats (l : List Rat) : Weights PSum :=
  match l with
  | [w0] => .scalar (PSum.ofRat w0)
  | _ => .array fun i => PSum.ofRat (l.getD i 0)

def coordOf (l : List Rat) (i : Nat) : Rat := l.getD i 0

/-- `forward` of the unit impulse at flat index `j`, all `Nv*Nu` output samples -/
def mftForwardImpulse (x y u v : List Rat) (w : List Rat) (j : Nat) : List PSum :=
  (List.range (v.length * u.length)).map
    (mftForward PSum.rad x.length y.length u.length v.length (coordOf x) (coordOf y) (coordOf u)
      (coordOf v) (Weights.ofRats w) (PSum.impulse j))

/-- `backward` of the unit impulse at flat index `j`, all `Ny*Nx` output samples -/
def mftBackwardImpulse (x y u v : List Rat) (wOut : List Rat) (j : Nat) : List PSum :=
  (List.range (y.length * x.length)).map
    (mftBackward PSum.rad PSum.conj x.length y.length u.length v.length (coordOf x) (coordOf y)
      (coordOf u) (coordOf v) (Weights.ofRats wOut) (PSum.impulse j))

/-- right-hand side of `mft_forward_eq_sum_2d` for the unit impulse -/
def mftSumForwardImpulse (x y u v : List Rat) (w : List Rat) (j : Nat) : List PSum :=
  (List.range (v.length * u.length)).map
    (mftSumForward PSum.rad x.length y.length u.length (coordOf x) (coordOf y) (coordOf u)
      (coordOf v) (Weights.ofRats w) (PSum.impulse j))

/-- right-hand side of `mft_backward_eq_sum_2d` for the unit impulse -/
def mftSumBackwardImpulse (x y u v : List Rat) (wOut : List Rat) (j : Nat) : List PSum :=
  (List.range (y.length * x.length)).map
    (mftSumBackward PSum.rad x.length u.length v.length (coordOf x) (coordOf y) (coordOf u)
      (coordOf v) (Weights.ofRats wOut) (PSum.impulse j))

def mftForward1Impulse (x u : List Rat) (w : List Rat) (j : Nat) : List PSum :=
  (List.range u.length).map
    (mftForward1 PSum.rad x.length (coordOf x) (coordOf u) (Weights.ofRats w) (PSum.impulse j))

def mftBackward1Impulse (x u : List Rat) (wOut : List Rat) (j : Nat) : List PSum :=
  (List.range x.length).map
    (mftBackward1 PSum.rad PSum.conj u.length (coordOf x) (coordOf u) (Weights.ofRats wOut)
      (PSum.impulse j))

end HcipyVerif.Fft
