import HcipyVerif.Driver.C01
import HcipyVerif.Driver.C02
import HcipyVerif.Driver.C03
import HcipyVerif.Driver.C04
import HcipyVerif.Driver.C05
import HcipyVerif.Driver.C06
import HcipyVerif.Driver.C07
import HcipyVerif.Driver.C08
import HcipyVerif.Driver.C09
import HcipyVerif.Driver.C10
import HcipyVerif.Driver.C11
import HcipyVerif.Driver.C12
import HcipyVerif.Driver.C13
import HcipyVerif.Driver.C14
import HcipyVerif.Driver.C15
import HcipyVerif.Driver.C16
import HcipyVerif.Driver.C17
import HcipyVerif.Driver.C18
import HcipyVerif.Driver.C19
import HcipyVerif.Driver.C20

/-!
Line-protocol driver: one request per line (`Cxx op args…`), one response line per request.
Lines starting with `#` are echoed.  Imports model files only (no Mathlib) so that it links as a
native executable.  Each property owns `HcipyVerif/Driver/Cxx.lean` (`St`, `step`).
-/
open HcipyVerif.Driver

structure DriverState where
  c01 : C01.St := {}
  c02 : C02.St := {}
  c03 : C03.St := {}
  c04 : C04.St := {}
  c05 : C05.St := {}
  c06 : C06.St := {}
  c07 : C07.St := {}
  c08 : C08.St := {}
  c09 : C09.St := {}
  c10 : C10.St := {}
  c11 : C11.St := {}
  c12 : C12.St := {}
  c13 : C13.St := {}
  c14 : C14.St := {}
  c15 : C15.St := {}
  c16 : C16.St := {}
  c17 : C17.St := {}
  c18 : C18.St := {}
  c19 : C19.St := {}
  c20 : C20.St := {}

def dispatch (st : DriverState) (line : String) : DriverState × String :=
  let toks := (line.trimAscii.toString.splitOn " ").filter (· ≠ "")
  match toks with
  | [] => (st, "bad-op")
  | "C01" :: rest => let (s, o) := C01.step st.c01 rest; ({ st with c01 := s }, o)
  | "C02" :: rest => let (s, o) := C02.step st.c02 rest; ({ st with c02 := s }, o)
  | "C03" :: rest => let (s, o) := C03.step st.c03 rest; ({ st with c03 := s }, o)
  | "C04" :: rest => let (s, o) := C04.step st.c04 rest; ({ st with c04 := s }, o)
  | "C05" :: rest => let (s, o) := C05.step st.c05 rest; ({ st with c05 := s }, o)
  | "C06" :: rest => let (s, o) := C06.step st.c06 rest; ({ st with c06 := s }, o)
  | "C07" :: rest => let (s, o) := C07.step st.c07 rest; ({ st with c07 := s }, o)
  | "C08" :: rest => let (s, o) := C08.step st.c08 rest; ({ st with c08 := s }, o)
  | "C09" :: rest => let (s, o) := C09.step st.c09 rest; ({ st with c09 := s }, o)
  | "C10" :: rest => let (s, o) := C10.step st.c10 rest; ({ st with c10 := s }, o)
  | "C11" :: rest => let (s, o) := C11.step st.c11 rest; ({ st with c11 := s }, o)
  | "C12" :: rest => let (s, o) := C12.step st.c12 rest; ({ st with c12 := s }, o)
  | "C13" :: rest => let (s, o) := C13.step st.c13 rest; ({ st with c13 := s }, o)
  | "C14" :: rest => let (s, o) := C14.step st.c14 rest; ({ st with c14 := s }, o)
  | "C15" :: rest => let (s, o) := C15.step st.c15 rest; ({ st with c15 := s }, o)
  | "C16" :: rest => let (s, o) := C16.step st.c16 rest; ({ st with c16 := s }, o)
  | "C17" :: rest => let (s, o) := C17.step st.c17 rest; ({ st with c17 := s }, o)
  | "C18" :: rest => let (s, o) := C18.step st.c18 rest; ({ st with c18 := s }, o)
  | "C19" :: rest => let (s, o) := C19.step st.c19 rest; ({ st with c19 := s }, o)
  | "C20" :: rest => let (s, o) := C20.step st.c20 rest; ({ st with c20 := s }, o)
  | _ => (st, "bad-op")

partial def loop (h : IO.FS.Stream) (out : IO.FS.Stream) (st : DriverState) : IO Unit := do
  let line ← h.getLine
  if line.isEmpty then return ()
  if line.startsWith "#" then
    out.putStr line
    loop h out st
  else
    let (st', o) := dispatch st line
    out.putStrLn o
    loop h out st'

def main : IO Unit := do
  let out ← IO.getStdout
  loop (← IO.getStdin) out {}
  out.flush
