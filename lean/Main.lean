import HcipyVerif.Driver.C20

/-!
Line-protocol driver: one request per line (`Cxx op args…`), one response line per request.
Lines starting with `#` are echoed.  Imports model files only (no Mathlib) so that it links as a
native executable.
-/
open HcipyVerif.Driver

structure DriverState where
  c20 : C20.St := {}

def dispatch (st : DriverState) (line : String) : DriverState × String :=
  let toks := (line.trimAscii.toString.splitOn " ").filter (· ≠ "")
  match toks with
  | [] => (st, "bad-op")
  | "C20" :: rest => let (s, o) := C20.step st.c20 rest; ({ st with c20 := s }, o)
  | _ => (st, "bad-op")

partial def loop (h : IO.FS.Stream) (out : IO.FS.Stream) (st : DriverState) : IO Unit := do
  let line ← h.getLine
  if line.isEmpty then return ()
  if line.startsWith "#" then
    out.putStr line
    loop h out st
  else
    let (st', o) := dispatch st line
    out.putStrLn o
    loop h out st'

def main : IO Unit := do
  let out ← IO.getStdout
  loop (← IO.getStdin) out {}
  out.flush
