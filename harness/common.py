"""Shared machinery of the hcipy verification harness.

Everything here is part of the *trusted base* of the tie between the Lean model and /repo:
the rational<->float encoding, the driver plumbing, the audit of the Lean build, the
known-findings filter and the evidence writer.
"""
import fractions
import hashlib
import json
import os
import re
import subprocess
import sys
import time

VERIF = os.path.dirname(os.path.dirname(os.path.abspath(__file__)))
LEAN_DIR = os.path.join(VERIF, 'lean')
# VERIF_EVIDENCE_DIR lets the self-tests (tools/seedtest.py) keep their runs out of the committed evidence
EVIDENCE_DIR = os.environ.get('VERIF_EVIDENCE_DIR') or os.path.join(VERIF, 'evidence')
REPLAY_DIR = os.path.join(EVIDENCE_DIR, 'replay')
FINDINGS_FILE = os.path.join(VERIF, 'known_findings.json')
DRIVER_EXE = os.path.join(LEAN_DIR, '.lake', 'build', 'bin', 'driver')
ALLOWED_AXIOMS = {'propext', 'Classical.choice', 'Quot.sound'}
FORBIDDEN = re.compile(r'\bsorry\b|\badmit\b|^\s*axiom\s|native_decide|bv_decide|implemented_by|\bunsafe\s|maxHeartbeats\s+0\b|Lean\.ofReduceBool|Lean\.trustCompiler', re.M)

Fraction = fractions.Fraction


class MachineryError(Exception):
    """A fault of the verification machinery itself (exit 2, never a VIOLATION)."""


# ----------------------------------------------------------------------------------------------
# exact numbers

def rat(x):
    """Exact protocol text of a number: the float/int/Fraction *is* that rational."""
    if isinstance(x, bool):
        raise MachineryError('bool passed as number')
    if isinstance(x, int):
        return str(x)
    if isinstance(x, Fraction):
        f = x
    else:
        import numpy as np
        if isinstance(x, (np.integer,)):
            return str(int(x))
        xf = float(x)
        if xf != xf or xf in (float('inf'), float('-inf')):
            raise MachineryError('non-finite number cannot be sent to the model: %r' % (x,))
        f = Fraction(*xf.as_integer_ratio())
    return str(f.numerator) if f.denominator == 1 else '%d/%d' % (f.numerator, f.denominator)


def rat_list(xs):
    return '[' + ','.join(rat(x) for x in xs) + ']'


def rat_lists(xss):
    xss = list(xss)
    return '-' if not xss else ';'.join(rat_list(x) for x in xss)


def parse_rat(s):
    return Fraction(s)


def parse_rat_list(s):
    assert s[0] == '[' and s[-1] == ']', s
    inner = s[1:-1]
    return [] if not inner else [Fraction(t) for t in inner.split(',')]


def parse_rat_lists(s):
    return [] if s == '-' else [parse_rat_list(t) for t in s.split(';')]


def dyadic(rng, lo, hi, bits=8):
    """A random dyadic rational in [lo, hi] with `bits` fractional bits, as a Python float
    (exactly representable, so the float the code sees is the rational the model sees)."""
    n = int(rng.integers(int(lo * (1 << bits)), int(hi * (1 << bits)) + 1))
    return n / float(1 << bits)


def close(a, b, tol=1e-9, scale=1.0):
    return abs(a - b) <= tol * max(1.0, scale)


def shrink_list(items, still_fails, max_steps=400):
    """Delta-debugging on a list: returns a (locally) minimal sub-list on which `still_fails` holds.
    `still_fails(list) -> bool` must be deterministic; exceptions count as 'does not fail'."""
    items = list(items)
    steps = 0

    def bad(x):
        try:
            return bool(still_fails(x))
        except Exception:
            return False
    n = 2
    while len(items) >= 2 and steps < max_steps:
        chunk = max(1, len(items) // n)
        reduced = False
        for i in range(0, len(items), chunk):
            cand = items[:i] + items[i + chunk:]
            steps += 1
            if cand and bad(cand):
                items = cand
                n = max(n - 1, 2)
                reduced = True
                break
        if not reduced:
            if chunk == 1:
                break
            n = min(len(items), n * 2)
    return items


# ----------------------------------------------------------------------------------------------
# Lean side

def _run(cmd, cwd=None, timeout=3600, input=None):
    p = subprocess.run(cmd, cwd=cwd, stdout=subprocess.PIPE, stderr=subprocess.STDOUT, text=True,
                       timeout=timeout, input=input)
    return p.returncode, p.stdout


def lake_build(targets):
    """Build Lean targets; returns (ok, log)."""
    rc, out = _run(['lake', 'build'] + list(targets), cwd=LEAN_DIR)
    return rc == 0, out


def strip_lean_comments(src):
    out = []
    i, depth, n = 0, 0, len(src)
    while i < n:
        if src.startswith('/-', i):
            depth += 1; i += 2; continue
        if depth and src.startswith('-/', i):
            depth -= 1; i += 2; continue
        if depth:
            i += 1; continue
        if src.startswith('--', i):
            j = src.find('\n', i)
            i = n if j < 0 else j
            continue
        out.append(src[i]); i += 1
    return ''.join(out)


def lean_sources():
    res = []
    for root, _, files in os.walk(os.path.join(LEAN_DIR, 'HcipyVerif')):
        for f in files:
            if f.endswith('.lean'):
                res.append(os.path.join(root, f))
    res.append(os.path.join(LEAN_DIR, 'Main.lean'))
    return sorted(res)


def forbidden_tokens():
    hits = []
    for path in lean_sources():
        code = strip_lean_comments(open(path).read())
        for m in FORBIDDEN.finditer(code):
            hits.append('%s: %s' % (os.path.relpath(path, LEAN_DIR), m.group(0).strip()))
    return hits


def property_theorems(prop_id):
    """(namespace, [theorem names], number of examples) of Properties/<id>.lean."""
    path = os.path.join(LEAN_DIR, 'HcipyVerif', 'Properties', prop_id + '.lean')
    code = strip_lean_comments(open(path).read())
    ns = re.search(r'^namespace\s+(\S+)', code, re.M)
    ns = ns.group(1) if ns else ''
    names = re.findall(r'^(?:private\s+|protected\s+)?theorem\s+(\S+)', code, re.M)
    examples = len(re.findall(r'^example\b', code, re.M))
    return ns, names, examples


def audit_axioms(prop_id):
    """Run `#print axioms` on every property theorem. Returns {theorem: [axioms] or None}."""
    ns, names, examples = property_theorems(prop_id)
    audit_dir = os.path.join(LEAN_DIR, '.lake', 'audit')
    os.makedirs(audit_dir, exist_ok=True)
    path = os.path.join(audit_dir, prop_id + '_audit.lean')
    with open(path, 'w') as f:
        f.write('import HcipyVerif.Properties.%s\n' % prop_id)
        for n in names:
            full = (ns + '.' + n) if ns and not n.startswith('_root_.') else n
            f.write('#print axioms %s\n' % full)
    rc, out = _run(['lake', 'env', 'lean', path], cwd=LEAN_DIR)
    res = {}
    for n in names:
        full = (ns + '.' + n) if ns else n
        m = re.search(r"'%s' depends on axioms: \[([^\]]*)\]" % re.escape(full), out)
        if m:
            res[n] = [a.strip() for a in m.group(1).replace('\n', ' ').split(',') if a.strip()]
        elif re.search(r"'%s' does not depend on any axioms" % re.escape(full), out):
            res[n] = []
        else:
            res[n] = None
    return res, examples, out


def _sources_digest():
    import hashlib
    h = hashlib.sha256()
    for path in lean_sources() + [os.path.join(LEAN_DIR, 'TieAudit.lean')]:
        h.update(path.encode()); h.update(open(path, 'rb').read())
    return h.hexdigest()


def tie_audit(prop_id):
    """Mechanical measurement of the tie (lean/TieAudit.lean): which definitions in the statements of this
    property's theorems are the ones the native driver executes.  Cached per digest of the Lean sources.
    Returns a dict (or {'error': ...}); never affects the verdict."""
    ns, names, _ = property_theorems(prop_id)
    audit_dir = os.path.join(LEAN_DIR, '.lake', 'audit')
    os.makedirs(audit_dir, exist_ok=True)
    cache = os.path.join(audit_dir, prop_id + '_tie.json')
    digest = _sources_digest()
    try:
        c = json.load(open(cache))
        if c.get('digest') == digest:
            return c['result']
    except Exception:
        pass
    ok, log = lake_build(['TieAudit'])
    if not ok:
        return {'error': 'TieAudit did not build'}
    drivers = sorted(f[:-5] for f in os.listdir(os.path.join(LEAN_DIR, 'HcipyVerif', 'Driver')) if f.endswith('.lean'))
    path = os.path.join(audit_dir, prop_id + '_tie.lean')
    with open(path, 'w') as f:
        f.write('import TieAudit\nimport HcipyVerif.Properties.%s\n' % prop_id)
        for d in drivers:
            f.write('import HcipyVerif.Driver.%s\n' % d)
        full = ['`' + ((ns + '.' + n) if ns and not n.startswith('_root_.') else n) for n in names]
        f.write('#eval TieAudit.run `HcipyVerif.Properties.%s #[%s]\n' % (prop_id, ', '.join(full)))
    rc, out = _run(['lake', 'env', 'lean', path], cwd=LEAN_DIR)
    m = re.search(r'TIEAUDIT-BEGIN\n(.*)\nTIEAUDIT-END', out, re.S)
    if not m:
        return {'error': 'no output', 'log': out[-400:]}
    try:
        res = json.loads(m.group(1))
    except Exception as e:
        return {'error': 'unparsable: %s' % e}
    per = res.pop('per_theorem', [])
    res['rule'] = ('executed = reachable from a HcipyVerif.Driver.*.step through definition bodies; derived = thin wrapper '
                   '(<= 3 unexecuted definitions) over executed ones; parallel = unfolding shares helpers with the executed model '
                   'but has > 3 definitions no driver runs; free = no definitional connection (specification functions, pure mathematics)')
    res['status_by_theorem'] = {t['name'].split('.')[-1]: t['status'] for t in per}
    res['parallel_or_free_defs'] = sorted({d for t in per for d in t['parallel'] + t['free']})
    with open(cache, 'w') as f:
        json.dump({'digest': digest, 'result': res}, f)
    return res


class Driver:
    """Batch access to the Lean model: send request lines, get one response line per request."""

    def __init__(self, strict=True):
        # strict: a rejected request (`bad-op`) is a machinery fault at once.  Ctx.model uses strict=False: a request can
        # also be rejected because the model's state has diverged from the implementation's earlier in the same batch
        # (the model answered `err` where the code built an object the harness then refers to) - which is a broken
        # correspondence, not a protocol fault.  Ctx decides at the end of the run (see Ctx.rejected_requests).
        self.strict = strict
        self.rejected = []
        if not os.path.exists(DRIVER_EXE):
            raise MachineryError('driver executable missing: run setup (cd lean && lake build)')

    def ask(self, lines):
        lines = list(lines)
        if not lines:
            return []
        for l in lines:
            if '\n' in l:
                raise MachineryError('newline in request')
        p = subprocess.run([DRIVER_EXE], input='\n'.join(lines) + '\n', stdout=subprocess.PIPE,
                           stderr=subprocess.PIPE, text=True, timeout=3600)
        if p.returncode != 0:
            raise MachineryError('driver exited with %d: %s' % (p.returncode, p.stderr[-2000:]))
        out = p.stdout.split('\n')
        if out and out[-1] == '':
            out.pop()
        if len(out) != len(lines):
            raise MachineryError('driver returned %d lines for %d requests' % (len(out), len(lines)))
        self.rejected = [req for req, resp in zip(lines, out) if resp == 'bad-op' and not req.startswith('#')]
        if self.rejected and self.strict:
            raise MachineryError('driver rejected request %r' % self.rejected[0])
        return out


# ----------------------------------------------------------------------------------------------
# findings, evidence, verdict

def load_findings():
    if not os.path.exists(FINDINGS_FILE):
        return []
    return json.load(open(FINDINGS_FILE)).get('findings', [])


class Ctx:
    """One run of one property's check."""

    def __init__(self, prop_id, tier, seed):
        import numpy as np
        self.id = prop_id
        self.tier = tier
        self.seed = seed
        self.rng = np.random.default_rng([seed, int(prop_id[1:])])
        self.t0 = time.time()
        self.evaluations = 0
        self.nontrivial = set()
        self.samples = []
        self.dist = {}
        self.boundary_skipped = 0
        self.traces_validated = 0
        self.disagreements = []     # model vs implementation
        self.violations = []        # property fails on the real code (concrete input)
        self.obligation_failures = []
        self.obligations = 0
        self.discharged = 0
        self.axioms = {}
        self.rule = ''
        self.assumptions = []
        self.extra = {}
        self.known = [f for f in load_findings() if f.get('property') == prop_id]
        self.driver = None
        self.rejected_requests = []   # requests the model driver answered `bad-op` (see Driver.__init__)

    # -- bookkeeping used by props modules
    def quick(self):
        return self.tier == 'quick'

    def scale(self, quick, thorough):
        return quick if self.tier == 'quick' else thorough

    def count(self, key, n=1):
        self.dist[key] = self.dist.get(key, 0) + n

    def case(self, sample=None, nontrivial_key=None):
        self.evaluations += 1
        if nontrivial_key is not None:
            self.nontrivial.add(nontrivial_key)
        if sample is not None and len(self.samples) < 6:
            self.samples.append(sample)

    def model(self, lines):
        if self.driver is None:
            self.driver = Driver(strict=False)
        lines = list(lines)
        ops = self.extra.setdefault('driver_ops_sent', {})   # which front-end ops this run really exercised
        for l in lines:
            if l and not l.startswith('#'):
                k = ' '.join(l.split(' ', 2)[:2])
                ops[k] = ops.get(k, 0) + 1
        out = self.driver.ask(lines)
        if self.driver.rejected:
            self.rejected_requests += self.driver.rejected[:5]
        return out

    def disagree(self, stream, detail, key=None):
        """The model and the implementation behave differently on `detail`."""
        self.disagreements.append({'stream': stream, 'detail': detail, 'key': key})

    def violation(self, key, what, case):
        """The *property* fails on the real code for the concrete `case`."""
        self.violations.append({'key': key, 'what': what, 'case': case})

    # -- Lean build + audit
    def build_and_audit(self):
        ok, log = lake_build(['HcipyVerif.Properties.' + self.id, 'driver'])
        ns, names, examples = property_theorems(self.id)
        self.obligations = len(names) + examples
        if not ok:
            errs = re.findall(r'^error: (.*)$', log, re.M)
            self.obligation_failures.append({'kind': 'build', 'errors': errs[:20]})
            # which theorems still check is unknown: none is counted as discharged
            self.discharged = 0
            return False
        hits = forbidden_tokens()
        if hits:
            self.obligation_failures.append({'kind': 'forbidden-token', 'hits': hits})
        axioms, examples, out = audit_axioms(self.id)
        self.axioms = axioms
        good = 0
        for n, ax in axioms.items():
            if ax is None:
                self.obligation_failures.append({'kind': 'audit', 'theorem': n, 'detail': 'no #print axioms output'})
            elif not set(ax) <= ALLOWED_AXIOMS:
                self.obligation_failures.append({'kind': 'axiom', 'theorem': n, 'axioms': ax})
            else:
                good += 1
        self.discharged = (good + examples) if not hits else 0
        try:
            self.extra['tie_audit'] = tie_audit(self.id)
        except Exception as e:       # a measurement, never a verdict
            self.extra['tie_audit'] = {'error': repr(e)}
        if self.tier == 'thorough':
            # independent re-check of the compiled module by the toolchain's own checker
            rc, out = _run(['lake', 'env', 'leanchecker', 'HcipyVerif.Properties.' + self.id], cwd=LEAN_DIR)
            self.extra['leanchecker'] = {'exit': rc, 'output': out[-500:]}
            if rc != 0:
                self.obligation_failures.append({'kind': 'leanchecker', 'detail': out[-1000:]})
                self.discharged = 0
        return not self.obligation_failures

    # -- verdict
    def _known(self, key):
        for f in self.known:
            if f.get('status', 'open') != 'open':
                continue
            k = f.get('key')
            if key is not None and k is not None and (key == k or key.startswith(k + ' ')):
                return f
        return None

    def finish(self):
        os.makedirs(REPLAY_DIR, exist_ok=True)
        if self.rejected_requests:
            # A request the model refused.  If nothing else is wrong this is a fault of the protocol/harness (exit 2).
            # If the run also saw disagreements or violations, the refusal is a consequence of model and code having
            # diverged earlier (e.g. the request names an object the model never created): a broken correspondence.
            others = [d for d in self.disagreements if d.get('stream') != 'harness-exception']
            if not others and not self.violations and not self.obligation_failures:
                raise MachineryError('driver rejected request %r' % self.rejected_requests[0])
            self.disagree('model-rejected-request', {'requests': self.rejected_requests[:5]})
        lines = []
        bad = 0
        seen_known = set()
        seen_keys = set()
        for v in self.violations:
            f = self._known(v['key'])
            if f is not None:
                if f['key'] not in seen_known:
                    seen_known.add(f['key'])
                    lines.append('KNOWN-FINDING: property=%s %s' % (self.id, f.get('what', v['what'])))
                continue
            if v['key'] in seen_keys:
                continue
            seen_keys.add(v['key'])
            path = self._write_replay('input', v['key'], v['what'], v['case'])
            lines.append('VIOLATION property=%s replay=%s' % (self.id, path))
            bad += 1
        unexplained = []
        for d in self.disagreements:
            f = self._known(d.get('key'))
            if f is not None:
                if f['key'] not in seen_known:
                    seen_known.add(f['key'])
                    lines.append('KNOWN-FINDING: property=%s %s' % (self.id, f.get('what', '')))
                continue
            unexplained.append(d)
        if bad == 0 and (unexplained or self.obligation_failures):
            what = 'proof obligation or model/implementation correspondence no longer checks'
            case = {'obligation_failures': self.obligation_failures, 'disagreements': unexplained[:10]}
            path = self._write_replay('obligation', 'unchecked', what, case)
            lines.append('VIOLATION property=%s replay=%s no-failing-input-found' % (self.id, path))
            bad += 1
        self._write_evidence(bad, lines)
        for l in lines:
            print(l)
        print('%s %s tier=%s seed=%d obligations=%d/%d evaluations=%d nontrivial=%d disagreements=%d wall=%.1fs' % (
            self.id, 'FAIL' if bad else 'PASS', self.tier, self.seed, self.discharged, self.obligations,
            self.evaluations, len(self.nontrivial), len(self.disagreements), time.time() - self.t0))
        return 1 if bad else 0

    def _write_replay(self, kind, key, what, case):
        body = {'property': self.id, 'kind': kind, 'key': key, 'what': what, 'case': case,
                'seed': self.seed, 'tier': self.tier,
                'replay_cmd': './check %s --replay {this file}' % self.id}
        h = hashlib.sha1(json.dumps(body, sort_keys=True, default=str).encode()).hexdigest()[:10]
        path = os.path.join(REPLAY_DIR, '%s-%s.json' % (self.id, h))
        with open(path, 'w') as f:
            json.dump(body, f, indent=1, default=str)
        return os.path.relpath(path, VERIF) if path.startswith(VERIF + os.sep) else path

    def _write_evidence(self, bad, lines):
        os.makedirs(EVIDENCE_DIR, exist_ok=True)
        cov = {
            'obligations': self.obligations,
            'discharged': self.discharged,
            'checker_cmd': 'cd lean && lake build HcipyVerif.Properties.%s && lake env lean .lake/audit/%s_audit.lean  (#print axioms on every theorem; token grep)' % (self.id, self.id),
            'trusted_base': [
                'Lean 4.33.0 kernel', 'Mathlib v4.33.0 (single modules)',
                'axioms allowed: propext, Classical.choice, Quot.sound (audited per theorem this run)',
                'harness/common.py + harness/props/%s.py (correspondence check, exact rational encoding)' % self.id.lower(),
                'NumPy/SciPy kernels assumed to meet their specifications',
            ],
            'theorem_axioms': self.axioms,
            'evaluations': self.evaluations,
            'distinct_nontrivial': len(self.nontrivial),
            'rule': self.rule,
            'samples': self.samples,
            'traces_validated_against_impl': self.traces_validated,
            'disagreements_checked': len(self.disagreements),
            'boundary_skipped': self.boundary_skipped,
            'distribution': self.dist,
            'obligation_failures': self.obligation_failures,
            'report_lines': lines,
        }
        cov.update(self.extra)
        ev = {
            'property_id': self.id, 'tier': self.tier, 'seed': self.seed, 'level': 'proof',
            'coverage': cov, 'assumptions': self.assumptions,
            'wall_s': round(time.time() - self.t0, 2), 'violations': bad,
        }
        with open(os.path.join(EVIDENCE_DIR, self.id + '.json'), 'w') as f:
            json.dump(ev, f, indent=1, default=str)
