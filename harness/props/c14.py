"""C14 — mode bases in every storage form; mirrors track their actuators.

Two families of cases, both driven from ctx.rng:

* **basis cases**: one or two random dyadic matrices (any shape, any sparsity pattern, real or
  complex), each built as a ModeBasis through several input forms (dense ndarray, raw CSC triple
  with explicit zeros / duplicate entries, CSR / COO, list or tuple of fields, list of sparse
  rows), then a random program of linear_combination / __getitem__ / __add__ / extend / append /
  to_sparse / to_dense / coefficients_for.  The *oracle* keeps a plain NumPy reference matrix per
  object and Python's own list indexing; the *correspondence* replays the program on the Lean
  model (HcipyVerif.ModeBasis) and compares canonical text.
* **mirror cases**: a random history of actuator updates on DeformableMirror,
  SegmentedDeformableMirror or TipTiltMirror in which the harness keeps — and later edits in
  place — the very array objects it handed to / received from the mirror, the arrays returned by
  dm.surface included.  Oracle: every read of surface / opd / phase_for / forward equals
  IF · (current actuators).  Correspondence: the
  heap-and-handle state machine HcipyVerif.Mirror.
"""
import contextlib
import numpy as np
import scipy.sparse as sp

from harness.common import rat, MachineryError, Fraction

TOL = 1e-9
ABSENT = object()
COND_MAX = 1e3


# ---------------------------------------------------------------------------------------------
# encoding

def fmt_c(z):
    z = complex(z)
    if not (np.isfinite(z.real) and np.isfinite(z.imag)):
        # a non-finite value observed on the implementation where the model computes a number: the text differs
        # from anything the model prints (broken correspondence), it is not a fault of the machinery
        return 'nonfinite'
    re = rat(z.real)
    return re if z.imag == 0 else re + ':' + rat(z.imag)


def fmt_vec(v):
    return '[' + ','.join(fmt_c(x) for x in np.asarray(v).ravel()) + ']'


def fmt_mat(M):
    M = np.asarray(M)
    return '-' if M.shape[0] == 0 else ';'.join(fmt_vec(r) for r in M)


def fmt_ints(l):
    return '[' + ','.join(str(int(x)) for x in l) + ']'


def parse_c(s):
    p = s.split(':')
    return complex(float(Fraction(p[0])), float(Fraction(p[1])) if len(p) > 1 else 0.0)


def parse_vec(s):
    inner = s[1:-1]
    return np.array([parse_c(t) for t in inner.split(',')] if inner else [], dtype=complex)


def enc_arr(a):
    """JSON form of an array: floats, or [re, im] pairs when complex."""
    a = np.asarray(a)
    if np.iscomplexobj(a):
        return {'shape': list(a.shape), 'c': [[float(z.real), float(z.imag)] for z in a.ravel()]}
    return {'shape': list(a.shape), 'r': [float(x) for x in a.ravel()]}


def dec_arr(o):
    if 'c' in o:
        return np.array([complex(x, y) for x, y in o['c']], dtype=complex).reshape(o['shape'])
    return np.array(o['r'], dtype=float).reshape(o['shape'])


def dense_of(T):
    return np.asarray(T.toarray() if sp.issparse(T) else T)


def desc(kind_sparse, M):
    return '%s %d %d %s' % ('sparse' if kind_sparse else 'dense', M.shape[0], M.shape[1], fmt_mat(M))


def err_kind(e):
    if isinstance(e, IndexError):
        return 'err index'
    if isinstance(e, ValueError):
        return 'err value'
    if isinstance(e, TypeError):
        return 'err type'
    return 'err other:' + type(e).__name__


# ---------------------------------------------------------------------------------------------
# generation: matrices, bases, index expressions

def gen_matrix(rng, npix, nmodes, cplx, density, quarter):
    M = rng.integers(1, 5, size=(npix, nmodes)) * rng.choice([-1, 1], size=(npix, nmodes))
    M = M.astype(float) * (rng.random((npix, nmodes)) < density)
    if quarter:
        M = M / 4.0
    if cplx:
        I = rng.integers(-3, 4, size=(npix, nmodes)).astype(float) * (rng.random((npix, nmodes)) < density)
        M = M + 1j * (I / 4.0 if quarter else I)
    return M + 0.0      # no negative zeros


TYPES = ['bool', 'int8', 'int64', 'float32', 'float64', 'complex128']     # narrow -> wide


def cast(a, t):
    """`a` (float or complex values) as an array of dtype `t`; the values must survive exactly."""
    a = np.asarray(a)
    out = a.astype(complex) if t == 'complex128' else np.real(a).astype(t)
    if out.shape != a.shape or not np.array_equal(out, a):
        raise MachineryError('value not representable in dtype %s' % t)
    return out


def promoted(coltypes, fallback):
    return np.result_type(*[np.dtype(t) for t in coltypes]) if coltypes else np.dtype(fallback)


def gen_typed_matrix(rng, npix, nmodes, density, narrow_first):
    """A matrix whose columns (modes) have individual dtypes: bool masks, integer, single/double
    floats, complex.  Returns (values as float64/complex128, list of dtype names)."""
    types = [str(rng.choice(TYPES, p=[0.15, 0.1, 0.15, 0.1, 0.3, 0.2])) for _ in range(nmodes)]
    if narrow_first:
        types.sort(key=TYPES.index)
        if nmodes >= 2 and types[0] == types[-1]:
            types[-1] = 'complex128' if types[0] != 'complex128' else 'complex128'
            types[0] = str(rng.choice(['bool', 'int64', 'float64'])) if types[-1] == 'complex128' else types[0]
    cols = []
    for t in types:
        mask = rng.random(npix) < density
        if t == 'bool':
            v = np.ones(npix)
        elif t in ('int8', 'int64'):
            v = (rng.integers(1, 5, size=npix) * rng.choice([-1, 1], size=npix)).astype(float)
        elif t in ('float32', 'float64'):
            v = (rng.integers(1, 8, size=npix) * rng.choice([-1, 1], size=npix)).astype(float) / float(rng.choice([2, 4]))
        else:
            v = rng.integers(-4, 5, size=npix).astype(float) / 2.0 + 1j * (rng.integers(1, 4, size=npix) * rng.choice([-1, 1], size=npix)).astype(float) / float(rng.choice([1, 2]))
        cols.append(v * mask + 0.0)
    if nmodes == 0:
        return np.zeros((npix, 0)), []
    M = np.stack(cols, axis=-1)
    if not any(t == 'complex128' for t in types):
        M = np.real(M)
    return M + 0.0, types


def gen_vec(rng, n, cplx):
    v = rng.integers(-8, 9, size=n).astype(float) / float(rng.choice([1, 2, 4]))
    if cplx:
        v = v + 1j * rng.integers(-4, 5, size=n).astype(float) / 2.0
    return v + 0.0


def raw_csc(rng, M, messy):
    """CSC triple of M; when `messy`, with explicit zeros and duplicate entries that sum to M."""
    indptr, indices, data = [0], [], []
    for j in range(M.shape[1]):
        for i in range(M.shape[0]):
            v = M[i, j]
            if v != 0:
                if messy and rng.random() < 0.3:
                    part = complex(float(rng.integers(-4, 5)), 0.0) if np.iscomplexobj(M) else float(rng.integers(-4, 5))
                    indices += [i, i]
                    data += [part, v - part]
                else:
                    indices.append(i)
                    data.append(v)
            elif messy and rng.random() < 0.2:
                indices.append(i)
                data.append(0.0 * v)
        indptr.append(len(indices))
    return indptr, indices, data


def gen_index(rng, n):
    r = rng.random()
    if r < 0.25:
        lo, hi = (-n - 1, n) if rng.random() < 0.25 else (-n, n - 1)
        if hi < lo:
            lo, hi = -1, 0
        return {'kind': 'int', 'k': int(rng.integers(lo, hi + 1)), 'np': bool(rng.random() < 0.3)}
    if r < 0.6:
        def bound():
            return None if rng.random() < 0.35 else int(rng.integers(-n - 2, n + 3))
        step = [None, 1, 1, 2, -1, -1, -2, 3, 0][int(rng.integers(0, 9))]
        if step == 0 and rng.random() < 0.7:
            step = None
        s = {'kind': 'slice', 'a': bound(), 'b': bound(), 'c': step}
        if rng.random() < 0.3 and n > 0:      # length-one windows k:k+1
            k = int(rng.integers(0, n))
            s = {'kind': 'slice', 'a': k, 'b': k + 1, 'c': None}
        return s
    if r < 0.85:
        m = int(rng.choice([0, 1, 1, 2, 3, 4]))
        if n == 0:
            l = [] if rng.random() < 0.7 else [0]
        else:
            l = [int(x) for x in rng.integers(-n, n, size=m)]
            if rng.random() < 0.08:
                l.append(n)
        return {'kind': 'list', 'l': l, 'as': str(rng.choice(['list', 'array', 'tuple']))}
    l = [int(x) for x in (rng.random(n) < (0.5 if rng.random() < 0.6 else 1.0 / max(1, n)))]
    if rng.random() < 0.06:
        l = l + [1]
    return {'kind': 'mask', 'l': l, 'as': str(rng.choice(['list', 'array']))}


def index_object(ix):
    k = ix['kind']
    if k == 'int':
        return np.int64(ix['k']) if ix.get('np') else int(ix['k'])
    if k == 'slice':
        return slice(ix['a'], ix['b'], ix['c'])
    if k == 'list':
        if ix['as'] == 'array':
            return np.array(ix['l'], dtype=int)
        return tuple(ix['l']) if ix['as'] == 'tuple' and len(ix['l']) > 0 else list(ix['l'])
    m = [bool(x) for x in ix['l']]
    return np.array(m, dtype=bool) if ix['as'] == 'array' or len(m) == 0 else m


def index_model(ix):
    k = ix['kind']
    if k == 'int':
        return 'int %d' % ix['k']
    if k == 'slice':
        f = lambda x: '-' if x is None else str(x)  # noqa: E731
        return 'slice %s %s %s' % (f(ix['a']), f(ix['b']), f(ix['c']))
    if k == 'list':
        return 'list ' + fmt_ints(ix['l'])
    return 'mask ' + fmt_ints(ix['l'])


def index_reference(ix, n):
    """(single?, positions) by Python's own sequence indexing; raises IndexError / ValueError."""
    k = ix['kind']
    if k == 'int':
        return True, [range(n)[ix['k']]]
    if k == 'slice':
        return False, list(range(n))[slice(ix['a'], ix['b'], ix['c'])]
    if k == 'list':
        return False, [range(n)[j] for j in ix['l']]
    if len(ix['l']) != n:
        raise IndexError('mask length')
    return False, [i for i in range(n) if ix['l'][i]]


FORMS_A = ['dense', 'csc', 'csr', 'coo', 'csc_array', 'fields', 'tuple', 'rows']


def gen_basis_case(rng, big):
    npix = int(rng.choice([0, 1, 1, 2, 3, 3, 4, 4, 5, 6] + ([8, 10] if big else [])))
    if npix == 0 and rng.random() < 0.6:
        npix = 3
    cplx = bool(rng.random() < 0.3)
    style = str(rng.choice(['any', 'any', 'tall', 'sparse', 'onemode', 'nomodes']))
    mats, coltypes = {}, {}
    typed = bool(rng.random() < 0.45)      # modes with individual dtypes (bool / int / float32 / float64 / complex)
    for name in ('A', 'B'):
        nm = int(rng.choice([0, 1, 1, 2, 2, 3, 3, 4, 5]))
        dens = float(rng.choice([0.0, 0.3, 0.6, 0.6, 1.0]))
        if name == 'A':
            if style == 'tall':
                nm = int(rng.integers(1, max(1, npix) + 1)) if npix > 0 else 1
                dens = 0.8
            elif style == 'sparse':
                dens = 0.25
            elif style == 'onemode':
                nm = 1
            elif style == 'nomodes':
                nm = 0
        if typed:
            mats[name], coltypes[name] = gen_typed_matrix(rng, npix, nm, max(dens, 0.5) if name == 'A' else dens,
                                                          narrow_first=bool(rng.random() < 0.6))
        else:
            mats[name] = gen_matrix(rng, npix, nm, cplx and (name == 'A' or rng.random() < 0.5), dens,
                                    quarter=bool(rng.random() < 0.3))
    grid = bool(npix > 0 and rng.random() < 0.5)
    bases = []
    forms = list(FORMS_A)
    rng.shuffle(forms)
    nforms = int(rng.integers(4, 9))
    for k, form in enumerate(forms[:nforms]):
        bases.append(make_base_spec(rng, 'a%d' % k, 'A', mats['A'], form, grid, coltypes.get('A')))
    for k in range(2):
        bases.append(make_base_spec(rng, 'b%d' % k, 'B', mats['B'], str(rng.choice(FORMS_A)), grid, coltypes.get('B')))
    if npix >= 2 and rng.random() < 0.15:      # (one pixel: a length-one vector passes the constructor's `shape[0] == 1` test for sparse rows)
        # lists the constructor must reject: empty, ragged, mixing vectors and sparse rows
        bases.append({'name': 'x0', 'mat': 'A', 'form': str(rng.choice(['bad-empty', 'bad-ragged', 'bad-mixed-vec-first', 'bad-mixed-row-first', 'bad-ragged-rows'])),
                      'n': int(rng.integers(2, 5)), 'pos': int(rng.integers(1, 4)), 'tuple': bool(rng.random() < 0.3), 'grid_arg': False})
    case = {'type': 'basis', 'npix': npix, 'grid': grid, 'style': style,
            'mats': {k: enc_arr(v) for k, v in mats.items()}, 'coltypes': coltypes, 'bases': bases, 'ops': []}
    # the program: names and their mode counts are tracked so that operands exist
    nm = {b['name']: mats[b['mat']].shape[1] for b in bases if not b['form'].startswith('bad-')}
    cpx = {b['name']: np.iscomplexobj(mats[b['mat']]) for b in bases if not b['form'].startswith('bad-')}
    names = list(nm)
    nops = int(rng.integers(6, 13 if not big else 20))
    for t in range(nops):
        src = str(rng.choice(names))
        r = rng.random()
        dst = 't%d' % t
        if r < 0.05:
            # coefficients of extreme dynamic range (2^-40 .. 2^40), in half of the cases with NaN / +-inf among them
            cls = XCLASSES_FIN + (XCLASSES_NONFIN if rng.random() < 0.5 else [])
            case['ops'].append({'op': 'xlc', 'src': src, 'c': [xnum(rng, str(rng.choice(cls))) for _ in range(nm[src])]})
        elif r < 0.2:
            case['ops'].append({'op': 'lc', 'src': src, 'c': enc_arr(gen_vec(rng, nm[src], bool(rng.random() < 0.3)))})
        elif r < 0.55:
            ix = gen_index(rng, nm[src])
            case['ops'].append({'op': 'get', 'src': src, 'dst': dst, 'ix': ix})
            try:
                single, pos = index_reference(ix, nm[src])
                if not single:
                    nm[dst] = len(pos); cpx[dst] = cpx[src]; names.append(dst)
            except (IndexError, ValueError):
                pass
        elif r < 0.68:
            other = str(rng.choice(names))
            op = str(rng.choice(['add', 'add', 'extend']))
            case['ops'].append({'op': op, 'a': src, 'b': other, 'dst': dst})
            nm[dst] = nm[src] + nm[other]; cpx[dst] = cpx[src] or cpx[other]; names.append(dst)
        elif r < 0.74:
            vc = bool(rng.random() < (0.5 if cpx[src] else 0.25))     # a complex mode may join a real basis
            v = gen_vec(rng, npix, vc)
            vt = 'complex128' if vc else ('int64' if typed and np.all(v == np.round(v)) else 'float64')
            case['ops'].append({'op': 'append', 'src': src, 'dst': dst, 'v': enc_arr(v), 'vt': vt})
            nm[dst] = nm[src] + 1; cpx[dst] = cpx[src] or vc; names.append(dst)
        elif r < 0.84:
            op = str(rng.choice(['tosparse', 'todense']))
            case['ops'].append({'op': op, 'src': src, 'dst': dst})
            nm[dst] = nm[src]; cpx[dst] = cpx[src]; names.append(dst)
        else:
            good = [x for x in names if 1 <= nm[x] <= npix and (style != 'tall' or x.startswith('a'))]
            if good:
                src = str(rng.choice(good))
            if rng.random() < 0.7:
                case['ops'].append({'op': 'lstsq', 'src': src, 'c': enc_arr(gen_vec(rng, nm[src], cpx[src]))})
                if rng.random() < 0.3:
                    # the same combination at a scale of 2^+-(20..40): the answer has to scale with it
                    case['ops'][-1]['scale'] = int(rng.integers(20, 41)) * int(rng.choice([-1, 1]))
            else:
                case['ops'].append({'op': 'lstsq', 'src': src, 'y': enc_arr(gen_vec(rng, npix, cpx[src]))})
    return case


def gen_lstsq_case(rng):
    """A mid-size sparse system (oracle only: the exact rational model would be too slow)."""
    while True:
        npix = int(rng.integers(20, 61))
        n = int(rng.integers(10, npix + 1))
        M = gen_matrix(rng, npix, n, False, 0.15, False)
        if np.linalg.matrix_rank(M) == n and np.linalg.cond(M) <= COND_MAX:
            break
    ops = [{'op': 'lstsq', 'src': s, 'c': enc_arr(gen_vec(rng, n, False)), 'nomodel': True} for s in ('a0', 'a1')]
    ops += [{'op': 'lstsq', 'src': s, 'y': enc_arr(gen_vec(rng, npix, False)), 'nomodel': True} for s in ('a0', 'a1')]
    return {'type': 'basis', 'npix': npix, 'grid': False, 'style': 'midsize-lstsq',
            'mats': {'A': enc_arr(M), 'B': enc_arr(M[:, :1])},
            'bases': [{'name': 'a0', 'mat': 'A', 'form': 'dense', 'grid_arg': False},
                      {'name': 'a1', 'mat': 'A', 'form': 'csr', 'grid_arg': False}], 'ops': ops}


def make_base_spec(rng, name, mat, M, form, grid, coltypes=None):
    spec = {'name': name, 'mat': mat, 'form': form}
    plain = coltypes is None or all(t in ('float64', 'complex128') for t in coltypes)
    if form in ('fields', 'tuple', 'rows') and M.shape[1] == 0:
        spec['form'] = form = 'dense'      # a list of modes needs at least one mode
    if form == 'csc':
        ip, ix, d = raw_csc(rng, M, messy=bool(plain and rng.random() < 0.5))
        spec['csc'] = {'indptr': ip, 'indices': ix, 'data': enc_arr(np.array(d, dtype=M.dtype))}
    if form == 'csr' and rng is not None and plain and rng.random() < 0.4:
        # a CSR triple with explicit zeros / duplicate entries (the CSC triple of the transpose)
        ip, ix, d = raw_csc(rng, M.T, messy=True)
        spec['csr'] = {'indptr': ip, 'indices': ix, 'data': enc_arr(np.array(d, dtype=M.dtype))}
    if form == 'coo' and rng is not None and plain and rng.random() < 0.4:
        # COO triples in random order, with explicit zeros / duplicates
        ip, ix, d = raw_csc(rng, M, messy=True)
        col = [j for j in range(M.shape[1]) for _ in range(ip[j + 1] - ip[j])]
        order = [int(x) for x in rng.permutation(len(ix))]
        spec['coo'] = {'row': [ix[k] for k in order], 'col': [col[k] for k in order],
                       'data': enc_arr(np.array([d[k] for k in order], dtype=M.dtype))}
    if form == 'rows':
        ip, ix, d = raw_csc(rng, M, messy=bool(plain and rng.random() < 0.3))
        d = np.array(d, dtype=M.dtype)
        spec['rows'] = {'idx': [ix[ip[j]:ip[j + 1]] for j in range(M.shape[1])],
                        'val': [enc_arr(d[ip[j]:ip[j + 1]]) for j in range(M.shape[1])],
                        'fmt': str(rng.choice(['csr', 'csr', 'csc', 'csr_array'])), 'tuple': bool(rng.random() < 0.3)}
    spec['grid_arg'] = bool(grid and (form not in ('fields', 'tuple') or rng.random() < 0.5))
    if form in ('fields', 'tuple') and coltypes is not None and (spec['grid_arg'] or not grid) and rng.random() < 0.3:
        spec['nested'] = True      # modes as plain Python lists of Python numbers
    return spec


# ---------------------------------------------------------------------------------------------
# the real code: basis cases

def build_bad_list(spec, npix):
    """A list/tuple that cannot denote a matrix.  Returns (python object, model line)."""
    form, n, pos = spec['form'], spec['n'], min(spec['pos'], spec['n'] - 1)
    vec = lambda k, ln: np.arange(ln, dtype=float) + k                                   # noqa: E731
    row = lambda k, ln: sp.csr_matrix(np.arange(ln, dtype=float)[None, :] + k + 1.0)    # noqa: E731  (no zeros: all stored)
    dvec = lambda v: 'd|' + fmt_vec(v)                                                   # noqa: E731
    drow = lambda r: 's|%d|%d|%s|%s' % (r.shape[0], r.shape[1], fmt_ints(r.indices), fmt_vec(r.data))  # noqa: E731
    if form == 'bad-empty':
        items, enc = [], []
    elif form == 'bad-ragged':
        items = [vec(k, npix + (1 if k == pos else 0)) for k in range(n)]
        enc = [dvec(v) for v in items]
    elif form == 'bad-ragged-rows':
        items = [row(k, npix + (1 if k == pos else 0)) for k in range(n)]
        enc = [drow(r) for r in items]
    elif form == 'bad-mixed-vec-first':
        items = [row(k, npix) if k == pos else vec(k, npix) for k in range(n)]
        enc = [drow(r) if k == pos else dvec(r) for k, r in enumerate(items)]
    elif form == 'bad-mixed-row-first':
        items = [vec(k, npix) if k == pos else row(k, npix) for k in range(n)]
        enc = [dvec(r) if k == pos else drow(r) for k, r in enumerate(items)]
    else:
        raise MachineryError('unknown form ' + form)
    arg = tuple(items) if spec.get('tuple') else items
    return arg, 'C14 new %s seq %s %s' % (spec['name'], 'tuple' if spec.get('tuple') else 'list', ';'.join(enc) if enc else '-')


def make_grid(npix):
    import hcipy
    xs = np.arange(npix, dtype=float) / 2.0 - 1.0
    ys = (np.arange(npix, dtype=float) % 3) / 4.0
    return hcipy.CartesianGrid(hcipy.UnstructuredCoords([xs, ys]))


def build_base(spec, M, grid, coltypes=None):
    """Returns (ModeBasis, model line).  `coltypes`: dtype of each mode (None = the dtype of M)."""
    import hcipy
    name, form = spec['name'], spec['form']
    g = grid if spec.get('grid_arg') else None
    npix, nmodes = M.shape
    ct = list(coltypes) if coltypes is not None else [M.dtype.name] * nmodes
    Mp = cast(M, promoted(ct, M.dtype).name)
    if form == 'dense':
        return hcipy.ModeBasis(Mp.copy(), g), 'C14 new %s ndarray %d %d %s' % (name, npix, nmodes, fmt_mat(M))
    if form == 'csc':
        c = spec['csc']
        d = cast(dec_arr(c['data']), Mp.dtype.name)
        T = sp.csc_matrix((d, np.array(c['indices'], dtype=np.int32), np.array(c['indptr'], dtype=np.int32)), shape=(npix, nmodes))
        return hcipy.ModeBasis(T, g), 'C14 new %s spmat csc %d %d %s %s %s' % (name, npix, nmodes, fmt_ints(c['indptr']), fmt_ints(c['indices']), fmt_vec(d))
    if form == 'csr' and 'csr' in spec:
        c = spec['csr']
        d = cast(dec_arr(c['data']), Mp.dtype.name)
        T = sp.csr_matrix((d, np.array(c['indices'], dtype=np.int32), np.array(c['indptr'], dtype=np.int32)), shape=(npix, nmodes))
        return hcipy.ModeBasis(T, g), 'C14 new %s spmat csr %d %d %s %s %s' % (name, npix, nmodes, fmt_ints(c['indptr']), fmt_ints(c['indices']), fmt_vec(d))
    if form == 'coo' and 'coo' in spec:
        c = spec['coo']
        d = cast(dec_arr(c['data']), Mp.dtype.name)
        T = sp.coo_matrix((d, (np.array(c['row'], dtype=np.int32), np.array(c['col'], dtype=np.int32))), shape=(npix, nmodes))
        return hcipy.ModeBasis(T, g), 'C14 new %s spmat coo %d %d %s %s %s' % (name, npix, nmodes, fmt_ints(c['row']), fmt_ints(c['col']), fmt_vec(d))
    if form in ('csr', 'coo', 'csc_array'):
        # the model is told what the SciPy object holds (its own index arrays), in its own format
        T = sp.csr_matrix(Mp) if form == 'csr' else (sp.coo_matrix(Mp) if form == 'coo' else sp.csc_array(Mp))
        if form == 'coo':
            line = 'C14 new %s spmat coo %d %d %s %s %s' % (name, npix, nmodes, fmt_ints(T.row), fmt_ints(T.col), fmt_vec(T.data))
        else:
            line = 'C14 new %s spmat %s %d %d %s %s %s' % (name, 'csr' if form == 'csr' else 'csc', npix, nmodes, fmt_ints(T.indptr), fmt_ints(T.indices), fmt_vec(T.data))
        return hcipy.ModeBasis(T, g), line
    if form in ('fields', 'tuple'):
        cols = [cast(M[:, j], ct[j]) for j in range(nmodes)]
        if spec.get('nested'):
            cols = [c.tolist() for c in cols]
        elif grid is not None:
            cols = [hcipy.Field(c, grid) for c in cols]
        arg = cols if form == 'fields' else tuple(cols)
        line = 'C14 new %s seq %s %s' % (name, 'list' if form == 'fields' else 'tuple', ';'.join('d|' + fmt_vec(M[:, j]) for j in range(nmodes)))
        return hcipy.ModeBasis(arg, g), line
    if form == 'rows':
        r = spec['rows']
        rows = []
        for j, (idx, val) in enumerate(zip(r['idx'], r['val'])):
            v = cast(dec_arr(val), ct[j])
            row = sp.csr_matrix((v, np.array(idx, dtype=np.int32), np.array([0, len(idx)], dtype=np.int32)), shape=(1, npix))
            rows.append(row if r['fmt'] == 'csr' else (row.tocsc() if r['fmt'] == 'csc' else sp.csr_array(row)))
        if r.get('tuple'):
            rows = tuple(rows)
        line = 'C14 new %s seq %s %s' % (name, 'tuple' if r.get('tuple') else 'list',
                                         ';'.join('s|%d|%d|%s|%s' % (rows[j].shape[0], rows[j].shape[1], fmt_ints(i), fmt_vec(dec_arr(v)))
                                                  for j, (i, v) in enumerate(zip(r['idx'], r['val']))))
        return hcipy.ModeBasis(rows, g), line
    raise MachineryError('unknown form ' + form)


class BasisRun:
    """Executes one basis case on the real code; collects violations, the model lines and the
    text the implementation's behaviour corresponds to (one per model line, None = not compared)."""

    def __init__(self, case):
        self.case = case
        self.bad = []          # (key, what)
        self.lines = ['C14 reset']
        self.impl = [None]     # expected model response per line (None = ignore)
        self.numeric = {}      # line index -> ('vec', ndarray) compared with tolerance
        self.counts = {}
        self.skipped = 0
        self.array_backed = set()
        self.current_src = None
        self.numtol = {}       # line index -> per-element tolerance (extreme dynamic range), else 1e-9 relative

    def count(self, k):
        self.counts[k] = self.counts.get(k, 0) + 1

    def fail(self, key, what):
        src = getattr(self, 'current_src', None)
        if src is not None and src in self.array_backed:
            key, what = 'sparse-array-input', 'basis built from a SciPy sparse *array*: ' + what
        elif self.case['npix'] == 0:
            key, what = 'zero-pixels', 'basis over a grid of zero points: ' + what
        elif key.startswith('append-raises'):
            key = 'append-raises'
        self.bad.append((key, what))

    def emit(self, line, impl):
        self.lines.append(line)
        self.impl.append(impl)

    def run(self):
        import hcipy
        case = self.case
        mats = {k: dec_arr(v) for k, v in case['mats'].items()}
        npix = case['npix']
        grid = make_grid(npix) if case['grid'] else None
        coltypes = case.get('coltypes') or {}
        for k, ct in coltypes.items():
            if len(ct) >= 2:
                self.count('dtypes:' + ('homogeneous' if len(set(ct)) == 1 else
                                        ('mixed, first mode narrowest' if TYPES.index(ct[0]) == min(TYPES.index(t) for t in ct) and ct[0] != max(ct, key=TYPES.index) else 'mixed, first mode not narrowest')))
        obj, ref = {}, {}      # name -> ModeBasis ; name -> (reference matrix, sparse?)
        for spec in case['bases']:
            M = mats[spec['mat']]
            form = spec['form']
            sparse_expected = form in ('csc', 'csr', 'coo', 'csc_array', 'rows')
            self.count('form:' + form + (' (raw triple, explicit zeros / duplicates)' if form in spec and form in ('csr', 'coo') else ''))
            if form.startswith('bad-'):
                arg, line = build_bad_list(spec, npix)
                try:
                    hcipy.ModeBasis(arg)
                    got = 'accepted'
                except ValueError:
                    got = 'err value'
                except Exception as e:  # noqa
                    got = err_kind(e)
                if got != 'err value':
                    self.fail('constructor-ill-formed-list ' + form, 'ModeBasis(<%s list>) : %s, expected ValueError' % (form, got))
                self.emit(line, got)
                continue
            try:
                b, line = build_base(spec, M, grid, coltypes.get(spec['mat']))
            except Exception as e:  # noqa
                cls = form + ('-nogrid' if not spec.get('grid_arg') else '')
                self.fail('constructor-raises ' + cls, 'ModeBasis(<%s form of a %dx%d matrix>, grid=%s) raised %s: %s' % (
                    form, M.shape[0], M.shape[1], 'given' if spec.get('grid_arg') else 'None', type(e).__name__, str(e)[:80]))
                continue
            T = dense_of(b.transformation_matrix)
            if T.shape != M.shape or not np.array_equal(T, M) or b.is_sparse != sparse_expected:
                self.fail('constructor-matrix ' + form, 'ModeBasis built from the %s form does not hold the matrix it was given' % form)
                continue
            if grid is not None and b.grid is not grid:
                self.fail('constructor-grid ' + form, 'grid not taken over from the %s form' % form)
            if len(b) != M.shape[1] or b.num_modes != M.shape[1]:
                self.fail('len', 'len(basis) = %d for %d modes' % (len(b), M.shape[1]))
            obj[spec['name']] = b
            ref[spec['name']] = (M, sparse_expected)
            if form == 'csc_array' or (form == 'rows' and spec['rows']['fmt'] == 'csr_array'):
                self.array_backed.add(spec['name'])
            self.emit(line, 'ok ' + desc(b.is_sparse, T))
        for op in case['ops']:
            self.step(op, obj, ref, grid)
        return self

    # -- one operation
    def observe_basis(self, r, want_M, want_sparse, key, what):
        import hcipy
        if not isinstance(r, hcipy.ModeBasis):
            self.fail(key + '-kind', what + ': expected a ModeBasis, got %s' % type(r).__name__)
            return None
        T = dense_of(r.transformation_matrix)
        if T.shape != want_M.shape or not np.array_equal(T, want_M):
            self.fail(key + '-values', what + ': wrong matrix (shape %s, expected %s)' % (T.shape, want_M.shape))
            return None
        if want_sparse is not None and r.is_sparse != want_sparse:
            self.fail(key + '-storage', what + ': result is %s' % ('sparse' if r.is_sparse else 'dense'))
            return None
        return 'ok ' + desc(r.is_sparse, T)

    def step(self, op, obj, ref, grid):
        import hcipy
        kind = op['op']
        names = [op[k] for k in ('src', 'a', 'b') if k in op]
        if any(n not in obj for n in names):
            self.count('op-skipped (operand unavailable after an earlier failure)')
            return
        self.current_src = next((n for n in names if n in self.array_backed), None)
        if self.current_src is not None and 'dst' in op:
            self.array_backed.add(op['dst'])
        self.count('op:' + kind)
        if kind == 'lc':
            b = obj[op['src']]; M, spf = ref[op['src']]
            c = dec_arr(op['c'])
            want = M @ c if M.shape[1] > 0 else np.zeros(M.shape[0])
            try:
                carg = c if (M.shape[1] + M.shape[0]) % 2 == 0 else list(c)
                y = b.linear_combination(carg)
            except Exception as e:  # noqa
                self.fail('lincomb-raises ' + ('sparse' if spf else 'dense'), 'linear_combination raised %s: %s' % (type(e).__name__, str(e)[:80]))
                return
            y = np.asarray(y)
            if y.shape != want.shape or not np.array_equal(y, want):
                self.fail('lincomb ' + ('sparse' if spf else 'dense'), 'linear_combination differs from matrix · coefficients')
            if grid is not None and getattr(b.linear_combination(c), 'grid', None) is not grid:
                self.fail('lincomb-grid', 'linear combination is not a Field on the grid of the basis')
            self.emit('C14 lc %s %s' % (op['src'], fmt_vec(c)), 'ok ' + fmt_vec(y))
        elif kind == 'xlc':
            b = obj[op['src']]; M, spf = ref[op['src']]
            sf = 'sparse' if spf else 'dense'
            c = np.array([xf(x) for x in op['c']], dtype=float)
            fin = np.isfinite(c)
            self.count('xlc:' + ('finite' if fin.all() else 'non-finite') + ' coefficients, ' + sf)
            terms = M[:, fin] * c[fin][None, :]
            want = terms.sum(axis=1); mag = np.abs(terms).sum(axis=1)
            must = (np.abs(M[:, ~fin]) > 0).any(axis=1)
            try:
                with np.errstate(all='ignore'):
                    y = np.asarray(b.linear_combination(c.copy()))
                    y2 = np.asarray(b.linear_combination(c.copy()))
            except Exception as e:  # noqa
                self.fail('lincomb-raises ' + sf, 'linear_combination(extreme coefficients) raised %s: %s' % (type(e).__name__, str(e)[:80]))
                return
            code = nonfinite_code(y)
            if y.shape != want.shape:
                self.fail('lincomb ' + sf, 'linear_combination(extreme coefficients): wrong shape')
                return
            if fin.all() and code.any():
                self.fail('lincomb-extreme ' + sf, 'linear_combination of finite coefficients (2^-40 .. 2^40) is not finite')
            if np.any(must & (code == 0)):
                self.fail('lincomb-extreme ' + sf, 'a point under a mode whose coefficient is NaN/inf got a finite value')
            cmp = (code == 0) & ~must
            if np.any(cmp & ~(np.abs(y - want) <= XTOL * mag)):
                self.fail('lincomb-extreme ' + sf, 'linear_combination(coefficients over 2^-40 .. 2^40) differs from matrix · coefficients by more than 1e-12 of the terms of the sum (max %.3g)' % float(np.abs(y - want)[cmp].max()))
            if not np.array_equal(y, y2, equal_nan=True):
                self.fail('lincomb-extreme ' + sf, 'two evaluations of linear_combination with the same coefficients differ')
            if fin.all():
                self.numeric[len(self.lines)] = y
                self.numtol[len(self.lines)] = XTOL * mag
                self.emit('C14 lc %s %s' % (op['src'], fmt_vec(c)), 'numeric')
        elif kind == 'get':
            b = obj[op['src']]; M, spf = ref[op['src']]
            ix = op['ix']
            self.count('index:' + ix['kind'])
            line = 'C14 get %s %s new %s' % (op['src'], op['dst'], index_model(ix))
            try:
                single, pos = index_reference(ix, M.shape[1])
                want_err = None
            except IndexError:
                want_err = 'err index'
            except ValueError:
                want_err = 'err value'
            try:
                r = b[index_object(ix)]
                got_err = None
            except Exception as e:  # noqa
                got_err = err_kind(e)
            sf = 'sparse' if spf else 'dense'
            if want_err is not None or got_err is not None:
                self.count('index-error')
                if want_err != got_err:
                    self.fail('getitem-error ' + sf, 'basis[%s] on %d modes: %s, expected %s' % (index_model(ix), M.shape[1], got_err or 'no error', want_err or 'no error'))
                self.emit(line, got_err or 'ok ?')
                return
            if single:
                self.count('get:mode')
                if isinstance(r, hcipy.ModeBasis):
                    self.fail('getitem-kind ' + sf, 'basis[%s] returned a ModeBasis for a scalar index' % index_model(ix))
                    return
                v = np.asarray(r)
                if v.shape != (M.shape[0],) or not np.array_equal(v, M[:, pos[0]]):
                    self.fail('getitem-values ' + sf, 'basis[%s] is not that column of the matrix' % index_model(ix))
                if grid is not None and getattr(r, 'grid', None) is not grid:
                    self.fail('getitem-grid', 'single mode is not a Field on the grid of the basis')
                self.emit(line, 'ok mode ' + fmt_vec(v))
                return
            self.count('get:basis-len%s' % (len(pos) if len(pos) < 2 else '2+'))
            want = M[:, pos]
            if not isinstance(r, hcipy.ModeBasis):
                cls = 'len1' if len(pos) == 1 else 'len%d' % len(pos)
                self.fail('getitem-kind %s %s' % (sf, cls), 'basis[%s] on a %s basis with %d modes returned a %s (single mode) although the index expression selects a set of modes; a dense basis returns a ModeBasis' % (
                    index_model(ix), sf, M.shape[1], type(r).__name__))
                self.emit(line, 'ok mode ' + fmt_vec(np.asarray(r)))
                return
            t = self.observe_basis(r, want, spf, 'getitem', 'basis[%s] (%s)' % (index_model(ix), sf))
            if t is None:
                return
            obj[op['dst']] = r; ref[op['dst']] = (want, spf)
            self.emit(line, 'ok basis ' + t[3:])
        elif kind in ('add', 'extend'):
            a, b = obj[op['a']], obj[op['b']]
            (Ma, sa), (Mb, sb) = ref[op['a']], ref[op['b']]
            want = np.hstack([Ma, Mb])
            combo = ('sparse' if sa else 'dense') + '+' + ('sparse' if sb else 'dense')
            self.count(kind + ':' + combo)
            try:
                if kind == 'add':
                    r = a + b
                    want_sparse = sa or sb
                else:
                    r = hcipy.ModeBasis(a.transformation_matrix.copy(), a.grid)
                    r.extend(b)
                    want_sparse = sa
            except Exception as e:  # noqa
                self.fail('%s-raises %s' % (kind, combo), '%s of a %s basis raised %s: %s' % (kind, combo, type(e).__name__, str(e)[:80]))
                return
            t = self.observe_basis(r, want, want_sparse, kind, '%s (%s)' % (kind, combo))
            if t is None:
                return
            if kind == 'add' and (dense_of(a.transformation_matrix).shape != Ma.shape or dense_of(b.transformation_matrix).shape != Mb.shape):
                self.fail('add-mutates', '__add__ changed an operand')
            obj[op['dst']] = r; ref[op['dst']] = (want, want_sparse)
            self.emit('C14 %s %s %s %s' % (kind, op['a'], op['b'], op['dst']), t)
        elif kind == 'append':
            a = obj[op['src']]; Ma, sa = ref[op['src']]
            v = dec_arr(op['v'])
            want = np.hstack([Ma, v[:, None]])
            sf = 'sparse' if sa else 'dense'
            try:
                r = hcipy.ModeBasis(a.transformation_matrix.copy(), a.grid)
                vv = cast(v, op.get('vt', v.dtype.name))
                r.append(vv if grid is None else hcipy.Field(vv, grid))
            except Exception as e:  # noqa
                self.fail('append-raises ' + sf, 'append(mode) on a %s basis raised %s: %s' % (sf, type(e).__name__, str(e)[:80]))
                return
            t = self.observe_basis(r, want, sa, 'append', 'append (%s)' % sf)
            if t is None:
                return
            obj[op['dst']] = r; ref[op['dst']] = (want, sa)
            self.emit('C14 append %s %s %s' % (op['src'], fmt_vec(v), op['dst']), t)
        elif kind in ('tosparse', 'todense'):
            a = obj[op['src']]; Ma, sa = ref[op['src']]
            try:
                r = a.to_sparse() if kind == 'tosparse' else a.to_dense()
            except Exception as e:  # noqa
                self.fail(kind + '-raises', '%s raised %s: %s' % (kind, type(e).__name__, str(e)[:80]))
                return
            t = self.observe_basis(r, Ma, kind == 'tosparse', kind, kind)
            if t is None:
                return
            try:
                back = r.to_dense() if kind == 'tosparse' else r.to_sparse()
                if not np.array_equal(dense_of(back.transformation_matrix), Ma):
                    self.fail('roundtrip', 'sparse/dense round trip changed the matrix')
            except Exception as e:  # noqa
                self.fail('roundtrip', 'round trip raised %s' % type(e).__name__)
            obj[op['dst']] = r; ref[op['dst']] = (Ma, kind == 'tosparse')
            self.emit('C14 %s %s %s' % (kind, op['src'], op['dst']), t)
        elif kind == 'lstsq':
            a = obj[op['src']]; Ma, sa = ref[op['src']]
            n = Ma.shape[1]
            if n == 0 or Ma.shape[0] == 0:
                self.count('lstsq:not-applicable (no modes or no points)')
                return
            if np.linalg.matrix_rank(Ma) < n:
                # dependent modes: coefficients_for is not compared (any minimiser is acceptable), but the model has
                # to decide "dependent" exactly here (lstsq_answers_iff_independent): the rule by which the harness
                # selects the comparable cases (NumPy's rank of the exact small dyadic matrix) is the model's own
                self.count('lstsq:dependent modes (model must answer err rank)')
                if not op.get('nomodel'):
                    y = Ma @ dec_arr(op['c']) if 'c' in op else dec_arr(op['y'])
                    self.emit('C14 lstsq %s %s' % (op['src'], fmt_vec(y)), 'err rank')
                return
            if np.linalg.cond(Ma) > COND_MAX:
                self.count('lstsq:skipped-illconditioned')
                self.skipped += 1
                return
            sf = 'sparse' if sa else 'dense'
            floor = 1.0
            if 'c' in op:
                c = dec_arr(op['c'])
                if op.get('scale'):
                    c = c * 2.0 ** op['scale']
                    floor = 0.0       # relative to the coefficients themselves
                    self.count('lstsq:in-range, coefficients scaled by 2^%s' % ('+(20..40)' if op['scale'] > 0 else '-(20..40)'))
                y = Ma @ c
                self.count('lstsq:in-range ' + sf)
            else:
                c = None
                y = dec_arr(op['y'])
                self.count('lstsq:general ' + sf)
            try:
                x = np.asarray(a.coefficients_for(y if grid is None else hcipy.Field(y, grid)))
            except Exception as e:  # noqa
                self.fail('lstsq-raises ' + sf, 'coefficients_for raised %s: %s' % (type(e).__name__, str(e)[:80]))
                return
            if c is not None:
                err = float(np.abs(x - c).max())
                if not err <= TOL * max(floor, float(np.abs(c).max())):
                    self.fail('lstsq-inaccurate ' + sf, 'coefficients_for(A·c) on a %s basis of %d independent modes (cond %.0f) misses c by %.2e' % (
                        sf, n, np.linalg.cond(Ma), err))
            else:
                g = Ma.conj().T @ (Ma @ x - y)
                scale = max(1.0, float(np.abs(Ma).max()) ** 2 * max(1.0, float(np.abs(x).max())), float(np.abs(y).max()))
                if not float(np.abs(g).max()) <= TOL * scale * n:
                    self.fail('lstsq-inaccurate ' + sf, 'coefficients_for(y) on a %s basis: normal equations violated by %.2e' % (sf, float(np.abs(g).max())))
            if op.get('nomodel'):
                self.count('lstsq:oracle-only (too large for the exact model)')
                return
            self.numeric[len(self.lines)] = x
            if floor == 0.0:
                self.numtol[len(self.lines)] = TOL * float(np.abs(c).max())
            self.emit('C14 lstsq %s %s' % (op['src'], fmt_vec(y)), 'numeric')
        else:
            raise MachineryError('unknown op ' + kind)


# ---------------------------------------------------------------------------------------------
# mirrors

MIRROR_KINDS = ['dm-dense', 'dm-sparse', 'seg-dense', 'seg-sparse', 'tiptilt']


def gen_mirror_case(rng, big):
    kind = str(rng.choice(MIRROR_KINDS))
    npix = int(rng.integers(1, 7 if not big else 12))
    case = {'type': 'mirror', 'kind': kind, 'npix': npix}
    if kind.startswith('dm'):
        nact = int(rng.choice([0, 1, 2, 3, 3, 4, 5]))
        case['M'] = enc_arr(gen_matrix(rng, npix, nact, False, float(rng.choice([0.4, 0.8, 1.0])), bool(rng.random() < 0.3)))
    elif kind.startswith('seg'):
        nseg = int(rng.integers(1, 4))
        case['S'] = enc_arr(gen_segments(rng, npix, nseg, weighted=bool(rng.random() < 0.3)))
        nact = 3 * nseg
    else:
        nact = 2
    case['nact'] = nact
    ops = []
    nh = 1                       # handles: 0 = the array the mirror was born with
    cur = 0
    nops = int(rng.integers(6, 16 if not big else 40))
    small = lambda: float(rng.integers(-4, 5)) / float(rng.choice([1, 2]))  # noqa: E731
    nreads = 0                   # every read leaves the caller with one more surface array (number nreads-1)
    for _ in range(nops):
        r = rng.random()
        if nreads > 0 and rng.random() < 0.12:
            # the caller edits, in place, a surface array that dm.surface handed out earlier (mostly the latest)
            j = nreads - 1 if rng.random() < 0.7 else int(rng.integers(0, nreads))
            ops.append({'op': 'sedit', 'j': j, 'i': int(rng.integers(0, npix)), 'v': small(),
                        'mode': str(rng.choice(['item', 'item', 'imul0', 'fill']))})
            if rng.random() < 0.75:
                ops.append({'op': 'read', 'how': str(rng.choice(['surface', 'surface', 'opd', 'forward']))})
                nreads += 1
            continue
        if r < 0.28:
            ops.append({'op': 'read', 'how': str(rng.choice(['surface', 'surface', 'surface', 'opd', 'phase_for', 'forward', 'backward']))})
            nreads += 1
        elif r < 0.55 and nact > 0:
            # in-place edit: mostly the current array, sometimes one handed out earlier
            h = cur if rng.random() < 0.7 else int(rng.integers(0, nh))
            ops.append({'op': 'edit', 'h': h, 'i': int(rng.integers(0, nact)), 'v': small(),
                        'via': str(rng.choice(['handle', 'property'])) if h == cur else 'handle'})
            if rng.random() < 0.5:
                ops.append({'op': 'read', 'how': 'surface'})
                nreads += 1
        elif r < 0.60 and nact > 0:
            # a change far below any comparison tolerance (2^-30), in place
            ops.append({'op': 'nudge', 'h': cur, 'i': int(rng.integers(0, nact))})
            ops.append({'op': 'read', 'how': 'surface'})
            nreads += 1
        elif r < 0.68:
            v = [small() for _ in range(nact)]
            if ops and rng.random() < 0.3:
                v = None      # same values as the current ones, in a new array
            ops.append({'op': 'assign', 'v': v})
            cur = nh; nh += 1
        elif r < 0.74:
            h = int(rng.integers(0, nh))
            ops.append({'op': 'alias', 'h': h})
            cur = h
        elif r < 0.80:
            ops.append({'op': 'flatten'})
            cur = nh; nh += 1
        elif r < 0.86:
            ops.append({'op': 'random', 'z': [float(rng.integers(-6, 7)) / 2.0 for _ in range(nact)], 'rms': float(rng.choice([0.5, 1.0, 2.0, 0.25]))})
            cur = nh; nh += 1
        elif r < 0.90 and nact > 0:
            ops.append({'op': 'iadd', 'd': [small() for _ in range(nact)]})
        elif r < 0.95 and kind.startswith('seg'):
            nseg = nact // 3
            ops.append({'op': 'segset', 'id': int(rng.integers(0, nseg)), 'p': small(), 't': small(), 'tl': small()})
        else:
            if kind.startswith('dm') or kind == 'tiptilt':
                M2 = gen_matrix(rng, npix, nact, False, 0.8, False)
                ops.append({'op': 'setif', 'M': enc_arr(M2), 'sparse': bool(rng.random() < 0.5)})
            else:
                ops.append({'op': 'setif', 'S': enc_arr(gen_segments(rng, npix, nact // 3)), 'sparse': bool(rng.random() < 0.5)})
    ops.append({'op': 'read', 'how': 'surface'})
    case['ops'] = ops
    return case


def gen_segments(rng, npix, nseg, weighted=False):
    S = np.zeros((npix, nseg))
    owner = rng.integers(0, nseg + 1, size=npix)      # nseg = belongs to no segment
    for i in range(npix):
        if owner[i] < nseg:
            S[i, owner[i]] = 1.0
    for j in range(nseg):
        if not S[:, j].any():
            S[int(rng.integers(0, npix)), j] = 1.0
    if weighted:
        # segments that are not 0/1 indicators (grey pixels, amplitudes): the general branch of the tip / tilt construction
        S = S * rng.choice([0.5, 1.0, 2.0], size=S.shape)
    return S


def test_field(npix):
    """the electric field sent through the mirrors: small complex dyadics, different in every pixel class"""
    return np.array([(1 + i % 3) / 2.0 + 1j * ((i % 2) / 2.0) for i in range(npix)], dtype=complex)


def eval_formal_field(got):
    """'ok AMPS TURNS hit|miss' of the model -> AMPS · exp(2πi·TURNS), the turns reduced mod 1 exactly"""
    t = got.split()
    amps = parse_vec(t[1])
    inner = t[2][1:-1]
    turns = [Fraction(x.split(':')[0]) for x in inner.split(',')] if inner else []
    ph = np.array([float(q - (q.numerator // q.denominator)) for q in turns], dtype=float)
    return amps * np.exp(2j * np.pi * ph)


@contextlib.contextmanager
def patched_randn(values):
    """dm.random draws from np.random.randn: supply the draw as data for the duration of a call."""
    orig = np.random.randn
    np.random.randn = lambda *shape: np.array(values, dtype=float).reshape(shape if shape else ())
    try:
        yield
    finally:
        np.random.randn = orig


class MirrorRun:
    def __init__(self, case):
        self.case = case
        self.bad = []
        self.lines = ['C14 reset']
        self.impl = [None]
        self.numeric = {}
        self.counts = {}
        self.hits = {}       # line index -> 'hit' | 'miss' | None as observed on the implementation
        self.nontrivial = False
        self.held = []       # (ordinal of the model read, the array object dm.surface returned), one per read op
        self.sedited = False # the history so far contains an in-place edit of a returned surface array
        self.nreads = 0      # reads of dm.surface so far (= model reads)

    def count(self, k):
        self.counts[k] = self.counts.get(k, 0) + 1

    def emit(self, line, impl):
        self.lines.append(line)
        self.impl.append(impl)

    def ideal(self, dm, exact):
        """the cache-free evaluation on the running code (no property, no cache involved) against the model's
        specification state machine (Spec.step alongside the cached mirror): surface and opd"""
        a = np.asarray(dm.actuators)
        free = np.asarray(dm.influence_functions.linear_combination(a))
        idx = len(self.lines)
        if exact:
            self.emit('C14 mirror ideal', 'ok %s %s' % (fmt_vec(free), fmt_vec(2 * free)))
        else:
            self.numeric[idx] = np.concatenate([free, 2 * free])
            self.emit('C14 mirror ideal', 'numeric')
        self.count('mirror-ideal')

    def set_if(self, dm, grid, spec, first):
        """(re)define the influence functions; returns their dense matrix as the mirror reports it."""
        import hcipy
        kind = self.case['kind']
        if kind.startswith('seg'):
            S = dec_arr(spec['S'])
            segs = hcipy.ModeBasis(sp.csc_matrix(S) if spec.get('sparse', kind == 'seg-sparse') else S.copy(), grid)
            if first:
                dm = hcipy.SegmentedDeformableMirror(segs)
            else:
                dm.segments = segs
            IF = dense_of(dm.influence_functions.transformation_matrix).copy()
            if not np.array_equal(IF[:, :S.shape[1]], S):
                self.bad.append(('segmented-piston-modes', 'the piston block of the influence functions is not the segment basis'))
            # the model builds the influence functions from the segments and the grid itself (segInfl): piston, tip, tilt
            # modes in exact rationals; and the oracle: a segment's tip / tilt mode is s·c - beta·s with the regression
            # coefficient beta of s·c on s (plain NumPy, float64)
            xs, ys = np.asarray(grid.x, dtype=float), np.asarray(grid.y, dtype=float)
            want = [S]
            for cc in (xs, ys):
                blk = np.zeros_like(S)
                for j in range(S.shape[1]):
                    sj = S[:, j]
                    t = sj * cc
                    nrm = np.mean(sj ** 2) - np.mean(sj) ** 2
                    blk[:, j] = t if nrm == 0 else t - ((np.mean(t * sj) - np.mean(sj) * np.mean(t)) / nrm) * sj
                want.append(blk)
            want = np.hstack(want)
            scale = max(1.0, float(np.abs(xs).max(initial=0)), float(np.abs(ys).max(initial=0)))
            if IF.shape != want.shape or not np.all(np.abs(IF - want) <= 1e-12 * scale):
                self.bad.append(('segmented-tip-tilt-modes', 'the tip / tilt influence functions are not segment·x (resp. ·y) minus its regression on the segment: max deviation %.3g' % (
                    float(np.abs(IF - want).max()) if IF.shape == want.shape else float('nan'))))
            if getattr(self, 'model_on', True) and IF.shape == want.shape:
                idx = len(self.lines)
                self.numeric[idx] = IF.ravel().copy()
                if not hasattr(self, 'numtol'):
                    self.numtol = {}
                self.numtol[idx] = 1e-12 * scale
                self.emit('C14 seginfl %d %s %s %s' % (S.shape[0], fmt_mat(S.T) if S.shape[1] else '-', fmt_vec(xs), fmt_vec(ys)), 'numeric')
                self.count('segmented-influence-functions built by the model')
            return dm, IF
        if kind == 'tiptilt' and first:
            dm = hcipy.TipTiltMirror(grid)
            IF = np.stack([np.asarray(grid.x), np.asarray(grid.y)], axis=-1)
            got = dense_of(dm.influence_functions.transformation_matrix)
            if not np.array_equal(got, IF):
                self.bad.append(('tiptilt-modes', 'tip-tilt influence functions are not (x, y)'))
            return dm, IF
        M = dec_arr(spec['M'])
        basis = hcipy.ModeBasis(sp.csc_matrix(M) if spec.get('sparse', kind == 'dm-sparse') else M.copy(), grid)
        if first:
            dm = hcipy.DeformableMirror(basis)
        else:
            dm.influence_functions = basis
        return dm, M

    def run(self):
        import hcipy
        case = self.case
        npix, nact, kind = case['npix'], case['nact'], case['kind']
        grid = make_grid(npix)
        try:
            dm, IF = self.set_if(None, grid, case, True)
        except Exception as e:  # noqa
            self.bad.append(('mirror-construct-raises ' + kind, 'constructing the %s mirror raised %s: %s' % (kind, type(e).__name__, str(e)[:80])))
            return self
        exact = not kind.startswith('seg')
        self.emit('C14 mirror new %d %d %s' % (IF.shape[0], IF.shape[1], fmt_mat(IF)), 'ok')
        handles = [dm.actuators]
        if np.asarray(dm.actuators).shape != (nact,) or np.any(np.asarray(dm.actuators) != 0):
            self.bad.append(('mirror-initial-actuators', 'a new mirror does not start with %d zero actuators' % nact))
        cur = 0
        last_mut = 'init'
        edited_since_read = False
        wl = 0.5
        self.E = test_field(npix)
        wf = hcipy.Wavefront(hcipy.Field(self.E.copy(), grid), wl)
        for op in case['ops']:
            try:
                dm, IF, cur, last_mut, edited_since_read = self.one(op, dm, IF, grid, handles, cur, last_mut, edited_since_read, exact, wf, wl)
            except MachineryError:
                raise
            except Exception as e:  # noqa
                self.bad.append(('mirror-op-raises ' + op['op'], '%s: %s after %s raised %s: %s' % (kind, op['op'], last_mut, type(e).__name__, str(e)[:80])))
                return self
        return self

    def one(self, op, dm, IF, grid, handles, cur, last_mut, edited_since_read, exact, wf, wl):
        import hcipy  # noqa
        case = self.case
        npix, nact, kind = case['npix'], case['nact'], case['kind']
        if True:
            o = op['op']
            self.count('mirror-op:' + o)
            if o == 'assign':
                v = op['v'] if op['v'] is not None else [float(x) for x in handles[cur]]
                arr = np.array(v, dtype=float)
                dm.actuators = arr
                handles.append(arr); cur = len(handles) - 1
                self.emit('C14 mirror assign ' + fmt_vec(arr), 'ok %d' % cur)
                last_mut = 'assign-same-values' if op['v'] is None else 'assign'
            elif o == 'alias':
                dm.actuators = handles[op['h']]
                cur = op['h']
                self.emit('C14 mirror alias %d' % cur, 'ok %d' % cur)
                last_mut = 'assign-old-array'
            elif o == 'edit':
                tgt = dm.actuators if op.get('via') == 'property' else handles[op['h']]
                tgt[op['i']] = op['v']
                self.emit('C14 mirror edit %d %d %s' % (op['h'], op['i'], rat(op['v'])), 'ok')
                last_mut = 'inplace-edit' if op['h'] == cur else 'edit-of-released-array'
                edited_since_read = edited_since_read or op['h'] == cur
            elif o == 'nudge':
                handles[op['h']][op['i']] += 2.0 ** -30
                self.emit('C14 mirror edit %d %d %s' % (op['h'], op['i'], rat(float(handles[op['h']][op['i']]))), 'ok')
                last_mut = 'inplace-tiny-edit'
                edited_since_read = True
            elif o == 'iadd':
                dm.actuators += np.array(op['d'], dtype=float)
                for i, x in enumerate(np.asarray(dm.actuators)):
                    self.emit('C14 mirror edit %d %d %s' % (cur, i, rat(float(x))), 'ok')
                last_mut = 'inplace-iadd'
                edited_since_read = True
            elif o == 'segset':
                dm.set_segment_actuators(op['id'], op['p'], op['t'], op['tl'])
                nseg = nact // 3
                # the model executes set_segment_actuators / get_segment_actuators themselves (setSegment / getSegment)
                self.emit('C14 mirror segset %d %d %s %s %s' % (nseg, op['id'], rat(op['p']), rat(op['t']), rat(op['tl'])), 'ok')
                got_seg = tuple(float(x) for x in dm.get_segment_actuators(op['id']))
                if got_seg != (op['p'], op['t'], op['tl']):
                    self.bad.append(('segment-actuators', 'get_segment_actuators does not return what set_segment_actuators stored'))
                self.emit('C14 mirror segget %d %d' % (nseg, op['id']), 'ok %s %s %s' % tuple(rat(x) for x in got_seg))
                other = (op['id'] + 1) % nseg
                self.emit('C14 mirror segget %d %d' % (nseg, other), 'ok %s %s %s' % tuple(rat(float(x)) for x in dm.get_segment_actuators(other)))
                self.count('mirror-segment-set-get')
                last_mut = 'inplace-set-segment'
                edited_since_read = True
            elif o == 'flatten':
                dm.flatten()
                handles.append(dm.actuators); cur = len(handles) - 1
                self.emit('C14 mirror flatten', 'ok %d' % cur)
                last_mut = 'flatten'
            elif o == 'random':
                with patched_randn(op['z']):
                    dm.random(op['rms'])
                handles.append(dm.actuators); cur = len(handles) - 1
                self.emit('C14 mirror random ' + fmt_vec(np.asarray(dm.actuators)), 'ok %d' % cur)
                if not np.array_equal(np.asarray(dm.actuators), np.array(op['z']) * op['rms']):
                    self.bad.append(('mirror-random', 'random(rms) did not set the actuators to randn·rms'))
                last_mut = 'random'
            elif o == 'sedit':
                # the caller edits, in place, an array that an earlier read of dm.surface returned
                ordinal, arr, seen = self.held[op['j']]
                if not np.array_equal(np.asarray(arr), seen):
                    self.bad.append(('returned-surface-overwritten', '%s: an array returned by dm.surface no longer holds what the caller last saw in it (changed behind the caller\'s back after %s)' % (kind, last_mut)))
                mode = op.get('mode', 'item')
                if mode == 'item':
                    arr[op['i']] = op['v']
                    edits = [(op['i'], op['v'])]
                elif mode == 'imul0':
                    arr *= 0
                    edits = [(i, 0.0) for i in range(npix)]
                else:
                    arr[:] = op['v']
                    edits = [(i, op['v']) for i in range(npix)]
                for i, x in edits:
                    self.emit('C14 mirror sedit %d %d %s' % (ordinal, i, rat(x)), 'ok')
                idx = len(self.lines)
                now = np.asarray(arr).copy()
                self.held[op['j']][2] = now
                if exact:
                    self.emit('C14 mirror held %d' % ordinal, 'ok ' + fmt_vec(now))
                else:
                    self.numeric[idx] = now
                    self.emit('C14 mirror held %d' % ordinal, 'numeric')
                self.ideal(dm, exact)
                self.count('mirror-sedit:' + mode)
                self.count('mirror-sedit-target:' + ('latest' if op['j'] == len(self.held) - 1 else 'earlier'))
                last_mut = 'edit-of-returned-surface'
                self.sedited = True
                self.nontrivial = True
            elif o == 'setif':
                dm, IF = self.set_if(dm, grid, op, False)
                self.emit('C14 mirror setif %d %d %s' % (IF.shape[0], IF.shape[1], fmt_mat(IF)), 'ok')
                last_mut = 'set-influence-functions'
            elif o == 'read':
                if dm.actuators is not handles[cur]:
                    self.bad.append(('mirror-actuator-identity', 'the mirror does not hold the array it was given / handed out'))
                how = op['how']
                a = np.asarray(dm.actuators, dtype=float).copy()
                ref = IF @ a if nact > 0 else np.zeros(npix)
                k = 2 * np.pi / wl
                before = getattr(dm, '_actuators_for_cached_surface', ABSENT)
                if how == 'surface':
                    surf_obj = dm.surface
                    got = np.asarray(surf_obj).copy(); want = ref
                elif how == 'opd':
                    got = np.asarray(dm.opd); want = 2 * ref
                elif how == 'phase_for':
                    got = np.asarray(dm.phase_for(wl)); want = 2 * ref * k
                elif how == 'forward':
                    out_wf = dm.forward(wf)
                    got = np.asarray(out_wf.electric_field); want = self.E * np.exp(2j * k * ref)
                else:
                    got = np.asarray(dm.backward(wf).electric_field); want = self.E * np.exp(-2j * k * ref)
                after = getattr(dm, '_actuators_for_cached_surface', ABSENT)
                ok_exact = got.shape == want.shape and np.array_equal(got, want)
                ok_tol = got.shape == want.shape and bool(np.all(np.abs(got - want) <= TOL * max(1.0, float(np.abs(want).max(initial=0)))))
                if not (ok_exact if (exact and how in ('surface', 'opd')) else ok_tol):
                    self.bad.append(('stale-surface after-' + (last_mut if not self.sedited else 'edit-of-returned-surface'), '%s read through %s after %s is not (influence functions)·(current actuators): max deviation %.3g' % (
                        kind, how, last_mut, float(np.abs(got - want).max(initial=0)) if got.shape == want.shape else float('nan'))))
                if not np.array_equal(np.asarray(dm.actuators, dtype=float), a):
                    self.bad.append(('read-changes-actuators', 'reading the surface changed the actuators'))
                idx = len(self.lines)
                self.hits[idx] = None if before is ABSENT else ('hit' if after is before else 'miss')
                if how != 'surface':
                    # the read-out evaluated dm.surface internally (one model read whose array nobody keeps);
                    # the surface itself is then read by the caller (a second model read)
                    if how == 'opd':
                        # the model executes the opd read-out itself (readOpd): values and hit/miss are compared
                        if exact:
                            self.emit('C14 mirror opd', 'ok ' + fmt_vec(got))
                        else:
                            self.numeric[idx] = np.asarray(got).copy()
                            self.emit('C14 mirror opd', 'numeric')
                    elif how == 'phase_for':
                        # the model executes phase_for in turns (readPhase): 2π · its answer
                        self.numeric[idx] = np.asarray(got) / (2 * np.pi)
                        self.emit('C14 mirror phase %s' % rat(wl), 'numeric')
                    else:
                        # forward / backward on the formal field E·exp(2πi·0) (Mirror.forward / Mirror.backward)
                        self.numeric[idx] = np.asarray(got).copy()
                        self.emit('C14 mirror %s %s %s %s' % (how, rat(wl), fmt_vec(self.E), fmt_vec(np.zeros(npix))), 'numeric')
                    self.nreads += 1
                    if how == 'forward':
                        # back through the mirror: the wavefront must come back unchanged, its power conserved
                        # (mirror_backward_forward_id); the model is given the reflected field in formal form
                        before = getattr(dm, '_actuators_for_cached_surface', ABSENT)
                        back = np.asarray(dm.backward(out_wf).electric_field)
                        after = getattr(dm, '_actuators_for_cached_surface', ABSENT)
                        if not np.all(np.abs(back - self.E) <= 1e-12 * np.abs(self.E).max()):
                            self.bad.append(('forward-backward-roundtrip', '%s: backward(forward(wf)) differs from wf by %.3g' % (kind, float(np.abs(back - self.E).max()))))
                        if not abs(float(np.sum(np.abs(got) ** 2)) - float(np.sum(np.abs(self.E) ** 2))) <= 1e-12 * float(np.sum(np.abs(self.E) ** 2)):
                            self.bad.append(('forward-power', '%s: forward changes the total power' % kind))
                        idx = len(self.lines)
                        self.hits[idx] = None if before is ABSENT else ('hit' if after is before else 'miss')
                        self.numeric[idx] = back.copy()
                        self.emit('C14 mirror backward %s %s %s' % (rat(wl), fmt_vec(self.E), fmt_vec(2 * ref / wl)), 'numeric')
                        self.nreads += 1
                        self.count('mirror-forward-backward-roundtrip')
                    before = getattr(dm, '_actuators_for_cached_surface', ABSENT)
                    surf_obj = dm.surface
                    after = getattr(dm, '_actuators_for_cached_surface', ABSENT)
                    idx = len(self.lines)
                    self.hits[idx] = None if before is ABSENT else ('hit' if after is before else 'miss')
                surf_now = np.asarray(surf_obj).copy()
                if how != 'surface' and not np.all(np.abs(surf_now - ref) <= TOL * max(1.0, float(np.abs(ref).max(initial=0)))):
                    self.bad.append(('stale-surface after-' + (last_mut if not self.sedited else 'edit-of-returned-surface'), '%s: dm.surface after %s is not (influence functions)·(current actuators)' % (kind, last_mut)))
                self.held.append([self.nreads, surf_obj, surf_now.copy()])
                self.nreads += 1
                if exact:
                    self.emit('C14 mirror read', 'ok ' + fmt_vec(surf_now))
                else:
                    self.numeric[idx] = surf_now
                    self.emit('C14 mirror read', 'numeric')
                self.ideal(dm, exact)
                self.count('mirror-read:' + how)
                self.count('mirror-read-after:' + last_mut)
                if edited_since_read:
                    self.nontrivial = True
                edited_since_read = False
            else:
                raise MachineryError('unknown mirror op ' + o)
        return dm, IF, cur, last_mut, edited_since_read


# ---------------------------------------------------------------------------------------------
# mirrors: actuator histories with extreme dynamic range and non-finite excursions
#
# The property says the surface is a function of the CURRENT actuator vector.  The histories above only ever
# command small dyadics to mirrors of at most five actuators, so (a) "few of many actuators change" never
# happens, (b) every float operation is exact - a surface that is *updated* instead of recomputed cannot be told
# from one that is recomputed.  This family commands values over 2^-40 .. 2^40 (1e-12 .. 1e12), NaN and +-inf,
# to mirrors of 2..40 actuators, changes few or many of them per step (in place / new vector / set_segment_actuators
# / flatten / random / +=), withdraws the bad values again, and reads after every step.  Each read is judged
#   * against IF · (current actuators) computed here, per pixel, at 1e-12 · sum_j |IF_ij a_j|  (a bound relative
#     to the terms of the CURRENT vector - not to the largest value the surface ever held, no absolute floor),
#   * against the code's own cache-free evaluation and against a FRESH mirror given the same vector: the
#     non-finite pattern (NaN / +inf / -inf per pixel) must be identical and a finite command must give a finite surface.

XCLASSES_FIN = ['normal', 'normal', 'huge', 'huge', 'tiny', 'tiny']
XCLASSES_NONFIN = ['nan', 'nan', 'inf', '-inf']
XTOL = 1e-12


def xf(v):
    return float(v)


def xnum(rng, cls):
    if cls in ('nan', 'inf', '-inf'):
        return cls
    if cls == 'normal':
        return float(rng.integers(-4, 5)) / float(rng.choice([1, 2]))
    m = float(rng.choice([1, 3, 5, 7, -1, -3, -5]))
    e = int(rng.integers(20, 41))
    return m * 2.0 ** (e if cls == 'huge' else -e)


def xclass_of(v):
    v = xf(v)
    if not np.isfinite(v):
        return 'nonfinite'
    return 'huge' if abs(v) >= 2.0 ** 19 else ('tiny' if 0 < abs(v) <= 2.0 ** -19 else 'normal')


def gen_extreme_case(rng, big):
    kind = str(rng.choice(['dm-sparse', 'dm-sparse', 'dm-sparse', 'dm-dense', 'seg-sparse', 'seg-sparse', 'seg-dense', 'tiptilt']))
    case = {'type': 'mirror', 'extreme': True, 'kind': kind}
    if kind.startswith('dm'):
        nact = int(rng.choice([2, 5, 10, 12, 20, 30, 40]))
        npix = int(rng.integers(3, 13 if not big else 20))
        case['M'] = enc_arr(gen_matrix(rng, npix, nact, False, float(rng.choice([0.15, 0.3, 0.6])), bool(rng.random() < 0.3)))
    elif kind.startswith('seg'):
        nseg = int(rng.choice([1, 2, 4, 7, 10, 12]))
        npix = nseg + int(rng.integers(1, 7))
        case['S'] = enc_arr(gen_segments(rng, npix, nseg))
        nact = 3 * nseg
    else:
        nact = 2
        npix = int(rng.integers(2, 9))
    case['npix'] = npix
    case['nact'] = nact
    nonfinite = bool(rng.random() < 0.5)
    case['nonfinite'] = nonfinite
    case['wl'] = float(2.0 ** int(rng.integers(-3, 3)))
    classes = XCLASSES_FIN + (XCLASSES_NONFIN * 2 if nonfinite else [])
    few_max = max(1, nact // 10)          # "few" = at most one actuator in ten
    vals = [0.0] * nact                   # shadow of the current vector
    bad = set()                           # positions holding a non-finite / out-of-scale value
    ops = [{'op': 'read', 'how': 'surface'}] if rng.random() < 0.8 else []
    nh, cur = 1, 0
    hows = ['surface'] * 7 + ['opd', 'phase_for', 'forward', 'backward']

    def note(idx):
        for i in idx:
            (bad.add if xclass_of(vals[i]) != 'normal' else bad.discard)(i)

    for _ in range(int(rng.integers(4, 10 if not big else 18))):
        r = rng.random()
        if bad and r < 0.40:
            # withdraw the bad values: in place / corrected copy / flatten / set_segment_actuators
            ways = ['inplace', 'inplace', 'assign', 'flatten'] + (['segset'] if kind.startswith('seg') else [])
            way = str(rng.choice(ways))
            if way == 'inplace':
                for i in sorted(bad):
                    vals[i] = xnum(rng, str(rng.choice(['normal', 'normal', 'tiny'])))
                    ops.append({'op': 'edit', 'h': cur, 'i': i, 'v': vals[i], 'via': str(rng.choice(['handle', 'property']))})
                note(list(bad))
            elif way == 'assign':
                for i in sorted(bad):
                    vals[i] = xnum(rng, 'normal')
                bad.clear()
                ops.append({'op': 'assign', 'v': list(vals)})
                cur = nh; nh += 1
            elif way == 'flatten':
                vals = [0.0] * nact; bad.clear()
                ops.append({'op': 'flatten'})
                cur = nh; nh += 1
            else:
                nseg = nact // 3
                for s in sorted({i % nseg for i in bad}):
                    p, t, tl = (xnum(rng, 'normal') for _ in range(3))
                    vals[s], vals[s + nseg], vals[s + 2 * nseg] = p, t, tl
                    ops.append({'op': 'segset', 'id': s, 'p': p, 't': t, 'tl': tl})
                bad.clear()
            ops[-1]['withdraw'] = way
        elif r < 0.62 and nact > 0:
            # poke few actuators in place
            idx = [int(i) for i in rng.choice(nact, size=min(nact, int(rng.integers(1, few_max + 1))), replace=False)]
            for i in idx:
                vals[i] = xnum(rng, str(rng.choice(classes)))
                ops.append({'op': 'edit', 'h': cur, 'i': i, 'v': vals[i], 'via': str(rng.choice(['handle', 'property']))})
            note(idx)
        elif r < 0.72 and nact > 0:
            # a new vector that differs from the current one in few entries
            idx = [int(i) for i in rng.choice(nact, size=min(nact, int(rng.integers(1, few_max + 1))), replace=False)]
            for i in idx:
                vals[i] = xnum(rng, str(rng.choice(classes)))
            note(idx)
            ops.append({'op': 'assign', 'v': list(vals)})
            cur = nh; nh += 1
        elif r < 0.80 and kind.startswith('seg'):
            nseg = nact // 3
            s = int(rng.integers(0, nseg))
            p, t, tl = (xnum(rng, str(rng.choice(classes))) for _ in range(3))
            vals[s], vals[s + nseg], vals[s + 2 * nseg] = p, t, tl
            note([s, s + nseg, s + 2 * nseg])
            ops.append({'op': 'segset', 'id': s, 'p': p, 't': t, 'tl': tl})
        elif r < 0.86:
            # a completely new command vector (many actuators change)
            vals = [xnum(rng, str(rng.choice(XCLASSES_FIN + (['nan'] if nonfinite and rng.random() < 0.3 else [])))) for _ in range(nact)]
            bad.clear(); note(range(nact))
            ops.append({'op': 'assign', 'v': list(vals)})
            cur = nh; nh += 1
        elif r < 0.91:
            vals = [0.0] * nact; bad.clear()
            ops.append({'op': 'flatten'})
            cur = nh; nh += 1
        elif r < 0.96:
            z = [float(rng.integers(-6, 7)) / 2.0 for _ in range(nact)]
            rms = float(2.0 ** int(rng.choice([-30, -2, 0, 1, 30])))
            vals = [x * rms for x in z]
            bad.clear(); note(range(nact))
            ops.append({'op': 'random', 'z': z, 'rms': rms})
            cur = nh; nh += 1
        elif nact > 0:
            d = [xnum(rng, str(rng.choice(['normal', 'tiny', 'huge']))) for _ in range(nact)]
            vals = [xf(a) + xf(b) for a, b in zip(vals, d)]
            vals = [v if np.isfinite(v) else ('nan' if np.isnan(v) else ('inf' if v > 0 else '-inf')) for v in vals]
            bad.clear(); note(range(nact))
            ops.append({'op': 'iadd', 'd': d})
        ops.append({'op': 'read', 'how': str(rng.choice(hows))})
    case['ops'] = ops
    return case


def nonfinite_code(a):
    """per element: 0 finite, 1 NaN, 2 +inf, 3 -inf (complex: either part)"""
    a = np.asarray(a)
    if np.iscomplexobj(a):
        return np.maximum(nonfinite_code(a.real), nonfinite_code(a.imag))
    out = np.zeros(a.shape, dtype=int)
    out[np.isnan(a)] = 1
    out[np.isposinf(a)] = 2
    out[np.isneginf(a)] = 3
    return out


class ExtremeRun(MirrorRun):
    """One history of the extreme-dynamic-range family.  The Lean model (exact rationals) is driven along whenever
    every commanded value is finite; histories with NaN / inf are judged by the oracle alone."""

    def emit(self, line, impl):
        if self.model_on:
            MirrorRun.emit(self, line, impl)

    def run(self):
        import hcipy
        case = self.case
        npix, nact, kind = case['npix'], case['nact'], case['kind']
        self.model_on = not case['nonfinite']
        self.numtol = {}
        self.nontrivial = True
        grid = make_grid(npix)
        try:
            dm, IF = self.set_if(None, grid, case, True)
        except Exception as e:  # noqa
            self.bad.append(('mirror-construct-raises ' + kind, 'constructing the %s mirror raised %s: %s' % (kind, type(e).__name__, str(e)[:80])))
            return self
        self.emit('C14 mirror new %d %d %s' % (IF.shape[0], IF.shape[1], fmt_mat(IF)), 'ok')
        self.count('extreme-nact:%d' % nact)
        self.count('extreme-model:' + ('driven along (all values finite)' if self.model_on else 'oracle only (non-finite values)'))
        wl = case['wl']
        self.E = test_field(npix)
        st = {'dm': dm, 'IF': IF, 'handles': [dm.actuators], 'cur': 0, 'last': 'init', 'wl': wl,
              'wf': hcipy.Wavefront(hcipy.Field(self.E.copy(), grid), wl), 'prev': None, 'dirty': None, 'withdrawn': False}
        for op in case['ops']:
            try:
                with np.errstate(all='ignore'):
                    self.xone(op, st)
            except MachineryError:
                raise
            except Exception as e:  # noqa
                self.bad.append(('mirror-op-raises ' + op['op'], '%s: %s after %s raised %s: %s' % (kind, op['op'], st['last'], type(e).__name__, str(e)[:80])))
                return self
        return self

    def xone(self, op, st):
        import hcipy
        case = self.case
        npix, nact, kind = case['npix'], case['nact'], case['kind']
        dm, handles = st['dm'], st['handles']
        o = op['op']
        self.count('extreme-op:' + o)
        if 'withdraw' in op:
            self.count('extreme-withdraw:' + op['withdraw'])
            st['withdrawn'] = True
        if o == 'assign':
            arr = np.array([xf(x) for x in op['v']], dtype=float)
            dm.actuators = arr
            handles.append(arr); st['cur'] = len(handles) - 1
            if self.model_on:
                self.emit('C14 mirror assign ' + fmt_vec(arr), 'ok %d' % st['cur'])
            st['last'] = 'assign'
        elif o == 'edit':
            tgt = dm.actuators if op.get('via') == 'property' else handles[op['h']]
            tgt[op['i']] = xf(op['v'])
            if self.model_on:
                self.emit('C14 mirror edit %d %d %s' % (op['h'], op['i'], rat(xf(op['v']))), 'ok')
            st['last'] = 'inplace-edit'
            self.count('extreme-value:' + xclass_of(op['v']))
        elif o == 'segset':
            p, t, tl = xf(op['p']), xf(op['t']), xf(op['tl'])
            dm.set_segment_actuators(op['id'], p, t, tl)
            nseg = nact // 3
            if self.model_on:
                self.emit('C14 mirror segset %d %d %s %s %s' % (nseg, op['id'], rat(p), rat(t), rat(tl)), 'ok')
                self.emit('C14 mirror segget %d %d' % (nseg, op['id']), 'ok %s %s %s' % tuple(rat(float(x)) for x in dm.get_segment_actuators(op['id'])))
            if not np.array_equal(np.array(dm.get_segment_actuators(op['id']), dtype=float), np.array([p, t, tl]), equal_nan=True):
                self.bad.append(('segment-actuators', 'get_segment_actuators does not return what set_segment_actuators stored'))
            st['last'] = 'inplace-set-segment'
        elif o == 'flatten':
            dm.flatten()
            handles.append(dm.actuators); st['cur'] = len(handles) - 1
            self.emit('C14 mirror flatten', 'ok %d' % st['cur'])
            fl = np.asarray(dm.actuators)
            if fl.shape != (nact,) or not np.all(fl == 0):
                self.bad.append(('flatten-not-zero', '%s: after flatten() the actuators are not all zero (the vector before held %s)' % (kind, st['last'])))
            st['last'] = 'flatten'
        elif o == 'random':
            with patched_randn(op['z']):
                dm.random(op['rms'])
            handles.append(dm.actuators); st['cur'] = len(handles) - 1
            if self.model_on:
                self.emit('C14 mirror random ' + fmt_vec(np.asarray(dm.actuators)), 'ok %d' % st['cur'])
            if not np.array_equal(np.asarray(dm.actuators), np.array(op['z']) * op['rms']):
                self.bad.append(('mirror-random', 'random(rms) did not set the actuators to randn·rms'))
            st['last'] = 'random'
        elif o == 'iadd':
            dm.actuators += np.array([xf(x) for x in op['d']], dtype=float)
            if self.model_on:
                for i, x in enumerate(np.asarray(dm.actuators)):
                    self.emit('C14 mirror edit %d %d %s' % (st['cur'], i, rat(float(x))), 'ok')
            st['last'] = 'inplace-iadd'
        elif o == 'read':
            self.xread(op['how'], st)
        else:
            raise MachineryError('unknown extreme mirror op ' + o)

    def xread(self, how, st):
        import hcipy
        case = self.case
        npix, nact, kind = case['npix'], case['nact'], case['kind']
        dm, IF, wl, wf = st['dm'], st['IF'], st['wl'], st['wf']
        if dm.actuators is not st['handles'][st['cur']]:
            self.bad.append(('mirror-actuator-identity', 'the mirror does not hold the array it was given / handed out'))
        a = np.asarray(dm.actuators, dtype=float).copy()
        fin = np.isfinite(a)
        # independent reference: finite part of IF · a per pixel, with the magnitude of its terms
        terms = IF[:, fin] * a[fin][None, :] if nact > 0 else np.zeros((npix, 0))
        ref = terms.sum(axis=1)
        mag = np.abs(terms).sum(axis=1)
        must_nonfinite = (np.abs(IF[:, ~fin]) > 0).any(axis=1) if nact > 0 else np.zeros(npix, dtype=bool)
        # history-free evaluations by the code under test itself
        Tobj = dm.influence_functions
        free = np.asarray(Tobj.linear_combination(a.copy()))
        fresh = hcipy.DeformableMirror(Tobj)
        fresh.actuators = a.copy()
        k = 2 * np.pi / wl
        before = getattr(dm, '_actuators_for_cached_surface', ABSENT)
        if how == 'surface':
            surf_obj = dm.surface
            got = np.asarray(surf_obj).copy(); want = ref; tol = XTOL * mag; fr = np.asarray(fresh.surface)
        elif how == 'opd':
            got = np.asarray(dm.opd); want = 2 * ref; tol = 2 * XTOL * mag; fr = np.asarray(fresh.opd)
        elif how == 'phase_for':
            got = np.asarray(dm.phase_for(wl)); want = 2 * ref * 2 * np.pi / wl; tol = 2 * XTOL * mag * k + 8e-16 * np.abs(want); fr = np.asarray(fresh.phase_for(wl))
        else:
            sgn = 1.0 if how == 'forward' else -1.0
            got = np.asarray((dm.forward if how == 'forward' else dm.backward)(wf).electric_field)
            fr = np.asarray((fresh.forward if how == 'forward' else fresh.backward)(wf).electric_field)
            phi = 2 * k * ref
            want = self.E * np.exp(1j * sgn * phi)
            tol = 2 * (2 * k * XTOL * mag + 2e-15 * np.abs(phi) + 1e-14)
        after = getattr(dm, '_actuators_for_cached_surface', ABSENT)
        where = '%s (%d actuators) read through %s after %s' % (kind, nact, how, st['last'])
        hist = ' [history: a non-finite / out-of-scale command was read earlier%s]' % (' and has been withdrawn' if st['withdrawn'] else '') if st['dirty'] else ''
        ok = True
        if got.shape != want.shape:
            self.bad.append(('surface-shape', where + ': shape %s' % (got.shape,)))
            return
        code_got, code_fr = nonfinite_code(got), nonfinite_code(fr)
        if how in ('surface', 'opd', 'phase_for'):
            code_free = nonfinite_code(free)
            if not np.array_equal(code_got, code_free) or not np.array_equal(code_got, code_fr):
                ok = False
                self.bad.append(('surface-history nonfinite-residue', where + ': %d pixel(s) are NaN/inf where influence_functions.linear_combination(current actuators) and a fresh mirror with the same actuators are finite (or the reverse)%s' % (
                    int((code_got != code_fr).sum() + (code_got != code_free).sum()), hist)))
            if np.any(must_nonfinite & (code_got == 0)):
                ok = False
                self.bad.append(('surface-ignores-nonfinite-actuator', where + ': a pixel under the influence function of an actuator commanded to NaN/inf is finite'))
            if fin.all() and np.any(code_got != 0):
                ok = False
                self.bad.append(('surface-history nonfinite-residue', where + ': every current actuator is finite but the surface is not%s' % hist))
        else:
            if not np.array_equal(code_got != 0, code_fr != 0):
                ok = False
                self.bad.append(('surface-history nonfinite-residue', where + ': the non-finite pixels of the reflected field differ from those of a fresh mirror with the same actuators%s' % hist))
        cmp = (code_got == 0) & (nonfinite_code(want) == 0) & ~must_nonfinite & (tol < 0.5)
        dev = np.abs(got - want)
        if np.any(cmp & ~(dev <= tol)):
            ok = False
            i = int(np.argmax(np.where(cmp, dev - tol, -np.inf)))
            self.bad.append(('surface-history scale-residue', where + ': pixel %d is %r, (influence functions)·(current actuators) is %r: off by %.3g where the terms of the current sum allow %.3g%s' % (
                i, complex(got[i]) if np.iscomplexobj(got) else float(got[i]), complex(want[i]) if np.iscomplexobj(want) else float(want[i]), float(dev[i]), float(tol[i]), hist)))
        if not np.array_equal(np.asarray(dm.actuators, dtype=float), a, equal_nan=True):
            self.bad.append(('read-changes-actuators', 'reading the surface changed the actuators'))
        self.count('extreme-read:' + how)
        self.count('extreme-read-current-vector:' + ('finite' if fin.all() else 'non-finite'))
        if st['dirty']:
            self.count('extreme-read-after-bad-value-was-read:' + ('withdrawn' if fin.all() and not (np.abs(a) >= 2.0 ** 19).any() else 'still commanded'))
        if st['prev'] is not None and st['prev'].shape == a.shape:
            nchg = int((~((st['prev'] == a) | (np.isnan(st['prev']) & np.isnan(a)))).sum())
            self.count('extreme-changed-since-last-read:' + ('none' if nchg == 0 else ('few (<= 1 in 10)' if nchg * 10 <= nact else 'many')))
        st['prev'] = a
        if (not fin.all()) or (np.abs(a) >= 2.0 ** 19).any():
            st['dirty'] = True
            st['withdrawn'] = False
        # correspondence (finite histories): the model computes the exact rational surface
        if not self.model_on:
            return
        idx = len(self.lines)
        self.hits[idx] = None if before is ABSENT else ('hit' if after is before else 'miss')
        if how != 'surface':
            if how == 'opd':
                self.numeric[idx] = np.asarray(got).copy(); self.numtol[idx] = 2 * XTOL * mag
                self.emit('C14 mirror opd', 'numeric')
            elif how == 'phase_for':
                self.numeric[idx] = np.asarray(got) / (2 * np.pi); self.numtol[idx] = tol / (2 * np.pi)
                self.emit('C14 mirror phase %s' % rat(wl), 'numeric')
            else:
                self.numeric[idx] = np.asarray(got).copy(); self.numtol[idx] = np.where(tol < 0.5, tol, np.inf)
                self.emit('C14 mirror %s %s %s %s' % (how, rat(wl), fmt_vec(self.E), fmt_vec(np.zeros(npix))), 'numeric')
            self.nreads += 1
            before = getattr(dm, '_actuators_for_cached_surface', ABSENT)
            surf_obj = dm.surface
            after = getattr(dm, '_actuators_for_cached_surface', ABSENT)
            idx = len(self.lines)
            self.hits[idx] = None if before is ABSENT else ('hit' if after is before else 'miss')
        surf_now = np.asarray(surf_obj).copy()
        self.nreads += 1
        self.numeric[idx] = surf_now; self.numtol[idx] = XTOL * mag
        self.emit('C14 mirror read', 'numeric')
        idx = len(self.lines)
        self.numeric[idx] = np.concatenate([free, 2 * free]); self.numtol[idx] = np.concatenate([XTOL * mag, 2 * XTOL * mag])
        self.emit('C14 mirror ideal', 'numeric')
        self.count('mirror-ideal')


# ---------------------------------------------------------------------------------------------
# directed corpus

def _m(rows):
    return enc_arr(np.array(rows, dtype=float))


A43 = [[1, 0, 2], [0, 3, 0], [4, 0, 0], [0, 0, 5]]


def directed_cases():
    out = []
    bases = [{'name': 'a0', 'mat': 'A', 'form': 'dense', 'grid_arg': False},
             {'name': 'a1', 'mat': 'A', 'form': 'csr', 'grid_arg': False},
             {'name': 'a2', 'mat': 'A', 'form': 'fields', 'grid_arg': False},
             {'name': 'a3', 'mat': 'A', 'form': 'coo', 'grid_arg': False},
             {'name': 'b0', 'mat': 'B', 'form': 'dense', 'grid_arg': False},
             {'name': 'b1', 'mat': 'B', 'form': 'csr', 'grid_arg': False}]
    ops = []
    for s in ('a0', 'a1'):
        ops += [{'op': 'get', 'src': s, 'dst': s + 's', 'ix': {'kind': 'slice', 'a': 1, 'b': 2, 'c': None}},
                {'op': 'get', 'src': s, 'dst': s + 'l', 'ix': {'kind': 'list', 'l': [2], 'as': 'list'}},
                {'op': 'get', 'src': s, 'dst': s + 'm', 'ix': {'kind': 'mask', 'l': [0, 1, 0], 'as': 'array'}},
                {'op': 'get', 'src': s, 'dst': s + 'r', 'ix': {'kind': 'slice', 'a': None, 'b': None, 'c': -1}},
                {'op': 'get', 'src': s, 'dst': s + 'i', 'ix': {'kind': 'int', 'k': -1, 'np': False}},
                {'op': 'get', 'src': s, 'dst': s + 'o', 'ix': {'kind': 'int', 'k': 3, 'np': False}},
                {'op': 'lc', 'src': s, 'c': _m([1, 2, 3])},
                {'op': 'lstsq', 'src': s, 'c': _m([1, -2, 3])},
                {'op': 'append', 'src': s, 'dst': s + 'p', 'v': _m([9, 8, 7, 6])},
                {'op': 'extend', 'a': s, 'b': 'b1', 'dst': s + 'e'},
                {'op': 'add', 'a': s, 'b': 'b0', 'dst': s + 'a'},
                {'op': 'add', 'a': s, 'b': 'b1', 'dst': s + 'b'}]
    ops += [{'op': 'tosparse', 'src': 'a0', 'dst': 'ts'}, {'op': 'todense', 'src': 'a1', 'dst': 'td'},
            {'op': 'get', 'src': 'b1', 'dst': 'b1all', 'ix': {'kind': 'slice', 'a': None, 'b': None, 'c': None}}]
    out.append({'type': 'basis', 'npix': 4, 'grid': False, 'style': 'directed',
                'mats': {'A': _m(A43), 'B': _m([[1], [2], [0], [0]])}, 'bases': bases, 'ops': ops})
    # an 8x8 well-conditioned system on which scipy's default lsmr budget (8 iterations) is not enough
    L = np.eye(8) * 4 + np.diag(np.ones(7), 1) * 3 + np.diag(np.ones(6), -2) * -2 + np.diag(np.ones(5), 3)
    out.append({'type': 'basis', 'npix': 8, 'grid': False, 'style': 'directed',
                'mats': {'A': enc_arr(L), 'B': enc_arr(L[:, :1])},
                'bases': [{'name': 'a0', 'mat': 'A', 'form': 'dense', 'grid_arg': False},
                          {'name': 'a1', 'mat': 'A', 'form': 'csr', 'grid_arg': False}],
                'ops': [{'op': 'lstsq', 'src': 'a0', 'c': _m([1, -2, 3, -4, 5, -6, 7, -8])},
                        {'op': 'lstsq', 'src': 'a1', 'c': _m([1, -2, 3, -4, 5, -6, 7, -8])},
                        {'op': 'lstsq', 'src': 'a1', 'y': _m([1, 0, 0, 2, 0, 0, 0, 1])}]})
    for rows, c in (([[0, -4, 0, -3], [-4, -3, 0, -1], [-4, 1, 1, 3], [2, 0, 1, 0]], [2, 8, 2, 7]),
                    ([[-3, -3, -3, 4, 4], [-1, 0, -4, -2, 2], [0, 0, 4, 0, -1], [4, 2, 0, 0, 2], [-1, -1, 0, -3, 0]], [2, 2, 5, 2, -5])):
        out.append({'type': 'basis', 'npix': len(rows), 'grid': False, 'style': 'directed',
                    'mats': {'A': _m(rows), 'B': _m([r[:1] for r in rows])},
                    'bases': [{'name': 'a0', 'mat': 'A', 'form': 'dense', 'grid_arg': False},
                              {'name': 'a1', 'mat': 'A', 'form': 'csr', 'grid_arg': False}],
                    'ops': [{'op': 'lstsq', 'src': 'a0', 'c': _m(c)}, {'op': 'lstsq', 'src': 'a1', 'c': _m(c)}]})
    # modes of different dtypes, the first one the narrowest (real then complex; mask / integer then float)
    Z = np.array([[1, 1j, 0.5], [1, -1, 0.25], [1, -1j, 0], [1, 1, -0.75]], dtype=complex)
    I = np.array([[1, 2, 0.5], [0, -3, 0.25], [1, 0, -1.5], [0, 4, 0.75]])
    for Mx, ct in ((Z, ['float64', 'complex128', 'float64']), (I, ['bool', 'int64', 'float64']), (I, ['int8', 'int64', 'float32'])):
        bases = [{'name': 'a0', 'mat': 'A', 'form': 'dense', 'grid_arg': False},
                 {'name': 'a1', 'mat': 'A', 'form': 'csr', 'grid_arg': False},
                 {'name': 'a2', 'mat': 'A', 'form': 'fields', 'grid_arg': False},
                 {'name': 'a3', 'mat': 'A', 'form': 'tuple', 'grid_arg': False, 'nested': True},
                 make_base_spec(np.random.default_rng(0), 'a4', 'A', Mx, 'rows', False, ct)]
        ops = []
        for nme in ('a0', 'a1', 'a2', 'a3', 'a4'):
            ops += [{'op': 'lc', 'src': nme, 'c': _m([1, 2, 4])}, {'op': 'get', 'src': nme, 'dst': nme + 'g', 'ix': {'kind': 'int', 'k': 1, 'np': False}},
                    {'op': 'todense', 'src': nme, 'dst': nme + 'd'}, {'op': 'lstsq', 'src': nme, 'c': _m([1, -2, 4])}]
        out.append({'type': 'basis', 'npix': 4, 'grid': False, 'style': 'directed', 'mats': {'A': enc_arr(Mx), 'B': enc_arr(Mx[:, :1])},
                    'coltypes': {'A': ct, 'B': ct[:1]}, 'bases': bases, 'ops': ops})
    # zero pixels
    out.append({'type': 'basis', 'npix': 0, 'grid': False, 'style': 'directed',
                'mats': {'A': enc_arr(np.zeros((0, 2))), 'B': enc_arr(np.zeros((0, 1)))},
                'bases': [{'name': 'a0', 'mat': 'A', 'form': 'dense', 'grid_arg': False},
                          {'name': 'a1', 'mat': 'A', 'form': 'csr', 'grid_arg': False}],
                'ops': [{'op': 'lc', 'src': 'a0', 'c': _m([1, 2])}, {'op': 'add', 'a': 'a0', 'b': 'a1', 'dst': 'z'}]})
    hist = [{'op': 'read', 'how': 'surface'}, {'op': 'edit', 'h': 0, 'i': 1, 'v': 2.0, 'via': 'handle'}, {'op': 'read', 'how': 'surface'},
            {'op': 'assign', 'v': [1.0, 2.0, 3.0]}, {'op': 'read', 'how': 'opd'}, {'op': 'edit', 'h': 0, 'i': 0, 'v': 7.0, 'via': 'handle'},
            {'op': 'read', 'how': 'surface'}, {'op': 'edit', 'h': 1, 'i': 2, 'v': -1.0, 'via': 'property'}, {'op': 'read', 'how': 'surface'},
            {'op': 'flatten'}, {'op': 'read', 'how': 'surface'}, {'op': 'edit', 'h': 2, 'i': 0, 'v': 1.0, 'via': 'handle'}, {'op': 'read', 'how': 'phase_for'},
            {'op': 'random', 'z': [1.0, -2.0, 0.5], 'rms': 0.5}, {'op': 'read', 'how': 'surface'}, {'op': 'iadd', 'd': [1.0, 1.0, 1.0]}, {'op': 'read', 'how': 'forward'},
            {'op': 'alias', 'h': 1}, {'op': 'read', 'how': 'surface'}, {'op': 'edit', 'h': 1, 'i': 1, 'v': 4.0, 'via': 'handle'}, {'op': 'read', 'how': 'surface'},
            {'op': 'setif', 'M': _m([[2, 0, 0], [0, 2, 0], [0, 0, 2], [1, 1, 1]]), 'sparse': True}, {'op': 'read', 'how': 'surface'},
            {'op': 'assign', 'v': None}, {'op': 'read', 'how': 'surface'}]
    # the caller edits surface arrays it received (audit round 4, D22f): hit path, miss path, an older array,
    # read-outs that evaluate dm.surface internally
    shist = [{'op': 'assign', 'v': [1.0, 2.0, 3.0]}, {'op': 'read', 'how': 'surface'},
             {'op': 'sedit', 'j': 0, 'i': 0, 'v': 0.0, 'mode': 'imul0'}, {'op': 'read', 'how': 'surface'},
             {'op': 'sedit', 'j': 1, 'i': 2, 'v': 7.0, 'mode': 'item'}, {'op': 'read', 'how': 'opd'},
             {'op': 'edit', 'h': 1, 'i': 0, 'v': -1.0, 'via': 'handle'}, {'op': 'read', 'how': 'forward'},
             {'op': 'sedit', 'j': 3, 'i': 1, 'v': 2.5, 'mode': 'fill'}, {'op': 'sedit', 'j': 0, 'i': 1, 'v': 1.5, 'mode': 'item'},
             {'op': 'read', 'how': 'surface'}, {'op': 'flatten'}, {'op': 'sedit', 'j': 4, 'i': 3, 'v': 4.0, 'mode': 'item'},
             {'op': 'read', 'how': 'surface'}, {'op': 'sedit', 'j': 5, 'i': 0, 'v': 1.0, 'mode': 'item'}, {'op': 'read', 'how': 'phase_for'}]
    for kind in ('dm-dense', 'dm-sparse'):
        out.append({'type': 'mirror', 'kind': kind, 'npix': 4, 'nact': 3, 'M': _m(A43), 'ops': hist})
        out.append({'type': 'mirror', 'kind': kind, 'npix': 4, 'nact': 3, 'M': _m(A43), 'ops': shist})
    out.append({'type': 'mirror', 'kind': 'tiptilt', 'npix': 4, 'nact': 2,
                'ops': [{'op': 'assign', 'v': [1.0, 2.0]}, {'op': 'read', 'how': 'surface'}, {'op': 'sedit', 'j': 0, 'i': 0, 'v': 0.0, 'mode': 'imul0'},
                        {'op': 'read', 'how': 'surface'}]})
    out.append({'type': 'mirror', 'kind': 'seg-dense', 'npix': 4, 'nact': 6, 'S': _m([[1, 0], [1, 0], [0, 1], [0, 0]]),
                'ops': [{'op': 'segset', 'id': 1, 'p': 1.0, 't': 0.5, 'tl': -0.5}, {'op': 'read', 'how': 'surface'},
                        {'op': 'sedit', 'j': 0, 'i': 2, 'v': 9.0, 'mode': 'item'}, {'op': 'read', 'how': 'surface'}]})
    # extreme dynamic range / non-finite excursions (round 5): read, poke one of ten actuators to NaN / inf / 2^40,
    # read, withdraw (in place / flatten / corrected copy), read - on sparse and dense influence functions
    D10 = np.zeros((6, 10))
    for j in range(10):
        D10[j % 6, j] = 1.0 + j % 3
        D10[(j + 2) % 6, j] = -0.5
    rd = {'op': 'read', 'how': 'surface'}
    for kind in ('dm-sparse', 'dm-dense'):
        for badv, nonfin in (('nan', True), ('inf', True), (2.0 ** 40, False)):
            out.append({'type': 'mirror', 'extreme': True, 'kind': kind, 'npix': 6, 'nact': 10, 'M': enc_arr(D10), 'nonfinite': nonfin, 'wl': 0.5,
                        'ops': [rd, {'op': 'edit', 'h': 0, 'i': 3, 'v': 1.5, 'via': 'handle'}, rd,
                                {'op': 'edit', 'h': 0, 'i': 4, 'v': badv, 'via': 'handle'}, rd,
                                {'op': 'edit', 'h': 0, 'i': 4, 'v': 2.0 ** -30, 'via': 'property', 'withdraw': 'inplace'}, rd,
                                {'op': 'edit', 'h': 0, 'i': 7, 'v': badv, 'via': 'handle'}, {'op': 'read', 'how': 'opd'},
                                {'op': 'flatten', 'withdraw': 'flatten'}, rd,
                                {'op': 'assign', 'v': [0.0] * 9 + [badv]}, {'op': 'read', 'how': 'phase_for'},
                                {'op': 'assign', 'v': [0.0] * 9 + [0.25], 'withdraw': 'assign'}, {'op': 'read', 'how': 'forward'}, rd]})
    out.append({'type': 'mirror', 'extreme': True, 'kind': 'seg-sparse', 'npix': 12, 'nact': 30, 'nonfinite': True, 'wl': 1.0,
                'S': enc_arr(np.vstack([np.eye(10), np.eye(10)[:2]])),
                'ops': [rd, {'op': 'segset', 'id': 3, 'p': 'nan', 't': 0.5, 'tl': '-inf'}, rd,
                        {'op': 'segset', 'id': 3, 'p': 1.0, 't': 0.5, 'tl': -0.5, 'withdraw': 'segset'}, rd,
                        {'op': 'segset', 'id': 0, 'p': 2.0 ** 40, 't': 0.0, 'tl': 0.0}, rd,
                        {'op': 'segset', 'id': 0, 'p': 2.0 ** -40, 't': 0.0, 'tl': 0.0, 'withdraw': 'segset'}, rd]})
    return out


# ---------------------------------------------------------------------------------------------

class SliceBoxRun:
    """Exhaustive tie of the model's `sliceIndices` / `sliceIdx` to CPython's slice.indices on a box:
    every n <= nmax and every start / stop / step in [-v, v] ∪ {None}."""

    def __init__(self, case):
        self.case = case
        self.bad, self.counts, self.numeric, self.hits, self.numtol = [], {}, {}, {}, {}
        self.lines, self.impl = ['C14 reset'], [None]
        self.nontrivial = True

    def run(self):
        vals = [None] + list(range(-self.case['v'], self.case['v'] + 1))
        f = lambda x: '-' if x is None else str(x)  # noqa: E731
        for n in range(self.case['nmax'] + 1):
            for a in vals:
                for b in vals:
                    for c in vals:
                        self.lines.append('C14 sliceidx %d %s %s %s' % (n, f(a), f(b), f(c)))
                        if c == 0:
                            try:
                                slice(a, b, c).indices(n)
                                self.impl.append('ok ?')
                            except ValueError:
                                self.impl.append('err value')
                            continue
                        t = slice(a, b, c).indices(n)
                        self.impl.append('ok %d %d %d [%s]' % (t[0], t[1], t[2], ','.join(str(x) for x in range(*t))))
        self.counts['slice-box requests (n <= %d, start/stop/step in [-%d,%d] or None)' % (self.case['nmax'], self.case['v'], self.case['v'])] = len(self.lines) - 1
        return self


def is_read(line):
    t = line.split()
    return len(t) >= 3 and t[1] == 'mirror' and t[2] in ('read', 'opd', 'phase', 'forward', 'backward')


def execute(case):
    if case['type'] == 'basis':
        return BasisRun(case).run()
    if case['type'] == 'slicebox':
        return SliceBoxRun(case).run()
    return (ExtremeRun(case) if case.get('extreme') else MirrorRun(case)).run()


def run(ctx):
    ctx.rule = ('basis cases: one or two random dyadic matrices (npix 0..6 [thorough: ..10], 0..5 modes, densities 0/0.3/0.6/1, '
                '30% complex; in 45% of the cases every mode has its own dtype bool/int8/int64/float32/float64/complex128, mostly narrowest first, lists also as nested Python lists), each built through 4-7 of the input forms dense / raw CSC triple (explicit zeros, duplicate entries) / '
                'CSR / COO (as SciPy builds them, or raw triples with explicit zeros / duplicates / shuffled order) / csc_array / list of fields / tuple of fields / list or tuple of sparse rows (the model is given a description of the Python object and dispatches itself: fromInput), in 15% of the cases also a list the constructor must reject (empty, ragged, mixing vectors and sparse rows), with and without a grid, followed by 6-12 random '
                'operations (linear_combination, __getitem__ with int / slice / index list / mask incl. negative, out-of-range, '
                'length-one selections, __add__, extend, append, to_sparse, to_dense, coefficients_for of A·c and of general y when '
                'the modes are independent with cond <= 1e3). mirror cases: DeformableMirror (dense/sparse influence functions), '
                'SegmentedDeformableMirror (dense/sparse segments), TipTiltMirror with 6-15 operations: assign new array, re-assign an '
                'array handed out earlier, in-place edit of the current or of an earlier array (through the kept handle or through '
                'dm.actuators; also changes of 2^-30), +=, set_segment_actuators, flatten, random (draw patched to dyadic data), new influence functions / '
                'segments, reads through surface / opd / phase_for / forward / backward; extreme histories (220 per quick run): mirrors of 2..40 actuators (sparse and dense influence functions, segmented up to 12 segments, tip-tilt) '
                'commanded values over 2^-40..2^40 and, in half of the cases, NaN / +-inf; few (<= 1 in 10) or many actuators change per step (in-place poke, new vector differing in few entries, set_segment_actuators, full vector, flatten, random, +=), bad values are withdrawn again (in place / corrected copy / flatten / set_segment_actuators), a read after every step judged per pixel at 1e-12 of the terms of the CURRENT sum (no absolute floor) and, for the NaN/inf pattern, against the cache-free evaluation and a fresh mirror; basis cases also linear_combination with such coefficients and coefficients_for at scales 2^+-(20..40); in-place edits (item / *= 0 / fill) of a surface array that an earlier read of dm.surface returned (12% of the steps, mostly the latest array, 75% followed by a read). Exact comparison where all arithmetic is on '
                'small dyadics, 1e-9 relative otherwise. Non-trivial: basis case with >=1 mode and >=1 derived basis; mirror case '
                'with an in-place edit of the held actuator array between two reads or an edit of a returned surface array.')
    ctx.assumptions += ['NumPy/SciPy indexing, hstack, dot and lstsq meet their specifications (the reference uses plain ndarray arithmetic and Python list indexing)',
                        'float arithmetic on the generated small dyadic numbers is exact',
                        'coefficients_for is only compared for independent modes with condition number <= 1e3']
    nb = ctx.scale(1000, 15000)
    nm = ctx.scale(1000, 15000)
    cases = directed_cases()
    for k in range(nb):
        cases.append(gen_basis_case(ctx.rng, big=(ctx.tier == 'thorough' and k % 4 == 0)))
    for k in range(ctx.scale(20, 200)):
        cases.append(gen_lstsq_case(ctx.rng))
    for k in range(nm):
        cases.append(gen_mirror_case(ctx.rng, big=(ctx.tier == 'thorough' and k % 4 == 0)))
    for k in range(ctx.scale(220, 3000)):
        cases.append(gen_extreme_case(ctx.rng, big=(ctx.tier == 'thorough' and k % 4 == 0)))
    # exhaustive tie of slice.indices on a box (quick: n <= 6, arguments in [-8, 8] or None; thorough: n <= 12, [-15, 15])
    cases.append({'type': 'slicebox', 'nmax': ctx.scale(6, 12), 'v': ctx.scale(8, 15)})
    all_lines, spans, runs = [], [], []
    for case in cases:
        r = execute(case)
        for key, what in r.bad:
            ctx.violation(key, what, case)
        for k, v in r.counts.items():
            ctx.count(k, v)
        ctx.boundary_skipped += getattr(r, 'skipped', 0)
        if case['type'] == 'basis':
            derived = sum(1 for l in r.lines if l.split()[1] in ('get', 'add', 'extend', 'append', 'tosparse', 'todense'))
            nmA = case['mats']['A']['shape'][1]
            ctx.count('basis-npix:%d' % case['npix'])
            ctx.count('basis-nmodesA:%d' % nmA)
            ctx.count('basis-complex:%s' % ('c' in case['mats']['A']))
            ctx.count('basis-grid:%s' % case['grid'])
            sig = (case['npix'], nmA, case['mats']['B']['shape'][1], 'c' in case['mats']['A'], case['grid'],
                   tuple(b['form'] for b in case['bases']), tuple(o['op'] for o in case['ops']))
            ctx.case({'type': 'basis', 'npix': case['npix'], 'forms': [b['form'] for b in case['bases']], 'ops': [o['op'] for o in case['ops']]},
                     sig if nmA >= 1 and derived >= 1 else None)
        elif case['type'] == 'slicebox':
            ctx.case({'type': 'slicebox', 'nmax': case['nmax'], 'v': case['v']}, ('slicebox', case['nmax'], case['v']))
        else:
            ctx.count(('mirror-kind:' if not case.get('extreme') else 'extreme-mirror-kind:') + case['kind'])
            if not case.get('extreme'):
                ctx.count('mirror-nact:%d' % case['nact'])
            sig = (case['kind'], case['npix'], case['nact'], tuple(o['op'] for o in case['ops']))
            ctx.case({'type': 'mirror', 'kind': case['kind'], 'ops': [o['op'] for o in case['ops']]}, sig if r.nontrivial else None)
        spans.append((len(all_lines), len(r.lines)))
        all_lines += r.lines
        runs.append(r)
    out = ctx.model(all_lines)
    hit_cmp = hit_diff = 0
    for case, r, (base, n) in zip(cases, runs, spans):
        for j in range(n):
            want, got = r.impl[j], out[base + j]
            if want is None:
                continue
            ctx.traces_validated += 1
            stream = 'C14 ' + ' '.join(r.lines[j].split()[1:3 if r.lines[j].split()[1] == 'mirror' else 2])
            if want == 'hit-only':
                pass
            elif want == 'numeric':
                if got.startswith('err rank'):
                    ctx.disagree(stream, {'line': r.lines[j], 'impl': 'independent modes', 'model': got})
                    break
                if not got.startswith('ok'):
                    ctx.disagree(stream, {'line': r.lines[j], 'impl': 'answers', 'model': got, 'case': case})
                    break
                tk = r.lines[j].split()
                if tk[1] == 'mirror' and tk[2] in ('forward', 'backward'):
                    vec = eval_formal_field(got)
                    # the power the model computes (`power`, exact) against the power of the field the code returned
                    pw_model = float(Fraction(got.split()[3].split(':')[0]))
                    pw_impl = float(np.sum(np.abs(np.asarray(r.numeric[j])) ** 2))
                    if np.isfinite(pw_impl) and not abs(pw_model - pw_impl) <= 1e-9 * max(pw_model, 1e-300):
                        ctx.disagree(stream + ' power', {'line': r.lines[j], 'impl': pw_impl, 'model': pw_model, 'case': case})
                        break
                elif tk[1] == 'seginfl':
                    body = got.split()[1]
                    vec = np.concatenate([parse_vec(rw) for rw in body.split(';')]) if body != '-' else np.zeros(0, dtype=complex)
                else:
                    vec = parse_vec(got.split()[1])
                if r.lines[j].endswith('mirror ideal') and got.startswith('ok'):
                    vec = np.concatenate([vec, parse_vec(got.split()[2])])
                x = np.asarray(r.numeric[j])
                # per-element tolerance where the case supplies one (extreme dynamic range: relative to the terms of the
                # current sum, no absolute floor), else 1e-9 relative to the largest element
                tolj = getattr(r, 'numtol', {}).get(j)
                lim = TOL * max(1.0, float(np.abs(vec).max(initial=0))) if tolj is None else np.asarray(tolj)
                if vec.shape != x.shape or not np.all(np.abs(vec - x) <= lim):
                    key = None
                    ctx.disagree(stream, {'line': r.lines[j], 'impl': fmt_vec(x), 'model': got, 'case': case}, key=key)
                    break
            elif is_read(r.lines[j]):
                if got.rsplit(' ', 1)[0] != want:
                    ctx.disagree(stream, {'line': r.lines[j], 'impl': want, 'model': got, 'case': case})
                    break
            elif got != want:
                ctx.disagree(stream, {'line': r.lines[j], 'impl': want, 'model': got, 'case': case})
                break
            if is_read(r.lines[j]) and getattr(r, 'hits', {}).get(j) is not None:
                hit_cmp += 1
                ctx.count('mirror-cache:' + r.hits[j])
                if got.rsplit(' ', 1)[1] != r.hits[j]:
                    hit_diff += 1
                    ctx.disagree('C14 mirror cache', {'line': j, 'impl': r.hits[j], 'model': got.rsplit(' ', 1)[1], 'case': case})
                    break
    ctx.extra['mirror_cache_hit_miss_compared'] = hit_cmp
    ctx.extra['mirror_cache_hit_miss_differences'] = hit_diff


def replay(ctx, case):
    r = execute(case)
    for key, what in r.bad:
        print('  fails:', key, '-', what)
    return not r.bad
