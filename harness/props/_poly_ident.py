"""Tie T2 helpers (used by c08.py and c07.py): exact black-box identification of polynomial
kernels of the running code, lattice rounding, and deterministic emission of Lean definitions.

Nothing here knows hcipy: callers hand in a vectorised evaluator `f(points) -> values` that runs the
real code on a batch of points (one pixel per point).
"""
import itertools
import os
import subprocess
from fractions import Fraction

import numpy as np

from harness.common import LEAN_DIR, VERIF


class ShapeError(Exception):
    """The kernel is not a polynomial of the assumed shape / lattice (identification untrusted)."""


def round_lattice(x, spacing, tol, what):
    """Round a real number to the lattice spacing*Z; raise ShapeError if it is further than tol."""
    k = np.round(x / spacing)
    dev = abs(x - k * spacing)
    if not np.isfinite(x) or dev > tol:
        raise ShapeError('%s: value %r is not on the lattice %g*Z (deviation %.3g)' % (what, x, spacing, dev))
    return Fraction(int(k)) * Fraction(spacing).limit_denominator(64), dev


def identify_quadratic(f, n, spacing=0.5, tol=1e-9, rng=None, nverify=40, what='kernel'):
    """f: (m, n) float array of points -> (m,) real values.  Assumes f is a homogeneous quadratic form.
    Returns ({(i, j): Fraction with i <= j}, max lattice deviation, max verification error).
    The quadratic form is sum_{i<=j} c[i,j] v_i v_j."""
    pts = [np.zeros(n)]
    for i in range(n):
        e = np.zeros(n); e[i] = 1; pts.append(e)
    pairs = [(i, j) for i in range(n) for j in range(i + 1, n)]
    for i, j in pairs:
        e = np.zeros(n); e[i] = 1; e[j] = 1; pts.append(e)
    vals = np.asarray(f(np.array(pts)), dtype=float)
    if vals.shape != (len(pts),):
        raise ShapeError('%s: evaluator returned shape %r' % (what, vals.shape))
    if abs(vals[0]) > tol:
        raise ShapeError('%s: not homogeneous, value at the origin is %r' % (what, vals[0]))
    coef = {}
    maxdev = 0.0
    for i in range(n):
        c, dev = round_lattice(vals[1 + i], spacing, tol, '%s coefficient (%d,%d)' % (what, i, i))
        maxdev = max(maxdev, dev)
        if c != 0:
            coef[(i, i)] = c
    for k, (i, j) in enumerate(pairs):
        c, dev = round_lattice(vals[1 + n + k] - vals[1 + i] - vals[1 + j], spacing, tol,
                               '%s coefficient (%d,%d)' % (what, i, j))
        maxdev = max(maxdev, dev)
        if c != 0:
            coef[(i, j)] = c
    # verification on fresh random integer points (and two scalings, which a non-quadratic fails)
    rng = rng if rng is not None else np.random.default_rng(12345)
    v = rng.integers(-4, 5, size=(nverify, n)).astype(float)
    v[1::4] *= 2
    got = np.asarray(f(v), dtype=float)
    ref = eval_quadratic(coef, v)
    scale = np.maximum(1.0, np.abs(ref))
    err = float(np.max(np.abs(got - ref) / scale)) if np.all(np.isfinite(got)) else float('inf')
    if err > 1e-9:
        k = int(np.argmax(np.abs(got - ref) / scale)) if np.all(np.isfinite(got)) else 0
        raise ShapeError('%s: recovered quadratic form fails verification at point %r (code %r, form %r)'
                         % (what, v[k].tolist(), float(got[k]), float(ref[k])))
    return coef, maxdev, err


def eval_quadratic(coef, v):
    v = np.asarray(v, dtype=float)
    res = np.zeros(v.shape[0])
    for (i, j), c in coef.items():
        res += float(c) * v[:, i] * v[:, j]
    return res


def identify_trigpoly(f, nangles, nout, kmax=3, spacing=0.25, tol=1e-9, rng=None, nverify=64, what='kernel'):
    """f: (m, nangles) array of real angles -> (m, nout) complex values.  Assumes each output is a
    trigonometric polynomial sum_k c_k exp(i k.angles) with |k_a| <= kmax, c_k in spacing*Z[i].
    Returns (list over outputs of {k tuple: (Fraction re, Fraction im)}, maxdev, verification error)."""
    ns = 2 * kmax + 2                       # samples per angle (one more than needed: Nyquist bin must vanish)
    axes = [np.arange(ns) * (2 * np.pi / ns)] * nangles
    mesh = np.stack(np.meshgrid(*axes, indexing='ij'), axis=-1).reshape(-1, nangles)
    vals = np.asarray(f(mesh))
    if vals.shape != (mesh.shape[0], nout) or not np.all(np.isfinite(vals)):
        raise ShapeError('%s: evaluator returned shape %r or non-finite values' % (what, vals.shape))
    res = []
    maxdev = 0.0
    for o in range(nout):
        a = vals[:, o].reshape((ns,) * nangles)
        c = np.fft.fftn(a) / a.size          # c[k] multiplies exp(+i k.angle)
        coef = {}
        for idx in itertools.product(range(ns), repeat=nangles):
            k = tuple(i if i <= kmax else i - ns for i in idx)
            z = c[idx]
            if any(abs(kk) > kmax for kk in k):
                if abs(z) > tol:
                    raise ShapeError('%s output %d: frequency %r beyond the assumed degree has coefficient %r' % (what, o, k, z))
                continue
            re, d1 = round_lattice(z.real, spacing, tol, '%s output %d frequency %r (re)' % (what, o, k))
            im, d2 = round_lattice(z.imag, spacing, tol, '%s output %d frequency %r (im)' % (what, o, k))
            maxdev = max(maxdev, d1, d2)
            if re != 0 or im != 0:
                coef[k] = (re, im)
        res.append(coef)
    rng = rng if rng is not None else np.random.default_rng(54321)
    ang = rng.uniform(-np.pi, np.pi, size=(nverify, nangles))
    got = np.asarray(f(ang))
    ref = eval_trigpoly(res, ang)
    err = float(np.max(np.abs(got - ref))) if np.all(np.isfinite(got)) else float('inf')
    if err > 1e-9:
        raise ShapeError('%s: recovered trigonometric polynomial fails verification (max error %.3g)' % (what, err))
    return res, maxdev, err


def eval_trigpoly(coefs, ang):
    ang = np.asarray(ang, dtype=float)
    out = np.zeros((ang.shape[0], len(coefs)), dtype=complex)
    for o, coef in enumerate(coefs):
        for k, (re, im) in coef.items():
            out[:, o] += (float(re) + 1j * float(im)) * np.exp(1j * (ang @ np.array(k, dtype=float)))
    return out


# ----------------------------------------------------------------------------------------------
# Lean emission (deterministic: sorted monomials, canonical number forms)

def lean_real(c):
    c = Fraction(c)
    if c.denominator == 1:
        return '(%d : ℝ)' % c.numerator
    return '((%d : ℝ) / %d)' % (c.numerator, c.denominator)


def lean_quadratic_terms(coef, names, extra=None):
    """Terms `c * v_i * v_j [* extra]` in sorted order."""
    terms = []
    for (i, j) in sorted(coef):
        t = '%s * %s * %s' % (lean_real(coef[(i, j)]), names[i], names[j])
        if extra:
            t += ' * ' + extra
        terms.append(t)
    return terms


def lean_sum(terms, indent='    ', per_line=3):
    if not terms:
        return indent + '0'
    lines = []
    for k in range(0, len(terms), per_line):
        lines.append(indent + ('+ ' if k else '') + ' + '.join(terms[k:k + per_line]))
    return '\n'.join(lines)


def lean_complex(re, im):
    re, im = Fraction(re), Fraction(im)

    def q(c):
        return '(%d : ℂ)' % c.numerator if c.denominator == 1 else '((%d : ℂ) / %d)' % (c.numerator, c.denominator)
    if im == 0:
        return q(re)
    if re == 0:
        return '(%s * Complex.I)' % q(im)
    return '(%s + %s * Complex.I)' % (q(re), q(im))


def lean_trig_terms(coef, atoms):
    """atoms: list of (name, inverse name) per angle.  Monomial exp(i k.a) = prod atom^k."""
    terms = []
    for k in sorted(coef):
        re, im = coef[k]
        t = lean_complex(re, im)
        for (nm, inv), kk in zip(atoms, k):
            if kk > 0:
                t += ' * %s' % nm if kk == 1 else ' * %s ^ %d' % (nm, kk)
            elif kk < 0:
                t += ' * %s' % inv if kk == -1 else ' * %s ^ %d' % (inv, -kk)
        terms.append(t)
    return terms


def write_gen(relpath, text):
    """Write lean/HcipyVerif/Gen/<relpath> if it changed.  Returns a small diff report."""
    path = os.path.join(LEAN_DIR, 'HcipyVerif', 'Gen', relpath)
    os.makedirs(os.path.dirname(path), exist_ok=True)
    old = open(path).read() if os.path.exists(path) else None
    rep = {'file': 'lean/HcipyVerif/Gen/' + relpath, 'changed_on_disk': old != text}
    try:
        p = subprocess.run(['git', 'show', 'HEAD:lean/HcipyVerif/Gen/' + relpath], cwd=VERIF,
                           stdout=subprocess.PIPE, stderr=subprocess.DEVNULL, text=True, timeout=30)
        if p.returncode == 0:
            base = p.stdout
            rep['differs_from_committed_baseline'] = base != text
            if base != text:
                bl, nl = base.split('\n'), text.split('\n')
                rep['diff_lines'] = [('-' + a, '+' + b) for a, b in zip(bl, nl) if a != b][:8]
        else:
            rep['differs_from_committed_baseline'] = None
    except Exception:                                            # git unavailable: report only
        rep['differs_from_committed_baseline'] = None
    if old != text:
        with open(path, 'w') as f:
            f.write(text)
    return rep
