"""C16 — write/read round trips of grids, fields and mode bases.

Three parts:

* generator of *specs* (JSON-serialisable descriptions from which the objects are rebuilt, so that
  a replay file reconstructs the failing object exactly);
* the property oracle on the real code: every object is written to asdf / fits / fits.gz / pickle
  files in a temporary directory (plus dictionary, ``pickle.dumps`` and ``deepcopy`` round trips),
  read back and compared *structurally by this file* (class, coordinate system, every stored
  coordinate array, weights, values, dtype up to byte order, tensor shape, sparse-or-dense kind),
  with a snapshot of the written object before and after;
* correspondence with the Lean model (HcipyVerif.Serial): the real ``to_dict`` trees are sent to
  the model, which decodes / re-encodes them, and runs its model of the FITS image paths
  (image HDU layout, tree left in the file, result of reading); plus ``ravel``/``unravel``
  against ``np.ravel_multi_index``/``np.unravel_index``.  Round 4: the base class ``Grid`` and an
  unregistered user subclass as grid kinds; the tree actually stored in every asdf file (and every grid
  FITS file) against the model's ASDF layer (``file``: monitors the hypothesis ``AsdfFaithful``);
  ``_weights is None`` before/after ``to_dict`` and the FITS write against the model's programs over the
  object (``todict-st``); the real ``Field.__getstate__()`` against the model's ``getState`` (``getstate``).
"""
import copy
import os
import pickle
import re
import tempfile
import warnings

import numpy as np

from harness.common import rat, MachineryError

FORMATS = ['asdf', 'fits', 'fits.gz', 'pkl']
FAM_OF = {'asdf': 'asdf', 'fits': 'fits', 'fits.gz': 'fits', 'pkl': 'pickle'}
FIELD_DTYPES = ['float64', 'float32', 'int64', 'int32', 'int16', 'uint8', 'int8', 'uint16', 'uint32',
                'uint64', 'complex128', 'complex64', 'bool', 'float16']
BASIS_DTYPES = ['float64', 'float32', 'int64', 'int32', 'complex128', 'bool', 'uint8']
ERRMAP = {'KeyError': 'key', 'ValueError': 'value', 'TypeError': 'type', 'AttributeError': 'attr', 'NotImplementedError': 'notimpl'}
# (file name, fmt argument) pairs for the stream "filert": write_*(x, name, fmt) then read_*(name, fmt).  Extensions that are
# guessed, names nothing can be guessed from (ValueError), an explicit fmt overriding the name, fmt strings no branch takes
# (NotImplementedError), names without a dot.
NAMED = [('a.asdf', None), ('a.fits', None), ('a.fits.gz', None), ('a.pkl', None), ('a.pickle', None),
         ('a.dat', None), ('a.dat', 'asdf'), ('a.dat', 'fits'), ('a.dat', 'pickle'), ('a.asdf', 'fits'),
         ('a.fits', 'pickle'), ('a.pkl', 'asdf'), ('a.dat', 'hdf5'), ('a.asdf', 'FITS'), ('xasdf', None),
         ('a.fits.gz', 'fits'), ('a.gz', None), ('a.fit', None), ('a.fits.pickle', None), ('a.pkl.asdf', None),
         ('a.pickle', 'fits'), ('a.fits', 'asdf'), ('a.asdf.bak', None), ('a.asdf', 'pkl'), ('b_fits', None)]


# ---------------------------------------------------------------------------------------------
# specs -> objects

# Dynamic range inside one object (round 6, seeded class C16-11): exponent window per float dtype such that
# (k/4) * 2^e is exact for |k| <= 12 (LO + 2 gives k * 2^LO, the subnormals) and 2 * 3 * 2^HI does not overflow.
EXP_RANGE = {2: (-22, 12), 4: (-147, 120), 8: (-1072, 1000)}
DYN_PROFILES = ['wide60', 'tiny-in-mode', 'huge-in-mode', 'subnormal', 'extremes']


def _values(dtype, ints, exps=None):
    """Exactly representable values of the requested dtype from small integers.  `exps` (one integer per element, the
    dynamic-range dimension): floating-point and complex elements are multiplied by 2**e (clipped to the exponent window
    of the dtype, so subnormals and values next to the overflow threshold occur inside one array next to ordinary ones;
    real and imaginary parts get different exponents); integer elements are shifted left by |e| mod (bits - 5 or 7), so
    one array holds 1 next to 2**(bits - 2)."""
    ints = np.asarray(ints, dtype='int64')
    dt = np.dtype(dtype)
    if exps is not None:
        exps = np.asarray(list(exps)[:ints.size] + [0] * max(0, ints.size - len(exps)), dtype='int64').reshape(ints.shape)
    if dt.kind == 'b':
        return (ints % 2).astype(bool)
    if dt.kind == 'u':
        v = (np.abs(ints) % 200)
        if exps is not None:
            v = v.astype('uint64') << (np.abs(exps) % (8 * dt.itemsize - 7)).astype('uint64')
        return v.astype(dt)
    if dt.kind == 'i':
        if exps is not None:
            ints = ints << (np.abs(exps) % (8 * dt.itemsize - 5))
        return ints.astype(dt)
    if dt.kind == 'f':
        v = (ints / 4.0).astype(dt)
        if exps is not None:
            lo, hi = EXP_RANGE[dt.itemsize]
            v = np.ldexp(v, np.clip(exps, lo, hi).astype('int32')).astype(dt)
        return v
    if dt.kind == 'c':
        re, im = ints / 4.0, np.roll(ints, 1) / 2.0
        if exps is not None:
            lo, hi = EXP_RANGE[dt.itemsize // 2]
            fdt = np.dtype('f%d' % (dt.itemsize // 2))
            re = np.ldexp(re.astype(fdt), np.clip(exps, lo, hi).astype('int32'))
            im = np.ldexp(im.astype(fdt), np.clip(np.roll(exps, 2), lo, hi - 1).astype('int32'))
        return (re + 1j * im).astype(dt)
    raise MachineryError('dtype ' + dtype)


def gen_exps(rng, n, group, profile=None):
    """One exponent per element; `group` = elements per mode / per field component (the stride pattern of the small
    elements is chosen per group so that every mode holds its own peak AND its own tiny elements)."""
    profile = profile or DYN_PROFILES[int(rng.integers(0, len(DYN_PROFILES)))]
    if profile == 'wide60':
        e = rng.integers(-60, 61, size=n)
    elif profile == 'tiny-in-mode':
        e = np.where(rng.random(size=n) < 0.35, -rng.integers(53, 90, size=n), 0)
    elif profile == 'huge-in-mode':
        e = np.where(rng.random(size=n) < 0.25, rng.integers(53, 90, size=n), 0)
    elif profile == 'subnormal':
        e = rng.choice([-2000, -1071, -1060, -1022, -147, -140, -126, -60, 0, -22, -14], size=n)
    elif profile == 'extremes':
        e = rng.choice([-2000, 2000, 0, -1, 1], size=n)
    else:
        raise MachineryError('profile ' + str(profile))
    return {'p': profile, 'e': [int(x) for x in e]}


def dyn_of(spec):
    d = spec.get('dyn')
    return None if not d else d['e']


BORDERS = ['=', '<', '>']


def with_border(a, border):
    """The same values stored with an explicit byte order ('=' native, '<', '>'); single-byte dtypes have none."""
    a = np.asarray(a)
    if border in (None, '=') or a.dtype.itemsize == 1:
        return a
    out = a.astype(a.dtype.newbyteorder(border))
    if not np.array_equal(out, a):
        raise MachineryError('with_border changed the values')
    return out


SYSTEMS = ['cartesian', 'polar', 'none', 'other']


def _unregistered_cls():
    """A user subclass of Grid whose coordinate system ('other') was never passed to
    Grid._add_coordinate_system: written by asdf/fits, not readable (theorem grid_file_readable_iff)."""
    cls = globals().get('_Unregistered')
    if cls is None:
        import hcipy
        cls = type('_Unregistered', (hcipy.Grid,), {'_coordinate_system': 'other', '__module__': __name__})
        globals()['_Unregistered'] = cls        # importable by name: default pickling works
    return cls


def grid_class(system):
    import hcipy
    if system == 'polar':
        return hcipy.PolarGrid
    if system == 'cartesian':
        return hcipy.CartesianGrid
    if system == 'none':
        return hcipy.Grid
    if system == 'other':
        return _unregistered_cls()
    raise MachineryError('system ' + str(system))


def build_grid(spec):
    import hcipy
    cd = np.dtype(spec.get('cdtype', 'float64')).newbyteorder(spec.get('cborder') or '=')
    # physical scale of the coordinates: a power of two (exact), e.g. 2**-20 = a beam of micrometres written in metres
    cs = 1 if cd.kind == 'i' else 2.0 ** int(spec.get('cscale') or 0)
    if spec['kind'] == 'regular':
        if cd.kind == 'i' or spec.get('cborder') in ('<', '>'):
            coords = hcipy.RegularCoords(np.array(spec['delta'], dtype=cd) * cs, list(spec['dims']), np.array(spec['zero'], dtype=cd) * cs)
        else:
            coords = hcipy.RegularCoords([d * cs for d in spec['delta']], list(spec['dims']), [z * cs for z in spec['zero']])
    elif spec['kind'] == 'separated':
        coords = hcipy.SeparatedCoords([np.array(a, dtype=cd) * cs for a in spec['axes']])
    else:
        coords = hcipy.UnstructuredCoords([np.array(a, dtype=cd) * cs for a in spec['axes']])
    w = spec.get('weights')
    if w is not None and w['t'] == 'autox':
        # explicitly given weights that are a multiple of the automatic ones (quadrature weights, apodised weights, ...):
        # same shape as the automatic weights and, for factors near one, within any tolerance of them
        try:
            with warnings.catch_warnings():
                warnings.simplefilter('ignore')
                auto = grid_class('polar' if spec['system'] == 'polar' else 'cartesian')(copy.deepcopy(coords)).weights
            auto = np.asarray(auto, dtype='float64') * float(w['f'])
        except Exception:  # noqa  (no automatic weights for this grid: a plain scalar)
            auto = np.asarray(float(w['f']))
        w = {'t': 'built', 'v': float(auto) if auto.ndim == 0 else auto.copy()}
    if w is None or w['t'] == 'auto':
        weights = None
    elif w['t'] == 'pyfloat':
        weights = float(w['v'])
    elif w['t'] == 'pyint':
        weights = int(w['v'])
    elif w['t'] == 'npfloat':
        weights = np.float64(w['v'])
    elif w['t'] == 'array':
        weights = with_border(np.array(w['v'], dtype=w['dtype']), w.get('border'))
    elif w['t'] == 'list':
        weights = [float(x) for x in w['v']]
    elif w['t'] == 'built':
        weights = w['v']
    else:
        raise MachineryError('weights spec')
    cls = grid_class(spec['system'])
    g = cls(coords, weights)
    if spec.get('reversed'):
        g = g.reversed()        # separated/unstructured: the stored arrays become negative-stride views
    if spec.get('weights') is not None and spec['weights']['t'] == 'auto':
        with warnings.catch_warnings():
            warnings.simplefilter('ignore')
            try:
                g.weights       # materialise the automatic weights before writing
            except (IndexError, NotImplementedError):
                pass            # separated axis of length one / base class Grid: no automatic weights; stays None
    return g


def grid_size(spec):
    if spec['kind'] == 'regular':
        return int(np.prod(spec['dims']))
    if spec['kind'] == 'separated':
        return int(np.prod([len(a) for a in spec['axes']]))
    return len(spec['axes'][0])


class _NewStyle:
    def __init__(self, on):
        self.on = on

    def __enter__(self):
        if self.on:
            import hcipy
            hcipy.Configuration().core.use_new_style_fields = True

    def __exit__(self, *a):
        if self.on:
            import hcipy
            hcipy.Configuration().core.use_new_style_fields = False


LAYOUTS = ['C', 'F', 'P', 'strided', 'neg']


def apply_layout(vals, layout):
    """The same logical array in a chosen memory layout:
    C = C-contiguous; F = Fortran-contiguous (what `per_point_vectors.T` is); P = the last axis stored
    first and the others C-ordered behind it (`np.moveaxis(per_point_tensors, 0, -1)`; for tensor order
    2 neither C- nor F-contiguous); strided = every other element of a wider buffer along the last axis;
    neg = negative stride along the last axis."""
    vals = np.ascontiguousarray(vals)
    if layout == 'C' or vals.ndim == 0:
        out = vals
    elif layout == 'F':
        out = np.asfortranarray(vals)
    elif layout == 'P':
        out = np.moveaxis(np.ascontiguousarray(np.moveaxis(vals, -1, 0)), 0, -1)
    elif layout == 'strided':
        big = np.zeros(vals.shape[:-1] + (2 * vals.shape[-1],), dtype=vals.dtype)
        big[..., ::2] = vals
        out = big[..., ::2]
    elif layout == 'neg':
        out = np.ascontiguousarray(vals[..., ::-1])[..., ::-1]
    else:
        raise MachineryError('layout ' + str(layout))
    if out.shape != vals.shape or not np.array_equal(out, vals):
        raise MachineryError('apply_layout changed the logical array')
    return out


def spec_layout(spec):
    return spec.get('layout') or ('strided' if spec.get('noncontig') else 'C')


def build_field(spec):
    import hcipy
    g = build_grid(spec['grid'])
    shape = tuple(spec['tshape']) + (grid_size(spec['grid']),)
    n = int(np.prod(shape))
    base = with_border(_values(spec['dtype'], spec['vals'][:n], dyn_of(spec)).reshape(shape), spec.get('border'))
    vals = apply_layout(base, spec_layout(spec))
    if vals.dtype != base.dtype:
        raise MachineryError('layout lost the byte order')
    with _NewStyle(spec.get('newstyle')):
        return hcipy.Field(vals, g)


def build_basis(spec):
    import hcipy
    import scipy.sparse
    g = build_grid(spec['grid']) if spec['grid'] is not None else None
    n = grid_size(spec['grid']) if spec['grid'] is not None else spec['npoints']
    shape = tuple(spec['tshape']) + (n, spec['nmodes'])
    cnt = int(np.prod(shape))
    T = _values(spec['dtype'], spec['vals'][:cnt], dyn_of(spec)).reshape(shape)
    if spec['kind'] == 'dense':
        T = apply_layout(with_border(T, spec.get('border')), spec_layout(spec))
    if spec['kind'] == 'sparse':
        try:
            T = scipy.sparse.csc_matrix(with_border(T, spec.get('border')))
        except ValueError:
            # scipy.sparse refuses non-native byte order: such a sparse basis cannot exist; native instead
            T = scipy.sparse.csc_matrix(T)
        if spec.get('explicit_zero') and T.nnz:
            T.data[0] = 0
        if spec.get('ezero_step') and T.nnz:
            T.data[::int(spec['ezero_step'])] = 0     # many explicitly stored zeros, in every mode
    return hcipy.ModeBasis(T, g)


# ---------------------------------------------------------------------------------------------
# modifications through the public API after construction and before writing: the object that is written
# (and against which everything read back is compared) is the CURRENT one

def _mod_grid(g, op):
    k = op[0]
    if k == 'scale':
        if isinstance(g._weights, (list, tuple)):
            raise TypeError('list weights cannot be scaled in place')
        g.scale(op[1])
    elif k == 'shift':
        g.shift([op[1]] * g.ndim)
    elif k == 'reverse':
        g.reverse()
    elif k == 'weights-array':
        g.weights = np.arange(1, g.size + 1) / 4.0
    elif k == 'weights-scalar':
        g.weights = 0.75
    elif k == 'weights-none':
        g.weights = None
    elif k == 'weights-touch':
        g.weights                    # materialise the automatic weights
    else:
        raise MachineryError('grid mod ' + str(op))
    return g


def _new_modes(b, count, seed):
    """`count` new modes compatible with the basis (dense: tensor shape + (N, count); sparse: CSC N x count)"""
    import scipy.sparse
    T = b._transformation_matrix
    shape = tuple(T.shape[:-1]) + (count,)
    ints = (np.arange(int(np.prod(shape))) * 7 + seed) % 11 - 5
    if b.is_sparse:
        ints = ints * (np.arange(ints.size) % 2)
    dt = T.dtype.newbyteorder('=')
    return _values(dt.name, ints).reshape(shape)


def _mod_basis(b, op):
    import hcipy
    import scipy.sparse
    k = op[0]
    if k == 'append':
        m = _new_modes(b, 1, op[1])[..., 0]
        b.append(m)
    elif k == 'append-field' and b.grid is not None and not b.is_sparse:
        b.append(hcipy.Field(_new_modes(b, 1, op[1])[..., 0], b.grid))
    elif k == 'extend':
        m = _new_modes(b, op[2], op[1])
        b.extend(scipy.sparse.csc_matrix(m) if b.is_sparse else m)
    elif k == 'extend-basis':
        m = _new_modes(b, op[2], op[1])
        b.extend(hcipy.ModeBasis(scipy.sparse.csc_matrix(m) if b.is_sparse else m, b.grid))
    elif k == 'set-tm':
        m = _new_modes(b, op[2], op[1])
        b.transformation_matrix = scipy.sparse.csc_matrix(m) if b.is_sparse else m
    elif k == 'drop-last':
        b.transformation_matrix = b.transformation_matrix[..., :-1] if b.num_modes > 1 else b.transformation_matrix
    elif k == 'set-format':
        # the same matrix in another scipy.sparse storage format, assigned through the public setter (which stores what it
        # is given; the constructor, append and extend always store CSC).  Dense 2-D bases become sparse this way.
        T = b.transformation_matrix
        if not scipy.sparse.issparse(T) and T.ndim != 2:
            raise TypeError('tensor basis')
        if not scipy.sparse.issparse(T):
            T = np.ascontiguousarray(T).astype(T.dtype.newbyteorder('='))
        b.transformation_matrix = getattr(scipy.sparse, op[1])(T)
    elif k == 'imul':
        T = b.transformation_matrix
        if T.dtype.kind == 'b':
            raise TypeError('bool')
        T *= 2
        b.transformation_matrix = T
    elif k == 'grid-scale' and b.grid is not None:
        _mod_grid(b.grid, ['scale', 2.0])
    elif k == 'set-grid' and b.grid is not None:
        b.grid = b.grid.scaled(2.0) if not isinstance(b.grid._weights, (list, tuple)) else b.grid.copy()
    else:
        raise TypeError('not applicable: ' + str(op))
    return b


def _mod_field(f, op):
    k = op[0]
    kind = f.dtype.kind
    if k == 'imul':
        if kind == 'b':
            raise TypeError('bool')
        f *= 2
    elif k == 'iadd':
        if kind == 'b':
            raise TypeError('bool')
        f += 1
    elif k == 'setitem':
        f[..., op[1] % f.shape[-1]] = 1
    elif k == 'setslice':
        f[..., ::2] = 0
    elif k == 'astype':
        f = f.astype(op[1])
    elif k == 'regrid-scaled':
        f.grid = f.grid.scaled(2.0) if not isinstance(f.grid._weights, (list, tuple)) else f.grid.copy()
    elif k == 'regrid-reversed':
        f.grid = f.grid.reversed()
    elif k == 'grid-scale':
        _mod_grid(f.grid, ['scale', 2.0])
    elif k == 'grid-weights':
        _mod_grid(f.grid, ['weights-array'])
    else:
        raise MachineryError('field mod ' + str(op))
    return f


def apply_mods(spec, x, log=None):
    fn = {'grid': _mod_grid, 'field': _mod_field, 'basis': _mod_basis}[spec['what']]
    for op in spec.get('mods') or []:
        try:
            with warnings.catch_warnings():
                warnings.simplefilter('ignore')
                with _NewStyle(spec.get('newstyle')):
                    x = fn(x, op)
            if log is not None:
                log.append('applied:' + op[0])
        except MachineryError:
            raise
        except Exception as e:  # noqa  (the operation itself is not supported for this object: not C16's business)
            if log is not None:
                log.append('refused:%s:%s' % (op[0], type(e).__name__))
    return x


def build(spec, log=None):
    x = {'grid': build_grid, 'field': build_field, 'basis': build_basis}[spec['what']](spec)
    return apply_mods(spec, x, log)


GRID_MODS = [['scale', 2.0], ['scale', 0.5], ['scale', -2.0], ['shift', 0.5], ['reverse'], ['weights-array'], ['weights-scalar'],
             ['weights-none'], ['weights-touch'], ['weights-touch'], ['scale', 'odd'], ['scale', 'odd']]
FIELD_MODS = [['imul'], ['iadd'], ['setitem', 1], ['setslice'], ['astype', 'float32'], ['astype', 'int32'], ['regrid-scaled'],
              ['regrid-reversed'], ['grid-scale'], ['grid-weights']]
BASIS_MODS = [['append', 1], ['append-field', 2], ['extend', 3, 2], ['extend-basis', 4, 3], ['set-tm', 5, 2], ['drop-last'], ['imul'],
              ['grid-scale'], ['set-grid'], ['set-format', 'csr_matrix'], ['set-format', 'csr_matrix'], ['set-format', 'any']]
SPARSE_FORMATS = ['csr_matrix', 'csc_matrix', 'coo_matrix', 'bsr_matrix', 'lil_matrix', 'dia_matrix', 'dok_matrix', 'csr_array', 'coo_array',
                  'csc_array']


def gen_mods(rng, what):
    pool = {'grid': GRID_MODS, 'field': FIELD_MODS, 'basis': BASIS_MODS}[what]
    r = rng.random()
    n = 0 if r < 0.45 else (1 if r < 0.75 else (2 if r < 0.92 else 3))
    out = []
    for _ in range(n):
        op = list(pool[int(rng.integers(0, len(pool)))])
        if op[0] in ('append', 'append-field', 'extend', 'extend-basis', 'set-tm'):
            op[1] = int(rng.integers(0, 11))
        if op[0] in ('extend', 'extend-basis', 'set-tm'):
            op[2] = int(rng.integers(1, 4))
        if op[0] == 'setitem':
            op[1] = int(rng.integers(0, 50))
        if op[0] == 'set-format' and op[1] == 'any':
            op[1] = SPARSE_FORMATS[int(rng.integers(0, len(SPARSE_FORMATS)))]
        if op[0] == 'scale' and op[1] == 'odd':
            op[1] = [0.7, 1.0 / 3.0, 1.1, 2e-7][int(rng.integers(0, 4))]
        out.append(op)
    return out


# ---------------------------------------------------------------------------------------------
# generation

def _dy(rng, lo, hi):
    return int(rng.integers(lo * 8, hi * 8 + 1)) / 8.0


def gen_border(rng):
    return str(rng.choice(BORDERS, p=[0.5, 0.12, 0.38]))


def gen_chains(rng, n=2):
    """format chains A -> B -> C: the object read from A is written to B, read, written to C, read"""
    return [[FORMATS[int(i)] for i in rng.integers(0, len(FORMATS), size=3)] for _ in range(n)]


def gen_grid(rng, big=False, top_level=False):
    kind = ['regular', 'separated', 'unstructured'][int(rng.integers(0, 3))]
    ndim = int(rng.choice([1, 2, 2, 2, 3]))
    system = 'polar' if (ndim == 2 and rng.random() < 0.3) else 'cartesian'
    r = rng.random()
    if r < 0.1:
        system = 'none'         # the base class Grid (D161)
    elif r < 0.16 and top_level:
        system = 'other'        # unregistered user subclass: written, not readable (stated assumption)
    top = 7 if big else 5
    spec = {'what': 'grid', 'kind': kind, 'system': system}
    cd = 'float64'
    r = rng.random()
    if r < 0.12:
        cd = 'int64'
    elif r < 0.2 and kind != 'regular':
        cd = 'float32'
    spec['cdtype'] = cd
    if kind == 'regular':
        dims = [int(rng.integers(1, top)) for _ in range(ndim)]
        if cd == 'int64':
            spec['delta'] = [int(rng.integers(1, 4)) for _ in range(ndim)]
            spec['zero'] = [int(rng.integers(-3, 4)) for _ in range(ndim)]
        else:
            spec['delta'] = [_dy(rng, 0, 2) + 0.125 for _ in range(ndim)]
            spec['zero'] = [_dy(rng, -3, 3) for _ in range(ndim)]
        spec['dims'] = dims
    elif kind == 'separated':
        axes = []
        for _ in range(ndim):
            n = int(rng.integers(1, top))
            steps = rng.integers(1, 9, size=n)
            a = np.cumsum(steps) / (1.0 if cd == 'int64' else 4.0) + (0 if cd == 'int64' else _dy(rng, -2, 2))
            axes.append([float(x) for x in a])
        spec['axes'] = axes
    else:
        n = int(rng.integers(1, 3 * top))
        spec['axes'] = [[(float(int(x)) if cd == 'int64' else float(x) / 8.0) for x in rng.integers(-40, 41, size=n)] for _ in range(ndim)]
    size = grid_size(spec)
    r = rng.random()
    if r < 0.35:
        spec['weights'] = None
    elif r < 0.45:
        spec['weights'] = {'t': 'pyfloat', 'v': _dy(rng, 0, 4) + 0.125}
    elif r < 0.5:
        spec['weights'] = {'t': 'pyint', 'v': int(rng.integers(1, 5))}
    elif r < 0.57:
        spec['weights'] = {'t': 'npfloat', 'v': _dy(rng, 0, 4) + 0.125}
    elif r < 0.8:
        spec['weights'] = {'t': 'array', 'dtype': 'float32' if rng.random() < 0.25 else 'float64',
                           'v': [float(x) / 8.0 for x in rng.integers(1, 40, size=size)]}
    elif r < 0.85:
        spec['weights'] = {'t': 'list', 'v': [float(x) / 8.0 for x in rng.integers(1, 40, size=size)]}
    elif r < 0.93:
        # automatic weights, materialised before writing (unstructured grids have none: warning + 1)
        spec['weights'] = {'t': 'auto'}
    else:
        # explicit weights = factor x the automatic ones
        spec['weights'] = {'t': 'autox', 'f': AUTOX[int(rng.integers(0, len(AUTOX)))]}
    if rng.random() < 0.15 and cd != 'int64':
        spec['cscale'] = int(rng.choice([-20, -30, -40, -14, 10]))
    # dynamic range inside one array (round 6): element-wise powers of two on explicit weights and on the stored
    # coordinate arrays (2^+-60; float32 coordinates 2^+-20 so that automatic weights stay finite), subnormal weights
    if spec['weights'] is not None and spec['weights']['t'] in ('array', 'list') and rng.random() < 0.3:
        w = spec['weights']
        ex = rng.integers(-60, 61, size=size)
        if w['t'] == 'list' or w.get('dtype') == 'float64':
            ex = np.where(rng.random(size=size) < 0.15, -1070, ex)
        w['v'] = [float(np.ldexp(v, int(e))) for v, e in zip(w['v'], ex)]
        w['dyn'] = True
    if kind != 'regular' and cd != 'int64' and rng.random() < 0.2:
        top_e = 60 if cd == 'float64' else 20
        spec['axes'] = [[float(np.ldexp(v, int(e))) for v, e in zip(a, rng.integers(-top_e, top_e + 1, size=len(a)))] for a in spec['axes']]
        spec['cdyn'] = True
    spec['reversed'] = bool(rng.random() < 0.12)
    spec['cborder'] = gen_border(rng)
    spec['mods'] = gen_mods(rng, 'grid') if top_level else []
    if spec['weights'] is not None and spec['weights']['t'] == 'array':
        spec['weights']['border'] = gen_border(rng)
    return spec


def _tame(spec):
    """a float64 field that is cast to float32 afterwards must stay finite (no NaN/inf is sent to the model)"""
    if spec.get('dyn') and any(m[0] == 'astype' for m in spec.get('mods') or []):
        lo, hi = EXP_RANGE[4]
        spec['dyn']['e'] = [max(lo, min(hi - 1, e)) for e in spec['dyn']['e']]


AUTOX = [0.25, 1.0 + 2.0 ** -30, 1.0 - 2.0 ** -20, 4.0, 1.0, 1.0 + 2.0 ** -52]
TSHAPES = [[], [], [], [2], [3], [2, 2], [2, 1], [1], [3, 1], [2, 1, 2]]


def gen_field(rng, big=False):
    g = gen_grid(rng, big)
    ts = TSHAPES[int(rng.integers(0, len(TSHAPES)))]
    dt = FIELD_DTYPES[int(rng.integers(0, len(FIELD_DTYPES)))] if rng.random() < 0.7 else 'float64'
    n = int(np.prod(ts + [grid_size(g)]))
    spec = {'what': 'field', 'grid': g, 'tshape': ts, 'dtype': dt,
            'vals': [int(x) for x in rng.integers(-12, 13, size=n)],
            'layout': str(rng.choice(LAYOUTS, p=[0.3, 0.27, 0.15, 0.14, 0.14])), 'newstyle': bool(rng.random() < 0.3),
            'border': gen_border(rng), 'mods': gen_mods(rng, 'field')}
    if rng.random() < 0.3:
        spec['dyn'] = gen_exps(rng, n, grid_size(g))
        _tame(spec)
    return spec


def gen_basis(rng, big=False):
    g = gen_grid(rng, big) if rng.random() < 0.95 else None
    r = rng.random()
    kind = 'sparse' if r < 0.45 else 'dense'
    ts = [] if (kind == 'sparse' or rng.random() < 0.6) else TSHAPES[int(rng.integers(3, len(TSHAPES)))]
    nm = int(rng.choice([0, 1, 2, 3, 4, 5])) if rng.random() < 0.9 else 1
    dt = BASIS_DTYPES[int(rng.integers(0, len(BASIS_DTYPES)))] if rng.random() < 0.6 else 'float64'
    npoints = grid_size(g) if g is not None else int(rng.integers(1, 8))
    n = int(np.prod(ts + [npoints, nm]))
    vals = rng.integers(-12, 13, size=n)
    if kind == 'sparse':
        vals = vals * (rng.random(size=n) < 0.5)
    spec = {'what': 'basis', 'grid': g, 'npoints': npoints, 'kind': kind, 'tshape': ts, 'nmodes': nm, 'dtype': dt,
            'vals': [int(x) for x in vals], 'explicit_zero': bool(kind == 'sparse' and rng.random() < 0.3),
            'layout': 'C' if kind == 'sparse' else str(rng.choice(LAYOUTS, p=[0.3, 0.27, 0.15, 0.14, 0.14])),
            'border': gen_border(rng), 'mods': gen_mods(rng, 'basis')}
    if rng.random() < (0.45 if kind == 'sparse' else 0.3):
        spec['dyn'] = gen_exps(rng, n, npoints)
    if kind == 'sparse' and rng.random() < 0.2:
        spec['ezero_step'] = int(rng.integers(2, 4))
    return spec


def _g(kind, system='cartesian', **kw):
    d = {'what': 'grid', 'kind': kind, 'system': system, 'cdtype': 'float64', 'weights': None, 'reversed': False}
    d.update(kw)
    return d


_REG1 = _g('regular', delta=[0.5], dims=[4], zero=[0.25])
_REG2 = _g('regular', delta=[0.5, 0.25], dims=[4, 3], zero=[0.25, -1.0])
_REG3 = _g('regular', delta=[0.5, 0.25, 1.0], dims=[4, 3, 2], zero=[0.25, -1.0, 0.0])
_SEPR = _g('separated', axes=[[0.0, 1.0, 3.0], [0.0, 2.0]])
_SEPP = _g('separated', 'polar', axes=[[0.5, 1.0, 3.0], [0.0, 2.0]])
_SEP3 = _g('separated', axes=[[0.0, 1.0, 3.0], [2.0, 3.0], [1.0, 2.0, 3.0, 4.0]])
_UNS1 = _g('unstructured', axes=[[0.0, 1.0, 3.0, 4.0]])
_UNS2 = _g('unstructured', axes=[[0.0, 1.0, 3.0, 4.0], [0.0, 2.0, 5.0, 7.0]])
_UNS3 = _g('unstructured', axes=[[0.0, 1.0, 3.0, 4.0], [0.0, 2.0, 5.0, 7.0], [1.0, 2.0, 5.0, 7.0]], weights={'t': 'pyfloat', 'v': 2.0})
_SEQ = list(range(-12, 13)) * 8


def _f(grid, ts, dt='float64', **kw):
    d = {'what': 'field', 'grid': grid, 'tshape': ts, 'dtype': dt, 'vals': _SEQ, 'layout': 'C', 'newstyle': False}
    d.update(kw)
    return d


def _b(grid, kind, ts=(), nm=3, dt='float64', **kw):
    d = {'what': 'basis', 'grid': grid, 'npoints': 5, 'kind': kind, 'tshape': list(ts), 'nmodes': nm, 'dtype': dt,
         'vals': [v if v % 3 else 0 for v in _SEQ], 'explicit_zero': False, 'layout': 'C'}
    d.update(kw)
    return d


def _dyn(profile, seed=0, n=200):
    return gen_exps(np.random.default_rng(1000 + seed), n, n, profile)


_WIDE_W = [float(np.ldexp(v, e)) for v, e in zip([1.0, 2.0, 3.0, 4.0, 5.0, 6.0], [0, -60, 60, -1070, 30, -53])]

DIRECTED = [
    _REG1, _REG2, _REG3, _SEPR, _SEPP, _SEP3, _UNS1, _UNS2, _UNS3,
    dict(_REG2, weights={'t': 'auto'}), dict(_SEPR, weights={'t': 'auto'}), dict(_SEPP, weights={'t': 'auto'}),
    dict(_UNS2, weights={'t': 'array', 'dtype': 'float64', 'v': [1.0, 2.0, 3.0, 4.0]}),
    dict(_SEPR, weights={'t': 'array', 'dtype': 'float32', 'v': [1.0, 2.0, 3.0, 4.0, 5.0, 6.0]}),
    dict(_SEPR, reversed=True), dict(_UNS2, reversed=True), dict(_REG2, reversed=True),
    _g('unstructured', 'polar', axes=[[0.5, 1.0, 3.0], [0.0, 2.0, 5.0]]),
    _g('regular', delta=[1, 2], dims=[3, 2], zero=[0, 1], cdtype='int64'),
    # fields: scalar / vector / tensor on every grid kind (D19: tensor fields on non-separated grids)
    _f(_REG2, []), _f(_REG2, [2]), _f(_REG2, [2, 2]), _f(_SEP3, [2]), _f(_SEPP, [2, 2], 'float32'),
    _f(_UNS1, [2, 2]), _f(_UNS2, []), _f(_UNS2, [2]), _f(_UNS2, [2, 2]), _f(_UNS2, [3, 1]), _f(_UNS2, [1]), _f(_UNS3, [2, 2]),
    _f(_REG2, [2], 'complex128'), _f(_REG2, [], 'bool'), _f(_UNS2, [2], 'complex64'), _f(_UNS2, [], 'bool'),
    _f(_REG2, [], 'uint16'), _f(_REG2, [2], 'int8'), _f(_REG2, [], 'float16'),
    _f(_REG2, [2], layout='strided'), _f(_REG2, [2], newstyle=True), _f(_UNS2, [2], newstyle=True),
    # memory layouts (seeded class C16-2: Fortran-ordered tensor fields through pickle), both field styles
    _f(_REG2, [2], layout='F'), _f(_REG2, [2], layout='F', newstyle=True), _f(_UNS2, [2, 2], layout='F'),
    _f(_UNS2, [2, 2], layout='F', newstyle=True), _f(_SEPR, [2, 2], layout='P'), _f(_SEPR, [2, 2], layout='P', newstyle=True),
    _f(_REG2, [3], 'complex128', layout='F'), _f(_REG2, [2], 'int16', layout='neg'), _f(_UNS2, [2], layout='neg', newstyle=True),
    _f(_REG2, [2, 1, 2], 'float32', layout='F'), _f(_REG2, [], layout='neg'), _f(_REG2, [2], layout='strided', newstyle=True),
    # mode bases (D14: sparse + image path; D160: tensor basis + image path)
    _b(_REG2, 'dense'), _b(_REG2, 'sparse'), _b(_REG1, 'sparse', dt='float32'), _b(_REG3, 'sparse', dt='int64'),
    _b(_REG2, 'sparse', explicit_zero=True), _b(_REG2, 'dense', ts=[2]), _b(_REG1, 'dense', ts=[2, 2], dt='int32'),
    _b(_REG2, 'dense', nm=0), _b(_SEPR, 'dense'), _b(_SEPR, 'sparse'), _b(_UNS2, 'dense'), _b(_UNS2, 'sparse'),
    _b(_UNS2, 'dense', ts=[2]), _b(None, 'dense'), _b(None, 'sparse'), _b(_REG2, 'dense', dt='complex128'),
    _b(_REG2, 'sparse', dt='bool'),
    # objects modified through their public API after construction (seeded class C16-6: a writer consulting a stale cache)
    _b(_REG2, 'sparse', mods=[['append', 1]]), _b(_REG2, 'sparse', mods=[['extend', 3, 2]]), _b(_REG2, 'sparse', mods=[['set-tm', 5, 2]]),
    _b(_REG2, 'sparse', mods=[['extend-basis', 4, 3], ['append', 2]]), _b(_REG1, 'sparse', dt='float32', mods=[['drop-last']]),
    _b(_REG2, 'sparse', mods=[['imul']]), _b(_UNS2, 'sparse', mods=[['append', 1]]), _b(_SEPR, 'sparse', mods=[['extend', 1, 1]]),
    _b(_REG2, 'dense', mods=[['append', 1]]), _b(_REG2, 'dense', mods=[['append-field', 2]]), _b(_REG2, 'dense', mods=[['extend', 3, 2]]),
    _b(_REG2, 'dense', ts=[2], mods=[['append', 3], ['set-grid']]), _b(_REG2, 'dense', mods=[['set-tm', 5, 1]]), _b(_REG2, 'dense', mods=[['imul'], ['grid-scale']]),
    _b(_REG2, 'dense', nm=0, mods=[['append', 4]]), _b(_UNS2, 'dense', mods=[['extend-basis', 2, 2]]),
    dict(_REG2, mods=[['scale', 2.0]]), dict(_REG2, mods=[['shift', 0.5], ['reverse']]), dict(_SEPR, mods=[['scale', -2.0]]),
    dict(_SEPP, mods=[['scale', 2.0]]), dict(_UNS2, mods=[['shift', 0.5], ['weights-array']]), dict(_REG2, mods=[['weights-touch'], ['scale', 0.5]]),
    dict(_SEPR, mods=[['weights-array'], ['weights-none']]), dict(_UNS3, mods=[['scale', 2.0], ['weights-scalar']]), dict(_SEP3, mods=[['reverse']]),
    _f(_REG2, [2], mods=[['imul']]), _f(_REG2, [], 'int16', mods=[['iadd'], ['setitem', 3]]), _f(_UNS2, [2, 2], mods=[['setslice']]),
    _f(_REG2, [2], mods=[['astype', 'float32']]), _f(_REG2, [], mods=[['regrid-scaled']]), _f(_SEPR, [2], mods=[['regrid-reversed']]),
    _f(_REG2, [2], mods=[['grid-scale']]), _f(_UNS2, [], mods=[['grid-weights']]), _f(_REG2, [2], newstyle=True, mods=[['imul'], ['setitem', 2]]),
    _f(_REG2, [2], layout='F', mods=[['iadd']]), _f(_REG2, [2], border='>', mods=[['imul']]), _f(_REG2, [], newstyle=True, mods=[['astype', 'int32']]),
    # byte order as an input dimension (seeded class: a field that already holds big-endian values, e.g. read from FITS)
    _f(_REG2, [], border='>'), _f(_REG2, [2], border='>'), _f(_SEPR, [2, 2], 'float32', border='>'), _f(_REG2, [], 'int16', border='>'),
    _f(_REG2, [], 'int32', border='>'), _f(_REG2, [2], 'uint16', border='>'), _f(_UNS2, [2], border='>'), _f(_REG2, [2], 'complex128', border='>'),
    _f(_REG2, [2], border='>', newstyle=True), _f(_REG2, [2], border='>', layout='F'), _f(_REG2, [], border='<'), _f(_REG2, [], 'int64', border='>'),
    dict(_SEPR, cborder='>'), dict(_UNS2, cborder='>'), dict(_REG2, cborder='>'),
    dict(_UNS2, weights={'t': 'array', 'dtype': 'float64', 'v': [1.0, 2.0, 3.0, 4.0], 'border': '>'}),
    _f(dict(_SEPR, cborder='>'), [2], border='>'),
    _b(_REG2, 'dense', border='>'), _b(_UNS2, 'dense', border='>'), _b(_REG2, 'dense', ts=[2], border='>', dt='float32'), _b(_REG2, 'sparse', border='>'),
    _b(_REG2, 'dense', layout='F'), _b(_UNS2, 'dense', layout='F'), _b(_REG2, 'dense', ts=[2], layout='F'),
    _b(_UNS2, 'dense', ts=[2], layout='P'), _b(_REG2, 'dense', layout='neg'), _b(_SEPR, 'dense', layout='strided'),
    # round 4: the base class Grid (coordinate system 'none', D161) as grid, under fields and under mode bases
    dict(_REG2, system='none'), dict(_SEPR, system='none', weights={'t': 'pyfloat', 'v': 2.0}),
    dict(_UNS2, system='none', weights={'t': 'array', 'dtype': 'float64', 'v': [1.0, 2.0, 3.0, 4.0]}),
    dict(_REG1, system='none', weights={'t': 'npfloat', 'v': 0.5}), dict(_REG2, system='none', mods=[['reverse']]),
    _f(dict(_REG2, system='none'), [2]), _f(dict(_UNS2, system='none'), [2, 2]), _f(dict(_SEPR, system='none'), [], 'int16', layout='F'),
    _b(dict(_REG2, system='none'), 'dense'), _b(dict(_REG2, system='none'), 'sparse'), _b(dict(_UNS2, system='none'), 'dense', ts=[2]),
    # round 4: an unregistered user subclass (system 'other'): written by asdf/fits, read_grid raises KeyError; pickle works
    dict(_REG2, system='other'), dict(_UNS2, system='other', weights={'t': 'pyfloat', 'v': 2.0}), dict(_SEPR, system='other'),
    # round 4: NumPy-scalar weights (asdf stores a plain number: Grid.pyWeights in the model)
    dict(_REG2, weights={'t': 'npfloat', 'v': 2.5}), _f(dict(_SEPR, weights={'t': 'npfloat', 'v': 0.75}), [2]),
    _b(dict(_REG2, weights={'t': 'npfloat', 'v': 1.5}), 'sparse'),
    # round 5: sparse storage formats assigned through the transformation_matrix setter (D162: CSR written as if CSC)
    _b(_REG2, 'sparse', mods=[['set-format', 'csr_matrix']]), _b(_UNS2, 'sparse', mods=[['set-format', 'csr_matrix']]),
    _b(_SEPR, 'sparse', mods=[['set-format', 'csr_matrix']]), _b(_UNS2, 'sparse', nm=4, mods=[['set-format', 'csr_matrix']]),
    _b(_REG1, 'sparse', nm=4, mods=[['set-format', 'csr_matrix']]), _b(_UNS2, 'sparse', mods=[['set-format', 'bsr_matrix']]),
    _b(_UNS2, 'sparse', mods=[['set-format', 'coo_matrix']]), _b(_REG2, 'sparse', mods=[['set-format', 'lil_matrix']]),
    _b(_UNS2, 'sparse', mods=[['set-format', 'dia_matrix']]), _b(_REG2, 'sparse', mods=[['set-format', 'dok_matrix']]),
    _b(_UNS2, 'sparse', mods=[['set-format', 'csr_array']]), _b(_UNS2, 'dense', mods=[['set-format', 'csr_matrix']]),
    _b(_REG2, 'dense', mods=[['set-format', 'csc_matrix']]), _b(_UNS2, 'sparse', mods=[['set-format', 'csr_matrix'], ['append', 1]]),
    _b(_UNS2, 'sparse', dt='float32', mods=[['append', 1], ['set-format', 'csr_matrix']]), _b(_UNS2, 'sparse', mods=[['set-format', 'csc_array']]),
    # round 5: small physical scales and explicit weights close to the automatic ones (seeded class C16-8: weights dropped
    # from the dictionary when within a tolerance of the automatic ones), weights cached before an in-place scale()
    dict(_REG2, cscale=-20, weights={'t': 'autox', 'f': 0.25}), dict(_SEPR, cscale=-20, weights={'t': 'autox', 'f': 0.25}),
    dict(_SEPR, cscale=-30, weights={'t': 'array', 'dtype': 'float64', 'v': [1.0, 2.0, 3.0, 4.0, 5.0, 6.0]}),
    dict(_REG2, weights={'t': 'autox', 'f': 1.0 + 2.0 ** -30}), dict(_SEPR, weights={'t': 'autox', 'f': 1.0 - 2.0 ** -20}),
    dict(_SEPP, weights={'t': 'autox', 'f': 1.0 + 2.0 ** -30}), dict(_REG3, weights={'t': 'autox', 'f': 1.0 + 2.0 ** -52}),
    dict(_REG2, cscale=-14, weights={'t': 'pyfloat', 'v': 2.0 ** -40}), dict(_REG2, cscale=-30), dict(_SEP3, cscale=-40), dict(_UNS2, cscale=-30),
    _f(dict(_REG2, cscale=-40), [2]), _b(dict(_UNS2, cscale=-30), 'sparse'), dict(_REG2, mods=[['weights-touch'], ['scale', 0.7]]),
    dict(_g('regular', delta=[0.02, 0.02], dims=[5, 5], zero=[-0.04, -0.04]), mods=[['weights-touch'], ['scale', 0.7]]),
    dict(_SEPR, mods=[['weights-touch'], ['scale', 1.0 / 3.0]]), dict(_REG2, mods=[['weights-touch'], ['scale', 2e-7]]),
    dict(_SEPR, weights={'t': 'autox', 'f': 0.25}, mods=[['scale', 2e-7]]),
    _f(dict(_SEPR, cscale=-20, weights={'t': 'autox', 'f': 0.25}), [2]), _b(dict(_REG2, cscale=-20, weights={'t': 'autox', 'f': 4.0}), 'sparse'),
    _f(dict(_REG2, weights={'t': 'autox', 'f': 1.0 + 2.0 ** -30}), []), _b(dict(_SEPR, weights={'t': 'autox', 'f': 1.0 - 2.0 ** -20}), 'dense'),
    # round 6: dynamic range inside one object (seeded class C16-11: a conversion that drops what is small relative to the
    # largest element of the same mode): every profile x sparse / dense / tensor bases, fields, weights, coordinates
    _b(_REG2, 'sparse', dyn=_dyn('tiny-in-mode', 1)), _b(_REG2, 'sparse', dyn=_dyn('wide60', 2)), _b(_REG2, 'sparse', dyn=_dyn('huge-in-mode', 3)),
    _b(_REG2, 'sparse', dyn=_dyn('subnormal', 4)), _b(_REG2, 'sparse', dyn=_dyn('extremes', 5)), _b(_REG1, 'sparse', dt='float32', dyn=_dyn('tiny-in-mode', 6)),
    _b(_REG3, 'sparse', dt='complex128', dyn=_dyn('wide60', 7)), _b(_REG2, 'sparse', dt='int64', dyn=_dyn('wide60', 8)),
    _b(_REG2, 'sparse', dyn=_dyn('tiny-in-mode', 9), ezero_step=2), _b(_REG2, 'sparse', ezero_step=2), _b(_UNS2, 'sparse', ezero_step=3, dyn=_dyn('wide60', 10)),
    _b(_UNS2, 'sparse', dyn=_dyn('tiny-in-mode', 11)), _b(_SEPR, 'sparse', dyn=_dyn('tiny-in-mode', 12)), _b(None, 'sparse', dyn=_dyn('tiny-in-mode', 13)),
    _b(_REG2, 'sparse', dyn=_dyn('tiny-in-mode', 14), mods=[['set-format', 'csr_matrix']]), _b(_UNS2, 'sparse', dyn=_dyn('subnormal', 15), mods=[['set-format', 'csr_matrix']]),
    _b(_REG2, 'sparse', dyn=_dyn('wide60', 16), mods=[['append', 1]]), _b(_REG2, 'dense', dyn=_dyn('tiny-in-mode', 17), mods=[['set-format', 'csc_matrix']]),
    _b(_REG2, 'dense', dyn=_dyn('tiny-in-mode', 18)), _b(_REG2, 'dense', dyn=_dyn('subnormal', 19)), _b(_REG2, 'dense', ts=[2], dyn=_dyn('wide60', 20)),
    _b(_UNS2, 'dense', dyn=_dyn('extremes', 21)), _b(_REG2, 'dense', dt='float32', dyn=_dyn('subnormal', 22), border='>'),
    _b(_REG2, 'dense', dt='complex128', dyn=_dyn('tiny-in-mode', 23), layout='F'), _b(_REG2, 'dense', dt='int32', dyn=_dyn('wide60', 24)),
    _f(_REG2, [], dyn=_dyn('tiny-in-mode', 25)), _f(_REG2, [2], dyn=_dyn('wide60', 26)), _f(_REG2, [2, 2], dyn=_dyn('subnormal', 27)),
    _f(_UNS2, [2], dyn=_dyn('extremes', 28)), _f(_SEPR, [], 'float32', dyn=_dyn('subnormal', 29)), _f(_REG2, [], 'float16', dyn=_dyn('wide60', 30)),
    _f(_REG2, [2], 'complex128', dyn=_dyn('huge-in-mode', 31)), _f(_REG2, [], 'complex64', dyn=_dyn('subnormal', 32)),
    _f(_REG2, [], 'int64', dyn=_dyn('wide60', 33)), _f(_REG2, [2], 'uint64', dyn=_dyn('wide60', 34)), _f(_REG2, [], 'uint32', dyn=_dyn('wide60', 35)),
    _f(_REG2, [2], 'int16', dyn=_dyn('wide60', 36)), _f(_REG2, [2], dyn=_dyn('wide60', 37), layout='F', border='>'),
    _f(_REG2, [2], dyn=_dyn('tiny-in-mode', 38), newstyle=True, mods=[['imul']]),
    dict(_SEPR, weights={'t': 'array', 'dtype': 'float64', 'v': _WIDE_W, 'dyn': True}), dict(_UNS2, weights={'t': 'array', 'dtype': 'float64', 'v': _WIDE_W[:4], 'dyn': True}),
    dict(_REG2, weights={'t': 'list', 'v': _WIDE_W + _WIDE_W, 'dyn': True}), dict(_SEPR, weights={'t': 'array', 'dtype': 'float32', 'v': _WIDE_W, 'dyn': True}),
    _g('unstructured', axes=[[2.0 ** -60, 1.0, 2.0 ** 60, -2.0 ** -1070], [0.0, 2.0 ** -1074, 5.0, 2.0 ** 1000]], cdyn=True),
    _g('separated', axes=[[-2.0 ** 60, 2.0 ** -60, 3.0], [2.0 ** -1074, 2.0]], cdyn=True),
    _f(_g('unstructured', axes=[[2.0 ** -60, 1.0, 2.0 ** 60, 3.0], [0.0, 2.0, 5.0, 2.0 ** -500]], cdyn=True), [2], dyn=_dyn('wide60', 39)),
]


# what an existing file holds before it is overwritten (round 6: overwrite spellings)
DECOY = {'grid': _g('regular', delta=[2.0], dims=[3], zero=[1.0]), 'field': _f(_g('regular', delta=[2.0], dims=[3], zero=[1.0]), []),
         'basis': _b(_g('regular', delta=[2.0], dims=[3], zero=[1.0]), 'dense', nm=2)}


# ---------------------------------------------------------------------------------------------
# structural signatures (the oracle's notion of "equal") and snapshots

def _arr_sig(a, exact_dtype=False):
    a = np.asarray(a)
    dt = a.dtype.str if exact_dtype else a.dtype.newbyteorder('=').str.lstrip('<>|=')
    return (dt, tuple(a.shape), np.ascontiguousarray(a).astype(a.dtype.newbyteorder('=')).tobytes())


def _weights_sig(w):
    if w is None:
        return ('none',)
    if isinstance(w, np.ndarray) and w.ndim > 0:
        return ('array',) + _arr_sig(w)
    if isinstance(w, (list, tuple)):
        return ('list', tuple(float(x) for x in w))
    if np.isscalar(w) or (isinstance(w, np.ndarray) and w.ndim == 0):
        return ('scalar', float(w))     # np.float64 / float / int are the same weight
    return ('other', repr(type(w)))


def grid_sig(g):
    if g is None:
        return ('no-grid',)
    c = g.coords
    cls = type(c).__name__
    if cls == 'RegularCoords':
        body = (tuple(float(x) for x in c.delta), tuple(int(x) for x in c.dims), tuple(float(x) for x in c.zero),
                np.asarray(c.delta).dtype.kind, np.asarray(c.zero).dtype.kind)
    elif cls == 'SeparatedCoords':
        body = tuple(_arr_sig(a) for a in c.separated_coords)
    else:
        body = tuple(_arr_sig(a) for a in c.coords)
    return (type(g).__name__, g._coordinate_system, cls, body, _weights_sig(g._weights))


def field_sig(f):
    return (type(f).__name__, _arr_sig(np.asarray(f)), tuple(int(x) for x in f.tensor_shape), grid_sig(f.grid))


def basis_sig(b):
    if b.is_sparse:
        T = b.transformation_matrix
        body = ('sparse', tuple(T.shape), T.dtype.newbyteorder('=').str.lstrip('<>|='), _arr_sig(T.toarray())[2])
    else:
        body = ('dense',) + _arr_sig(b.transformation_matrix)
    return (body, grid_sig(b.grid))


SIG = {'grid': grid_sig, 'field': field_sig, 'basis': basis_sig}
CLAUSES = {'grid': ['class', 'coordinate-system', 'coords-class', 'coordinates', 'weights'],
           'field': ['class', 'values', 'tensor-shape', 'grid'],
           'basis': ['matrix', 'grid']}


def first_difference(what, a, b):
    for name, x, y in zip(CLAUSES[what], a, b):
        if x != y:
            if what == 'basis' and name == 'matrix':
                if x[0] != y[0]:
                    return 'storage-kind'
                i = 1 if x[0] == 'sparse' else 2
                return 'shape' if x[i] != y[i] else 'values'
            if name == 'values' and x[:2] == y[:2]:
                return 'values'
            if name == 'values':
                return 'dtype' if x[1] == y[1] else 'shape'
            return name
    return None


def _raw(a):
    a = np.asarray(a)
    return (a.dtype.str, tuple(a.shape), tuple(a.strides), a.tobytes())


def snapshot(what, x):
    """Everything observable about the object that writing could alter: raw bytes, exact dtypes,
    the lazily computed weights, attribute names."""
    if what == 'grid':
        if x is None:
            return None
        c = x.coords
        arrays = {k: ([_raw(a) for a in v] if isinstance(v, list) else _raw(v)) for k, v in c.__dict__.items()}
        w = x._weights
        ws = ('none',) if w is None else ((type(w).__name__,) + _raw(w))
        return (type(x).__name__, sorted(x.__dict__), arrays, ws)
    if what == 'field':
        return (type(x).__name__, _raw(np.asarray(x)), snapshot('grid', x.grid))
    T = x._transformation_matrix
    if x.is_sparse:
        body = ('sparse', type(T).__name__, T.format, tuple(T.shape), T.dtype.str, T.toarray().tobytes()) + tuple(
            _raw(getattr(T, a)) for a in _SPARSE_ATTRS.get(T.format, ()))
    else:
        body = ('dense', _raw(T))
    return (body, sorted(x.__dict__), snapshot('grid', x.grid))


_SPARSE_ATTRS = {'csc': ('data', 'indices', 'indptr'), 'csr': ('data', 'indices', 'indptr'), 'bsr': ('data', 'indices', 'indptr'),
                 'coo': ('data', 'row', 'col'), 'dia': ('data', 'offsets')}


def arrays_of(what, x):
    """every ndarray the object stores (for the shared-memory check of in-memory round trips)"""
    if x is None:
        return []
    if what == 'grid':
        out = []
        for v in x.coords.__dict__.values():
            out += [a for a in (v if isinstance(v, list) else [v]) if isinstance(a, np.ndarray)]
        if isinstance(x._weights, np.ndarray):
            out.append(x._weights)
        return out
    if what == 'field':
        return [np.asarray(x)] + arrays_of('grid', x.grid)
    T = x._transformation_matrix
    return ([getattr(T, a) for a in _SPARSE_ATTRS.get(T.format, ())] if x.is_sparse else [T]) + arrays_of('grid', x.grid)


def shares_memory(what, x, y):
    return any(np.shares_memory(a, b) for a in arrays_of(what, x) for b in arrays_of(what, y))


# ---------------------------------------------------------------------------------------------
# the real code

def _io():
    import hcipy
    return {'grid': (hcipy.write_grid, hcipy.read_grid, hcipy.Grid),
            'field': (hcipy.write_field, hcipy.read_field, hcipy.Field),
            'basis': (hcipy.write_mode_basis, hcipy.read_mode_basis, hcipy.ModeBasis)}


def grid_of(what, x):
    return x if what == 'grid' else x.grid


def class_key(spec):
    """Short stable description of the input class (used in violation keys)."""
    what = spec['what']
    g = spec if what == 'grid' else spec['grid']
    gk = 'no-grid' if g is None else g['kind']
    if g is not None and g['system'] == 'none':
        gk = 'base-grid-' + gk
    if g is not None and g['system'] == 'other':
        gk = 'unregistered-' + gk
    if what == 'grid':
        return gk
    tensor = 'tensor' if spec['tshape'] else 'scalar'
    if what == 'basis':
        return '%s:%s:%s' % (gk, tensor, spec['kind'])
    return '%s:%s' % (gk, tensor)


def is_ragged(g):
    return g is not None and g['kind'] == 'separated' and len(set(len(a) for a in g['axes'])) > 1


def raw_tree(fn, fmt, key):
    """The tree the ASDF library hands back for a file hcipy wrote (what read_* passes to from_dict), encoded."""
    import sys
    import asdf
    import hcipy  # noqa
    hio = sys.modules['hcipy.util.io']
    if fmt == 'asdf':
        params = {'memmap': False} if hio.use_asdf_memmap else {'copy_arrays': True}
        with asdf.open(fn, **params) as af:
            return encode(af.tree[key])
    from astropy.io import fits
    with fits.open(fn, memmap=False) as hd:
        return encode(hio._bintable_to_asdf(hd['ASDF']).tree[key])


TREE_KEY = {'grid': 'grid', 'field': 'field', 'basis': 'mode_basis'}


def sniff(fn):
    """the format of a file, from its first bytes"""
    with open(fn, 'rb') as f:
        h = f.read(8)
    if h.startswith(b'#ASDF'):
        return 'asdf'
    if h.startswith(b'SIMPLE') or h.startswith(b'\x1f\x8b'):     # astropy gzips FITS files named *.gz
        return 'fits'
    if h[:1] == b'\x80':
        return 'pickle'
    return 'other'


def getstate_obs(x):
    """The real Field.__getstate__(): (shape, dtype tag, Fortran flag, bytes decoded with the dtype), and the memory
    layout class of the data as NumPy reports it (input of the model)."""
    a = np.asarray(x)
    lay = 'f' if (a.flags.f_contiguous and not a.flags.c_contiguous) else 'c'
    st = x.__getstate__()
    shape, dt, isf, raw = st[1], st[2], st[3], st[4]
    flat = np.frombuffer(raw, dtype=dt)
    tag = dt.newbyteorder('=').str.lstrip('<>|=')
    return lay, 'ok shape=[%s] dtype=%s fortran=%s raw=%s' % (','.join(str(int(n)) for n in shape), tag, 'T' if isf else 'F', enc_arr(flat))


HOOKS = ('__reduce__', '__reduce_ex__', '__getstate__', '__setstate__', '__getnewargs__', '__getnewargs_ex__', '__copy__', '__deepcopy__')


def reduce_obs(what, x):
    """Which pickling hooks the classes of the object define themselves (not inherited from object / ndarray), and whether
    the default reduction hands over exactly `__dict__`.  Returns a list of findings (empty = as assumed)."""
    import hcipy
    out = []
    objs = [('grid', grid_of(what, x))] if what != 'grid' else [('grid', x)]
    if what == 'basis':
        objs.append(('basis', x))
    for name, o in objs:
        if o is None:
            continue
        for klass in type(o).__mro__:
            if klass in (object,):
                continue
            own = [h for h in HOOKS if h in vars(klass)]
            if own:
                out.append('%s: class %s defines %s' % (name, klass.__name__, ','.join(own)))
        for proto in range(pickle.HIGHEST_PROTOCOL + 1):
            try:
                r = o.__reduce_ex__(proto)
                state = r[2] if len(r) > 2 else None
                if not (isinstance(state, dict) and state.keys() == o.__dict__.keys() and all(state[k] is o.__dict__[k] for k in state)):
                    out.append('%s: __reduce_ex__(%d) state is not __dict__' % (name, proto))
            except Exception as e:  # noqa
                out.append('%s: __reduce_ex__(%d) raised %s' % (name, proto, type(e).__name__))
    if what == 'field':
        # Field defines __reduce__/__getstate__/__setstate__ (modelled: getState / setState); any further hook is unmodelled
        extra = [h for h in HOOKS if h not in ('__reduce__', '__getstate__', '__setstate__') and any(
            h in vars(k) for k in type(x).__mro__ if k.__module__.startswith('hcipy'))]
        if extra:
            out.append('field: hcipy defines unmodelled pickling hooks %s' % ','.join(extra))
    return out


def _vals_of(what, x):
    """the array holding the values of a field / the matrix entries of a mode basis (None for grids)"""
    if what == 'field':
        return np.asarray(x)
    if what == 'basis':
        T = x._transformation_matrix
        return T.data if hasattr(T, 'indptr') or hasattr(T, 'row') else (np.asarray(T) if isinstance(T, np.ndarray) else None)
    return None


def _num_list(a, n=6):
    """the first values of an array as exact protocol numbers (real kinds only)"""
    a = np.asarray(a)
    if a.dtype.kind not in 'biuf':
        return '[]'
    flat = np.ascontiguousarray(a).ravel()[:n]
    if a.dtype.kind == 'b':
        return '[' + ','.join('1' if v else '0' for v in flat) + ']'
    if a.dtype.kind in 'iu':
        return '[' + ','.join(str(int(v)) for v in flat) + ']'
    if not np.all(np.isfinite(flat.astype('float64'))):
        return '[]'
    return '[' + ','.join(rat(float(v)) for v in flat) + ']'


def dtype_obs(obs, what, route, x, y, fn=None):
    """record, for the model's readDType / fitsCard: the dtype written, the dtype of what was read back through `route`,
    and for FITS images the BITPIX / BZERO cards and the numbers actually stored in the file"""
    a, b = _vals_of(what, x), _vals_of(what, y) if y is not None else None
    if a is None or (y is not None and b is None) or a.dtype.kind not in 'biufc':
        return
    rec = {'route': route, 'd': a.dtype.str, 'vals': _num_list(a), 'read': None if y is None else b.dtype.str}
    if route == 'pickle-object' and rec['read'] is not None:
        rec['read'] = b.dtype.newbyteorder('=').str        # compared up to byte order (see Route.pickleObject)
    if fn is not None and route.startswith('fits-image') and y is not None:
        from astropy.io import fits
        with fits.open(fn, memmap=False, do_not_scale_image_data=True) as hd:
            h = hd[0].header
            rec['card'] = '%d/%d' % (int(h['BITPIX']), int(h.get('BZERO', 0)))
            raw = np.array(hd[0].data)
        if what == 'basis':
            # image axes (mode, tensor..., grid...): bring the stored numbers into the order of the matrix
            T = x.to_dense().transformation_matrix
            raw = np.moveaxis(raw.reshape((T.shape[-1],) + tuple(T.shape[:-1])), 0, -1)
            rec['vals'] = _num_list(T)
        else:
            raw = raw.reshape(np.asarray(x).shape)
        rec['stored'] = _num_list(raw)
    obs.setdefault('dtypes', []).append(rec)


def round_trips(spec, tmpdir):
    """Run every round trip of one object.  Returns (observations, failures); a failure is
    (key, what-text).  Observations feed the correspondence."""
    what = spec['what']
    write, read, cls = _io()[what]
    sig = SIG[what]
    fails = []
    obs = {'fmt': {}}
    with warnings.catch_warnings():
        warnings.simplefilter('ignore')
        modlog = []
        x = build(spec, modlog)
        obs['mods'] = modlog
        ref = sig(x)
        snap0 = snapshot(what, x)
        ck = class_key(spec)
        gspec = spec if what == 'grid' else spec['grid']
        unreg = gspec is not None and gspec['system'] == 'other'
        gobj = grid_of(what, x)

        def wnone():
            return '-' if gobj is None else ('N' if gobj._weights is None else 'S')

        obs['wnone'] = {'before': wnone()}
        # is `_weights` a NumPy scalar (np.generic or a 0-d array)?  The model's predicate Tree.isNpScalar: the one case in
        # which the ASDF layer hands back something else (a Python number) than what was stored
        _w = None if gobj is None else gobj._weights
        obs['npscalar'] = '-' if gobj is None else ('T' if isinstance(_w, np.generic) or (isinstance(_w, np.ndarray) and _w.ndim == 0) else 'F')

        def expected_refusal(e):
            """An unregistered coordinate system cannot be read back (KeyError): the stated assumption, not a violation."""
            return unreg and isinstance(e, KeyError)

        def compare(y, route, fam):
            d = first_difference(what, ref, sig(y))
            if d is not None:
                fails.append(('%s:%s:%s' % (what, fam, ck), '%s read back through %s differs in %s' % (what, route, d)))
                return False
            gx, gy = grid_of(what, x), grid_of(what, y)
            if gx is not None and not (gy == gx):
                gs = spec if what == 'grid' else spec['grid']
                fails.append(('hcipy-eq:%s%s' % (gs['kind'], '-ragged' if is_ragged(gs) else ''),
                              'the grid read back through %s has identical coordinates, system and weights but hcipy\'s == says it differs' % route))
                return False
            return True

        def unchanged(route, fam):
            if snapshot(what, x) != snap0:
                fails.append(('write-alters:%s:%s:%s' % (what, fam, ck), 'writing through %s altered the %s being written' % (route, what)))

        FAM = {'asdf': 'asdf', 'fits': 'fits', 'fits.gz': 'fits', 'pkl': 'pickle'}
        read_back = {}

        chain_err = [None]      # error kind of the hop that ended the current chain (None: a violation ended it)

        def hop(cur, fmt, route, k):
            """write an object that was itself read from a file, read it again; None when refused/failed"""
            fam = FAM[fmt]
            fn = os.path.join(tmpdir, 'c%d.%s' % (k, fmt))
            if os.path.exists(fn):
                os.remove(fn)
            before = snapshot(what, cur)
            try:
                write(cur, fn)
            except Exception as e:  # noqa
                obs.setdefault('chain_refused', []).append('%s:%s' % (fmt, type(e).__name__))
                chain_err[0] = ERRMAP.get(type(e).__name__, 'other:' + type(e).__name__)
                if snapshot(what, cur) != before:
                    fails.append(('write-alters:%s:chain>%s:%s' % (what, fam, ck), 'a refused write (%s) altered the %s being written' % (route, what)))
                return None
            if snapshot(what, cur) != before:
                fails.append(('write-alters:%s:chain>%s:%s' % (what, fam, ck),
                              'writing (chain %s) altered the %s being written (values, dtype/byte order, strides, weights or attributes)' % (route, what)))
            try:
                with _NewStyle(spec.get('newstyle')):
                    nxt = read(fn)
            except Exception as e:  # noqa
                if expected_refusal(e) and fam != 'pickle':
                    obs.setdefault('chain_refused', []).append('%s:read-unregistered' % fmt)
                    chain_err[0] = 'key'
                    return None
                fails.append(('%s:chain>%s:%s' % (what, fam, ck), 'chain %s: the write succeeded but reading back raised %s: %s' % (
                    route, type(e).__name__, str(e)[:100])))
                return None
            d = first_difference(what, ref, sig(nxt))
            if d is not None:
                fails.append(('%s:chain>%s:%s' % (what, fam, ck), '%s after the chain %s differs from the original in %s' % (what, route, d)))
                return None
            gx, gy = grid_of(what, x), grid_of(what, nxt)
            if gx is not None and not (gy == gx):
                fails.append(('hcipy-eq:chain', 'the grid after the chain %s has identical coordinates but hcipy\'s == says it differs' % route))
                return None
            obs['chain_hops'] = obs.get('chain_hops', 0) + 1
            return nxt

        # dictionary
        tree = None
        if what == 'basis' and x.is_sparse:
            # the sparse storage as it is before to_dict (model: SpStore)
            T0 = x._transformation_matrix
            obs['spfmt'] = T0.format
            if T0.format in ('csr', 'csc') and T0.dtype.kind in 'biuf':
                obs['spraw'] = encode({'data': T0.data, 'indices': T0.indices, 'indptr': T0.indptr, 'shape': [int(n_) for n_ in T0.shape]})
                obs['spdense'] = enc_arr(T0.toarray())
        try:
            tree = x.to_dict()
            obs['to_dict'] = 'ok'
            if 'spraw' in obs:
                obs['sptree'] = encode(tree['transformation_matrix'])
        except Exception as e:  # noqa
            obs['to_dict'] = ERRMAP.get(type(e).__name__, 'other:' + type(e).__name__)
        unchanged('to_dict', 'dict')
        obs['wnone']['after_dict'] = wnone()
        if tree is None and what == 'basis' and x.grid is None:
            # the part of the dictionary form that exists: sent to the model as a basis without grid
            try:
                import hcipy
                x2 = copy.copy(x)
                x2.grid = hcipy.CartesianGrid(hcipy.UnstructuredCoords([np.arange(spec['npoints'], dtype='float64')]))
                t2 = x2.to_dict()
                del t2['grid']
                obs['nogrid_tree'] = encode(t2)
            except MachineryError:
                raise
            except Exception:  # noqa
                pass
            unchanged('copy.copy', 'dict')
        if tree is not None:
            obs['tree'] = encode(tree)
            try:
                with _NewStyle(spec.get('newstyle')):
                    y = cls.from_dict(tree)
                obs['dict_tree'] = encode(tree)
                obs['dict_back'] = encode(y.to_dict())
                dtype_obs(obs, what, 'dict', x, y)
                if compare(y, 'to_dict/from_dict', 'dict') and shares_memory(what, x, y):
                    fails.append(('aliasing:%s:dict' % what, 'from_dict(to_dict(x)) shares array memory with x: it is not a separate object'))
            except MachineryError:
                raise
            except Exception as e:  # noqa
                obs['dict_err'] = ERRMAP.get(type(e).__name__, 'other:' + type(e).__name__)
                if not expected_refusal(e):
                    fails.append(('%s:dict:%s' % (what, ck), 'from_dict(to_dict(x)) raised %s: %s' % (type(e).__name__, str(e)[:100])))
            unchanged('from_dict', 'dict')
        if what == 'field':
            obs['getstate'] = getstate_obs(x)
            unchanged('__getstate__', 'pickle')
        # pickle in memory, deepcopy
        # every spelling of the in-memory routes: the default protocol, each explicit protocol 0..HIGHEST, protocol 5 with
        # out-of-band buffers (PEP 574: what joblib / dask / multiprocessing use), deepcopy, copy.copy
        def _oob(o):
            bufs = []
            data = pickle.dumps(o, protocol=5, buffer_callback=bufs.append)
            obs['oob_buffers'] = len(bufs)
            # the receiving side gets copies of the buffers (another process); NumPy only hands out contiguous ones
            return pickle.loads(data, buffers=[bytearray(b.raw()) for b in bufs])

        routes = [('pickle.dumps/loads', lambda o: pickle.loads(pickle.dumps(o)), True), ('deepcopy', copy.deepcopy, False)]
        for proto in range(pickle.HIGHEST_PROTOCOL + 1):
            routes.append(('pickle.dumps(protocol=%d)/loads' % proto, (lambda o, p_=proto: pickle.loads(pickle.dumps(o, protocol=p_))), True))
        routes.append(('pickle.dumps(protocol=5, buffer_callback)/loads(buffers)', _oob, True))
        routes.append(('copy.copy', copy.copy, False))
        for route, fn, separate in routes:
            try:
                with _NewStyle(spec.get('newstyle')):
                    y = fn(x)
                if what == 'field' and route == 'pickle.dumps/loads':
                    obs['pickle_back'] = encode(y.to_dict())
                    obs['pickle_flag'] = 'f' if np.isfortran(np.asarray(x)) else 'c'
                if route in ('pickle.dumps(protocol=2)/loads', 'pickle.dumps(protocol=5)/loads') and what != 'grid':
                    # object pickles: kind and item size; the byte order NumPy's unpickling hands back depends on protocol and layout (not modelled)
                    dtype_obs(obs, what, 'pickle' if what == 'field' else 'pickle-object', x, y)
                if compare(y, route, 'pickle') and separate and shares_memory(what, x, y):
                    fails.append(('aliasing:%s:pickle' % what, '%s shares array memory with the original' % route))
                obs['inmem_routes'] = obs.get('inmem_routes', 0) + 1
            except MachineryError:
                raise
            except Exception as e:  # noqa
                fails.append(('%s:pickle:%s' % (what, ck), '%s raised %s: %s' % (route, type(e).__name__, str(e)[:100])))
            unchanged(route, 'pickle')
        # default pickling (an assumption of the model: a pickle holds the object): the classes that define no pickling hooks
        # must reduce to (copyreg.__newobj__ / copyreg._reconstructor, ..., state) with state == __dict__, for every protocol
        obs['reduce'] = reduce_obs(what, x)
        unchanged('__reduce_ex__', 'pickle')
        # files
        for fmt in FORMATS:
            fam = {'asdf': 'asdf', 'fits': 'fits', 'fits.gz': 'fits', 'pkl': 'pickle'}[fmt]
            fn = os.path.join(tmpdir, 'x.' + fmt)
            if os.path.exists(fn):
                os.remove(fn)
            o = {'w': 'ok', 'r': '-', 'img': None, 'out': None}
            obs['fmt'][fmt] = o
            try:
                write(x, fn)
            except Exception as e:  # noqa
                o['w'] = ERRMAP.get(type(e).__name__, 'other:' + type(e).__name__)
                o['w_msg'] = str(e)[:100]
                unchanged('a refused write_%s(%s)' % (what, fmt), fam)
                if fam == 'fits' and o['w'] == 'key' and what != 'grid':
                    dtype_obs(obs, what, 'fits-image-' + what, x, None)      # KeyError: astropy has no BITPIX for the dtype
                if os.path.exists(fn):
                    # "whenever it can be written, reading back succeeds": a refused write that leaves a file has written something
                    o['left'] = True
                    fails.append(('refused-write-leaves-file:%s:%s:%s' % (what, fam, ck), 'write_%s(%s) raised %s but left a file of %d bytes behind' % (
                        what, fmt, type(e).__name__, os.path.getsize(fn))))
                continue
            unchanged('write_%s(%s)' % (what, fmt), fam)
            if fmt == 'fits':
                obs['wnone']['after_fits'] = wnone()
            if fam == 'fits':
                from astropy.io import fits
                with fits.open(fn, memmap=False) as hd:
                    o['img'] = 'N' if hd[0].data is None else enc_arr(np.array(hd[0].data))
            if fmt == 'asdf' or (fam == 'fits' and what == 'grid'):
                o['raw'] = raw_tree(fn, fam, TREE_KEY[what])
            try:
                with _NewStyle(spec.get('newstyle')):
                    y = read(fn)
                o['r'] = 'ok'
            except Exception as e:  # noqa
                o['r'] = ERRMAP.get(type(e).__name__, 'other:' + type(e).__name__)
                if expected_refusal(e) and fam != 'pickle':
                    o['expected_refusal'] = True
                    continue
                fails.append(('%s:%s:%s' % (what, fam, ck), 'write_%s(%s) succeeded but reading the file back raised %s: %s' % (
                    what, fmt, type(e).__name__, str(e)[:100])))
                continue
            try:
                o['out'] = encode(y.to_dict())
            except MachineryError:
                raise
            except Exception:  # noqa
                o['out'] = None
            if unreg and fam != 'pickle':
                # the model's theorem (and the stated assumption) say such a file is not readable
                obs['unregistered_read_ok'] = fmt
            if what != 'grid':
                droute = {'asdf': 'asdf', 'pickle': 'pickle' if what == 'field' else 'pickle-object',
                          'fits': 'fits-tree' if o['img'] in (None, 'N') else 'fits-image-' + what}[fam]
                try:
                    dtype_obs(obs, what, droute, x, y, fn)
                except MachineryError:
                    raise
                except Exception as e:  # noqa  (a fault while observing is a broken correspondence, not a crash)
                    obs.setdefault('dtype_faults', []).append('%s: %s' % (droute, type(e).__name__))
            if compare(y, 'write/read %s' % fmt, fam):
                read_back[fmt] = y
            unchanged('read_%s(%s)' % (what, fmt), fam)
        # named files: write_*(x, name, fmt) then read_*(name, fmt) for generated (file name, fmt argument) pairs
        for nm, fm in spec.get('named') or []:
            ndir = os.path.join(tmpdir, 'named')
            os.makedirs(ndir, exist_ok=True)
            fn = os.path.join(ndir, nm)
            if os.path.exists(fn):
                os.remove(fn)
            o = {'name': nm, 'fmt': fm, 'w': 'ok', 'fam': '-', 'r': '-', 'out': None}
            obs.setdefault('named', []).append(o)
            route = 'write/read %r fmt=%r' % (nm, fm)
            try:
                write(x, fn, fmt=fm)
            except Exception as e:  # noqa
                o['w'] = ERRMAP.get(type(e).__name__, 'other:' + type(e).__name__)
                unchanged('a refused ' + route, 'named')
                continue
            unchanged(route, 'named')
            o['fam'] = sniff(fn)
            try:
                with _NewStyle(spec.get('newstyle')):
                    y = read(fn, fmt=fm)
                o['r'] = 'ok'
            except Exception as e:  # noqa
                o['r'] = ERRMAP.get(type(e).__name__, 'other:' + type(e).__name__)
                if expected_refusal(e) and o['fam'] != 'pickle':
                    continue
                fails.append(('%s:named-file:%s:%s' % (what, o['fam'], ck), '%s succeeded but reading it back raised %s: %s' % (
                    route, type(e).__name__, str(e)[:100])))
                continue
            try:
                o['out'] = encode(y.to_dict())
            except MachineryError:
                raise
            except Exception:  # noqa
                o['out'] = None
            if unreg and o['fam'] != 'pickle':
                obs['unregistered_read_ok'] = 'named ' + nm
            compare(y, route, 'named-file:' + o['fam'])
            unchanged('reading ' + route, 'named')
        # spellings of the file routes (round 6): overwrite=False on a fresh path, overwrite=False / True over a file that
        # already holds another object (keyword and positional), the other setting of the asdf memory-map switch
        sp_fmt = spec.get('spell')
        if sp_fmt and obs['fmt'].get(sp_fmt, {}).get('w') == 'ok' and obs['fmt'][sp_fmt].get('r') == 'ok':
            fam = FAM[sp_fmt]
            sdir = os.path.join(tmpdir, 'spell')
            os.makedirs(sdir, exist_ok=True)
            fn = os.path.join(sdir, 'o.' + sp_fmt)
            rec = {'fmt': sp_fmt, 'fam': fam}
            obs['spell'] = rec

            def rd(route, **kw):
                try:
                    with _NewStyle(spec.get('newstyle')):
                        return read(fn, **kw)
                except Exception as e:  # noqa
                    fails.append(('%s:%s:%s' % (what, fam, ck), '%s succeeded but reading the file back raised %s: %s' % (route, type(e).__name__, str(e)[:100])))
                    return None

            def put_decoy():
                if os.path.exists(fn):
                    os.remove(fn)
                with _NewStyle(spec.get('newstyle')):
                    decoy = build(copy.deepcopy(DECOY[what]))
                write(decoy, fn)
                with open(fn, 'rb') as fh:
                    return decoy, fh.read()

            # (1) a path that does not exist, overwrite=False: the same as the default call
            if os.path.exists(fn):
                os.remove(fn)
            route = 'write_%s(%s, overwrite=False) on a fresh path' % (what, sp_fmt)
            try:
                write(x, fn, overwrite=False)
                rec['fresh'] = 'ok'
            except Exception as e:  # noqa
                rec['fresh'] = ERRMAP.get(type(e).__name__, 'other:' + type(e).__name__)
                fails.append(('%s:%s:%s' % (what, fam, ck), '%s raised %s although the default call writes this object' % (route, type(e).__name__)))
            if rec['fresh'] == 'ok':
                y = rd(route)
                rec['fresh_holds'] = 'new' if (y is not None and compare(y, route, fam)) else '?'
            unchanged(route, fam)
            # (2) the path holds another object, overwrite=False given positionally: either refused, and then the file is
            # byte for byte what it was and still reads as the old object, or accepted, and then it reads as the new one
            try:
                decoy, old_bytes = put_decoy()
            except MachineryError:
                raise
            except Exception as e:  # noqa
                decoy = None
                obs.setdefault('dtype_faults', []).append('spelling decoy: ' + type(e).__name__)
            if decoy is not None:
                route = 'write_%s(x, name, None, False) over an existing %s file' % (what, sp_fmt)
                try:
                    write(x, fn, None, False)
                    rec['over_false'] = 'ok'
                except Exception as e:  # noqa
                    rec['over_false'] = ERRMAP.get(type(e).__name__, 'other:' + type(e).__name__)
                    with open(fn, 'rb') as fh:
                        same = fh.read() == old_bytes
                    rec['over_false_holds'] = '?'
                    if not same:
                        fails.append(('refused-write-alters-file:%s:%s:%s' % (what, fam, ck), '%s raised %s but the file that was there has changed' % (route, type(e).__name__)))
                    else:
                        yd = rd(route + ' (refused)')
                        if yd is not None and first_difference(what, sig(decoy), sig(yd)) is not None:
                            fails.append(('refused-write-alters-file:%s:%s:%s' % (what, fam, ck), '%s was refused but the old file no longer reads as the object it held' % route))
                        elif yd is not None:
                            rec['over_false_holds'] = 'old'
                if rec['over_false'] == 'ok':
                    y = rd(route)
                    rec['over_false_holds'] = 'new' if (y is not None and compare(y, route + ' (accepted)', fam)) else '?'
                unchanged(route, fam)
                # (3) overwrite=True over an existing file: always the new object, never the old one or a mixture
                route = 'write_%s(x, name, overwrite=True) over an existing %s file' % (what, sp_fmt)
                try:
                    put_decoy()
                    write(x, fn, overwrite=True)
                    rec['over_true'] = 'ok'
                except MachineryError:
                    raise
                except Exception as e:  # noqa
                    rec['over_true'] = ERRMAP.get(type(e).__name__, 'other:' + type(e).__name__)
                    fails.append(('%s:%s:%s' % (what, fam, ck), '%s raised %s although the default call on a fresh path writes this object' % (route, type(e).__name__)))
                if rec['over_true'] == 'ok':
                    y = rd(route, fmt=None)
                    rec['over_true_holds'] = 'new' if (y is not None and compare(y, route, fam)) else '?'
                unchanged(route, fam)
                # (4) asdf: the module switch use_asdf_memmap selects the keyword asdf.open() gets; with the other setting
                # the installed asdf may refuse the keyword (counted), but if it reads, it reads the same object
                if sp_fmt == 'asdf' and rec.get('over_true') == 'ok':
                    import sys
                    iomod = sys.modules.get('hcipy.util.io')
                    if iomod is not None and hasattr(iomod, 'use_asdf_memmap'):
                        keep = iomod.use_asdf_memmap
                        iomod.use_asdf_memmap = not keep
                        try:
                            with _NewStyle(spec.get('newstyle')):
                                y = read(fn)
                            rec['memmap_other'] = 'ok'
                            compare(y, 'read_%s(asdf) with use_asdf_memmap = %s' % (what, not keep), fam)
                            _ = sig(y)
                        except Exception as e:  # noqa
                            rec['memmap_other'] = type(e).__name__
                        finally:
                            iomod.use_asdf_memmap = keep
        # chains: what was read from A is written to B, read, written to C, read
        for k, chain in enumerate(spec.get('chains') or []):
            cur = read_back.get(chain[0])
            route = chain[0]
            o0 = obs['fmt'].get(chain[0], {})
            chain_err[0] = o0.get('w') if o0.get('w') != 'ok' else (o0.get('r') if o0.get('r') not in ('ok', '-') else None)
            for fmt in chain[1:]:
                if cur is None:
                    break
                chain_err[0] = None
                route += '>' + fmt
                cur = hop(cur, fmt, route, k)
            unchanged('chain ' + route, 'chain')
            # for the model (gridChain / fieldChain): the file names of the hops, the last object read or the error kind
            rec = {'hops': ['x.' + chain[0]] + ['c%d.%s' % (k, fmt) for fmt in chain[1:]], 'out': None, 'err': None}
            if cur is not None:
                try:
                    rec['out'] = encode(cur.to_dict())
                except MachineryError:
                    raise
                except Exception:  # noqa
                    rec = None
            elif chain_err[0] is not None:
                rec['err'] = chain_err[0]
            else:
                rec = None      # ended by a violation (reported above): nothing to compare
            if rec is not None:
                obs.setdefault('chain_out', []).append(rec)
    return obs, fails


# ---------------------------------------------------------------------------------------------
# protocol encoding of real trees

def _finite_rat(v):
    return rat(float(v)) if not isinstance(v, (int, np.integer)) else str(int(v))


def enc_arr(a):
    a = np.asarray(a)
    tag = a.dtype.newbyteorder('=').str.lstrip('<>|=')
    flat = np.ascontiguousarray(a).ravel()
    if a.dtype.kind == 'c':
        data = []
        for z in flat:
            data += [rat(float(z.real)), rat(float(z.imag))]
    elif a.dtype.kind == 'b':
        data = ['1' if v else '0' for v in flat]
    elif a.dtype.kind in 'iu':
        data = [str(int(v)) for v in flat]
    else:
        data = [rat(float(v)) for v in flat]
    return 'a%s(%s)[%s]' % (tag, ','.join(str(int(s)) for s in a.shape), ','.join(data))


def encode(t):
    if t is None:
        return 'N'
    if isinstance(t, (bool, np.bool_)):
        return 'T' if t else 'F'
    if isinstance(t, np.generic):
        return enc_arr(np.asarray(t))
    if isinstance(t, int):
        return 'i%d' % t
    if isinstance(t, float):
        return 'f' + rat(t)
    if isinstance(t, str):
        return 's' + t
    if isinstance(t, dict):
        return 'd{' + ','.join('%s:%s' % (k, encode(v)) for k, v in t.items()) + '}'
    if isinstance(t, (list, tuple)):
        return 'l[' + ','.join(encode(v) for v in t) + ']'
    if hasattr(t, 'shape') and hasattr(t, 'dtype'):      # ndarray, asdf array wrappers
        return enc_arr(np.asarray(t))
    raise MachineryError('cannot encode %r in a tree' % (type(t),))


_NP_SCALAR = re.compile(r'a([fiu])\d+\(\)\[([^\]]*)\]')


def canon_scalars(s):
    """ASDF stores a NumPy scalar (weights) as a plain number: in the file streams a NumPy scalar and
    the Python number of the same value are the same thing (the oracle uses the same rule)."""
    return _NP_SCALAR.sub(lambda m: ('f' if m.group(1) == 'f' else 'i') + m.group(2), s)


def _canon(s, i):
    """parse one tree token of the wire format at s[i:], return (the same tree with dictionary keys sorted, end)"""
    c = s[i]
    if c in 'NTF':
        return c, i + 1
    if c in 'if':
        j = i + 1
        while j < len(s) and (s[j].isdigit() or s[j] in '-/'):
            j += 1
        return s[i:j], j
    if c == 's':
        j = i + 1
        while j < len(s) and (s[j].isalnum() or s[j] == '_'):
            j += 1
        return s[i:j], j
    if c == 'a':
        j = s.index(']', i) + 1
        return s[i:j], j
    if c == 'l' and s[i + 1] == '[':
        i += 2
        items = []
        if s[i] == ']':
            return 'l[]', i + 1
        while True:
            t, i = _canon(s, i)
            items.append(t)
            if s[i] == ',':
                i += 1
            elif s[i] == ']':
                return 'l[' + ','.join(items) + ']', i + 1
            else:
                raise MachineryError('tree syntax: ' + s[:200])
    if c == 'd' and s[i + 1] == '{':
        i += 2
        items = []
        if s[i] == '}':
            return 'd{}', i + 1
        while True:
            j = s.index(':', i)
            t, i2 = _canon(s, j + 1)
            items.append((s[i:j], t))
            i = i2
            if s[i] == ',':
                i += 1
            elif s[i] == '}':
                return 'd{' + ','.join('%s:%s' % kv for kv in sorted(items)) + '}', i + 1
            else:
                raise MachineryError('tree syntax: ' + s[:200])
    raise MachineryError('tree syntax: ' + s[:200])


def canon_answer(line):
    """A driver answer / expectation with every tree value re-emitted with sorted dictionary keys: dictionaries are
    maps (ASDF returns the keys of every dictionary alphabetically; from_dict only looks keys up)."""
    out = []
    for tok in line.split(' '):
        k, eq, v = tok.partition('=')
        if eq and v[:2] in ('d{', 'l['):
            t, j = _canon(v, 0)
            if j != len(v):
                raise MachineryError('tree syntax: ' + v[:200])
            tok = k + '=' + t
        out.append(tok)
    return ' '.join(out)


def model_requests(spec, obs):
    """[(label, request line, expected response or None)]"""
    what = spec['what']
    reqs = []
    if 'dict_tree' in obs:
        reqs.append(('dict', 'C16 dict %s %s' % (what, obs['dict_tree']), 'ok ' + obs['dict_back']))
        if what == 'field' and 'pickle_back' in obs:
            reqs.append(('pickle', 'C16 pickle field %s %s' % (obs['pickle_flag'], obs['dict_tree']), 'ok ' + obs['pickle_back']))
        if what in ('field', 'basis'):
            for fmt in ('fits', 'fits.gz'):
                o = obs['fmt'][fmt]
                if o['w'] != 'ok':
                    exp = 'ok w=%s img=N r=- out=-' % o['w']
                else:
                    exp = 'ok w=ok img=%s r=%s out=%s' % (o['img'], o['r'], o['out'] if o['r'] == 'ok' and o['out'] else '-')
                reqs.append(('fits-new:' + fmt, 'C16 fits %s new %s' % (what, obs['dict_tree']), exp))
                reqs.append(('fits-old:' + fmt, 'C16 fits %s old %s' % (what, obs['dict_tree']), exp))
        if what == 'field' and 'getstate' in obs:
            lay, exp = obs['getstate']
            reqs.append(('getstate', 'C16 getstate field %s %s' % (lay, obs['dict_tree']), exp))
    if 'spraw' in obs and 'sptree' in obs:
        exp = 'ok wf=true dense=%s csrdense=%s tree=%s' % (obs['spdense'], obs['spdense'], obs['sptree'])
        reqs.append(('spstore', 'C16 spstore %s new %s' % (obs['spfmt'], obs['spraw']), exp))
        reqs.append(('spstore-old', 'C16 spstore %s old %s' % (obs['spfmt'], obs['spraw']), 'ok wf=true tree=' + obs['sptree']))
    for rec in obs.get('dtypes', []):
        tag = rec['d'].lstrip('<>|=')
        if rec['read'] is None:
            exp = 'err key'
        elif 'card' in rec:
            exp = 'ok read=%s tag=%s holds=true card=%s fits=true stored=%s back=%s' % (rec['read'], tag, rec['card'], rec['stored'], rec['vals'])
        else:
            exp = 'ok read=%s tag=%s holds=true' % (rec['read'], tag)
        reqs.append(('dtype', 'C16 dtype %s %s %s' % (rec['route'], rec['d'], rec['vals']), exp))
    if 'spell' in obs:
        r = obs['spell']
        for k_, ex, ov in (('fresh', 'F', 'F'), ('over_false', 'T', 'F'), ('over_true', 'T', 'T')):
            if k_ in r:
                st_ = {'ok': 'ok', 'other:OSError': 'err os'}.get(r[k_], 'err ' + r[k_])
                reqs.append(('overwrite', 'C16 overwrite %s %s %s' % (r['fam'], ex, ov), '%s holds=%s' % (st_, r.get(k_ + '_holds', '?'))))
    if 'tree' not in obs and 'nogrid_tree' in obs:
        # a mode basis without grid has no dictionary form: every write with a resolvable format is refused with
        # AttributeError (to_dict() runs before the dispatch), in pickle and unknown formats too
        for o in obs.get('named', []):
            fm = o['fmt'] if o['fmt'] is not None else '-'
            exp = 'ok w=%s fam=%s r=%s out=-' % (o['w'], o['fam'], o['r'])
            reqs.append(('filert', 'C16 filert basis - %s %s %s' % (o['name'], fm, obs['nogrid_tree']), exp))
        for fmt, o in obs['fmt'].items():
            exp = 'ok w=%s fam=%s r=%s out=-' % (o['w'], FAM_OF[fmt] if o['w'] == 'ok' else '-', o['r'])
            reqs.append(('filert', 'C16 filert basis - x.%s - %s' % (fmt, obs['nogrid_tree']), exp))
    if 'tree' not in obs:
        return reqs
    tree = obs['tree']
    if what == 'grid':
        # the dictionary form of a grid: readable iff the system is registered (also when from_dict raised)
        exp = ('ok ' + obs['dict_back']) if 'dict_back' in obs else ('err ' + obs.get('dict_err', '?'))
        if 'dict_tree' not in obs:
            reqs.append(('dict', 'C16 dict grid %s' % tree, exp))
        reqs.append(('gridold', 'C16 dict gridold %s' % tree, exp))
    # the file layer: what the ASDF library stored (monitors AsdfFaithful), read status, object read
    if what == 'grid' or 'dict_tree' in obs:
        for fmt, o in obs['fmt'].items():
            if o.get('raw') is None or o['w'] != 'ok':
                continue
            exp = 'ok sc=%s w=ok file=%s r=%s out=%s' % (obs['npscalar'], o['raw'], o['r'], o['out'] if o['r'] == 'ok' and o['out'] else '-')
            fam = FAM_OF[fmt]
            reqs.append(('file-new:' + fmt, 'C16 file %s %s new %s' % (what, fam, tree), exp))
            if what == 'grid':
                reqs.append(('file-old:' + fmt, 'C16 file grid %s old %s' % (fam, tree), exp))
    # named files: the readers / writers as a whole (format resolution, to_dict before the dispatch, the format's path)
    if what == 'grid' or 'dict_tree' in obs:
        lay = obs['getstate'][0] if (what == 'field' and 'getstate' in obs) else ('c' if what == 'field' else '-')
        for o in obs.get('named', []):
            fm = o['fmt'] if o['fmt'] is not None else '-'
            if o['w'] != 'ok':
                exp = 'ok w=%s fam=- r=- out=-' % o['w']
            else:
                exp = 'ok w=ok fam=%s r=%s out=%s' % (o['fam'], o['r'], o['out'] if o['r'] == 'ok' and o['out'] else '-')
            reqs.append(('filert', 'C16 filert %s %s %s %s %s' % (what, lay, o['name'], fm, tree), exp))
            if o['w'] == 'ok':
                reqs.append(('format', 'C16 format %s %s' % (o['name'], fm), 'ok ' + o['fam']))
            elif what == 'grid':        # a grid write is refused only when no format is found
                reqs.append(('format', 'C16 format %s %s' % (o['name'], fm), 'err ' + o['w']))
    # chains of files (A > B > C): the last object read, or the kind of the refusal that ended the chain
    if what == 'grid' or 'dict_tree' in obs:
        lay = obs['getstate'][0] if (what == 'field' and 'getstate' in obs) else ('c' if what == 'field' else '-')
        for rec in obs.get('chain_out', []):
            exp = ('ok ' + rec['out']) if rec['out'] is not None else ('err ' + rec['err'])
            reqs.append(('chain', 'C16 chain %s %s %s %s' % (what, lay, ','.join(h + ':-' for h in rec['hops']), tree), exp))
    # to_dict and the FITS writer as programs over the object: _weights None-ness before / after
    wn = obs.get('wnone', {})
    if (what == 'grid' or 'dict_tree' in obs) and 'after_dict' in wn and 'after_fits' in wn:
        w = obs['fmt']['fits']['w']
        exp = 'ok before=%s after=%s tree=%s wafter=%s w=%s' % (wn['before'], wn['after_dict'], tree, wn['after_fits'], w)
        reqs.append(('todict-st', 'C16 todict-st %s good %s' % (what, tree), exp))
        reqs.append(('todict-st-bad', 'C16 todict-st %s bad %s' % (what, tree), exp))
    return reqs


# ---------------------------------------------------------------------------------------------

def describe(spec):
    what = spec['what']
    g = spec if what == 'grid' else spec['grid']
    if g is None:
        gd = ('no-grid',)
    else:
        dims = g['dims'] if g['kind'] == 'regular' else [len(a) for a in g['axes']]
        gd = (g['kind'], g['system'], len(dims), g['cdtype'], g.get('cborder'), (g['weights'] or {'t': 'none'})['t'], bool(g['reversed']),
              'ragged' if len(set(dims)) > 1 else 'square', g.get('cscale') or 0)
    mods = tuple(m[0] for m in spec.get('mods') or [])
    if what != 'grid':
        mods = mods + ('dyn:' + (spec.get('dyn') or {'p': 'none'})['p'], 'ez:%s' % (spec.get('ezero_step') or 0))
    if g is not None:
        gd = gd + (bool(g.get('cdyn')), bool((g.get('weights') or {}).get('dyn')))
    if what == 'grid':
        return (what, mods) + gd
    if what == 'field':
        return (what, spec['dtype'], tuple(spec['tshape']), spec_layout(spec), spec['newstyle'], spec.get('border'), mods) + gd
    return (what, spec['kind'], spec['dtype'], tuple(spec['tshape']), spec['nmodes'], spec['explicit_zero'], spec_layout(spec), spec.get('border'), mods) + gd


def _bucket(x):
    for b in (1, 8, 24, 53, 64, 128, 1024):
        if x < b:
            return '< %d' % b
    return '>= 1024'


def check_spec(ctx, spec, tmpdir, batch):
    obs, fails = round_trips(spec, tmpdir)
    for key, text in fails:
        ctx.violation(key, text, {'spec': spec})
    what = spec['what']
    d = describe(spec)
    g = spec if what == 'grid' else spec['grid']
    ctx.count('what:' + what)
    if g is not None:
        ctx.count('grid:%s/%s/%dD' % (g['kind'], g['system'], len(g['dims'] if g['kind'] == 'regular' else g['axes'])))
        ctx.count('weights:' + (g['weights'] or {'t': 'none'})['t'])
        ctx.count('coordinate-scale:2^%d' % int(g.get('cscale') or 0))
        if is_ragged(g):
            ctx.count('grid:separated-ragged')
        if g['reversed']:
            ctx.count('grid:reversed')
    else:
        ctx.count('grid:none')
    if what == 'field' or (what == 'basis' and spec['kind'] == 'dense'):
        ctx.count('%s-layout:%s' % (what, spec_layout(spec)))
    if what == 'field':
        ctx.count('field-style:' + ('new' if spec['newstyle'] else 'old'))
        ctx.count('field-pickle-fortran-flag:' + str(obs.get('pickle_flag')))
        ctx.count('field-dtype:' + spec['dtype'])
        ctx.count('field-tensor-order:%d' % len(spec['tshape']))
    if what in ('field', 'basis'):
        ctx.count('dynamic-range:%s:%s' % (what if what == 'field' else 'basis-' + spec['kind'], (spec.get('dyn') or {'p': 'none'})['p']))
        v = _vals_of(what, build(spec))
        if v is not None and v.dtype.kind in 'fc' and v.size:
            m = np.abs(np.asarray(v)).astype('float64').ravel()
            m = m[(m > 0) & np.isfinite(m)]
            if m.size:
                ctx.count('dynamic-range:log2(max/min nonzero) %s' % _bucket(float(np.log2(m.max()) - np.log2(m.min()))))
                tiny = np.finfo(v.dtype).tiny
                if np.any(m < tiny):
                    ctx.count('dynamic-range:holds-subnormals:' + what)
    if g is not None and g.get('cdyn'):
        ctx.count('dynamic-range:coordinates')
    if g is not None and g.get('weights') and g['weights'].get('dyn'):
        ctx.count('dynamic-range:weights')
    if what == 'basis' and spec.get('ezero_step'):
        ctx.count('sparse:many-explicit-zeros')
    if what == 'basis':
        ctx.count('basis:%s/%s' % (spec['kind'], 'tensor' if spec['tshape'] else 'scalar'))
        ctx.count('basis-dtype:' + spec['dtype'])
    for fmt, o in obs['fmt'].items():
        ctx.count('%s:%s:%s' % (what, fmt, 'written+read' if o['w'] == 'ok' and o['r'] == 'ok' else
                                ('write-refused-' + o['w'] if o['w'] != 'ok' else 'read-raised-' + o['r'])))
        if o['w'] == 'ok':
            ctx.count('round-trips-through-files')
        # asdf and pickle accept everything that has a dictionary form
        if o['w'] != 'ok' and fmt in ('asdf', 'pkl') and obs.get('to_dict') == 'ok':
            ctx.disagree('C16 write', {'spec': spec, 'fmt': fmt, 'impl': o['w'] + ': ' + o.get('w_msg', ''),
                                       'model': 'every object with a dictionary form can be written to asdf and pickle'})
    if g is not None:
        ctx.count('weights-at-write:' + ('None (lazy, not materialised)' if obs.get('wnone', {}).get('before') == 'N' else 'set'))
        if g['system'] in ('none', 'other'):
            ctx.count('grid-class:%s:%s' % ({'none': 'base Grid', 'other': 'unregistered subclass'}[g['system']], what))
    for fmt, o in obs['fmt'].items():
        if o.get('expected_refusal'):
            ctx.count('unregistered-grid:%s:written-not-readable (KeyError, as stated)' % fmt)
        if o.get('raw') is not None:
            ctx.count('asdf-layer-monitored:%s:%s' % (what, fmt))
    if 'unregistered_read_ok' in obs:
        ctx.disagree('C16 unregistered', {'spec': spec, 'impl': 'read back through ' + obs['unregistered_read_ok'],
                                          'model': 'a grid with an unregistered coordinate system is written but not readable'})
    if 'getstate' in obs:
        ctx.count('getstate-layout:' + obs['getstate'][0])
    for rec in obs.get('dtypes', []):
        ctx.count('dtype-route:%s:%s' % (rec['route'], 'refused' if rec['read'] is None else ('%s->%s' % (rec['d'], rec['read']))))
    for fault in obs.get('dtype_faults', []):
        ctx.disagree('C16 dtype-observation', {'spec': spec, 'impl': fault, 'model': 'the dtype and the FITS cards of every file can be read'})
    ctx.count('in-memory-routes (pickle protocols 0-5, out-of-band, deepcopy, copy)', obs.get('inmem_routes', 0))
    if obs.get('oob_buffers'):
        ctx.count('pickle-out-of-band-buffers', obs['oob_buffers'])
    for finding in obs.get('reduce') or []:
        ctx.disagree('C16 default-pickling', {'spec': spec, 'impl': finding,
                                              'model': 'Grid and ModeBasis define no pickling hooks (a pickle holds __dict__); Field defines __reduce__/__getstate__/__setstate__ only'})
    if obs.get('reduce') == []:
        ctx.count('default-pickling-monitored:' + what)
    if 'spell' in obs:
        r = obs['spell']
        for k_ in ('fresh', 'over_false', 'over_true', 'memmap_other'):
            if k_ in r:
                ctx.count('spelling:%s:%s:%s' % (r['fam'], {'fresh': 'overwrite=False, no file', 'over_false': 'overwrite=False, file exists',
                                                             'over_true': 'overwrite=True, file exists', 'memmap_other': 'other use_asdf_memmap'}[k_], r[k_]))
    if 'nogrid_tree' in obs:
        ctx.count('basis-without-grid:sent-to-model')
    if 'spfmt' in obs:
        ctx.count('sparse-storage-at-write:%s%s' % (obs['spfmt'], ' (sent to the model)' if 'spraw' in obs else ''))
    for o in obs.get('named', []):
        ctx.count('named-file:%s:%s' % ('fmt=' + (o['fmt'] or 'None'), 'written as %s, read %s' % (o['fam'], o['r']) if o['w'] == 'ok' else 'write-refused-' + o['w']))
        ctx.count('named-file:name:' + o['name'])
    for m in obs.get('mods', []):
        ctx.count('mod:%s:%s' % (what, m))
    ctx.count('%s:modified-after-construction' % what if any(m.startswith('applied') for m in obs.get('mods', [])) else '%s:fresh' % what)
    ctx.count('chain-hops-written+read', obs.get('chain_hops', 0))
    for r in obs.get('chain_refused', []):
        ctx.count('chain-write-refused:' + r)
    for ch in spec.get('chains') or []:
        ctx.count('chain-pair:%s>%s' % (FAM_OF[ch[0]], FAM_OF[ch[1]]))
    bo = []
    if g is not None:
        bo.append(('coords', g.get('cborder')))
        if g.get('weights') and g['weights']['t'] == 'array':
            bo.append(('weights', g['weights'].get('border')))
    if what in ('field', 'basis'):
        bo.append((what + '-' + (spec.get('kind') or 'values'), spec.get('border')))
    for name, b in bo:
        ctx.count('byteorder:%s:%s' % (name, b or '='))
    if obs.get('to_dict') != 'ok':
        ctx.count('to_dict-refused:' + str(obs.get('to_dict')))
        if not (what == 'basis' and g is None and obs.get('to_dict') == 'attr'):
            ctx.disagree('C16 to_dict', {'spec': spec, 'impl': obs.get('to_dict'), 'model': 'ok'})
    size = grid_size(g) if g is not None else spec.get('npoints', 0)
    ctx.case({'spec': spec} if size > 1 else None, nontrivial_key=d if size > 1 else None)
    for label, line, exp in model_requests(spec, obs):
        batch.append((spec, label, line, exp))


def check_ravel(ctx, rng, n, batch):
    """ravel/unravel with NumPy's checks: valid indices (the two maps are inverse), and indices NumPy refuses with
    ValueError -- an entry out of bounds, an index of the wrong length, a flat index not below the size -- which the
    model must refuse too (`InBounds`, `k < prod s`: the hypotheses of the index theorems)."""
    def lst(v):
        return '[' + ','.join(map(str, v)) + ']'

    def np_ravel(idx, shape):
        try:
            return 'ok %d' % int(np.ravel_multi_index(tuple(idx), tuple(shape)))
        except ValueError:
            return 'err value'

    def np_unravel(k, shape):
        try:
            return 'ok ' + lst(int(i) for i in np.unravel_index(k, tuple(shape)))
        except ValueError:
            return 'err value'

    for j in range(n):
        shape = [int(rng.integers(1, 6)) for _ in range(int(rng.integers(1, 5)))]
        size = int(np.prod(shape))
        k = int(rng.integers(0, size))
        idx = [int(i) for i in np.unravel_index(k, shape)]
        batch.append((None, 'unravel', 'C16 unravel %s %d' % (lst(shape), k), 'ok ' + lst(idx)))
        batch.append((None, 'ravel', 'C16 ravel %s %s' % (lst(shape), lst(idx)), 'ok %d' % int(np.ravel_multi_index(idx, shape))))
        ctx.count('ravel/unravel')
        c = j % 4
        if c == 0:      # one entry at or beyond its bound
            a = int(rng.integers(0, len(shape)))
            bad = list(idx)
            bad[a] = shape[a] + int(rng.integers(0, 3))
            batch.append((None, 'ravel', 'C16 ravel %s %s' % (lst(shape), lst(bad)), np_ravel(bad, shape)))
            ctx.count('ravel:entry-out-of-bounds')
        elif c == 1:    # wrong length (shorter / longer)
            bad = idx[:-1] if rng.integers(0, 2) else idx + [0]
            batch.append((None, 'ravel', 'C16 ravel %s %s' % (lst(shape), lst(bad)), np_ravel(bad, shape)))
            ctx.count('ravel:index-of-wrong-length')
        elif c == 2:    # flat index at or beyond the size
            kb = size + int(rng.integers(0, 3))
            batch.append((None, 'unravel', 'C16 unravel %s %d' % (lst(shape), kb), np_unravel(kb, shape)))
            ctx.count('unravel:flat-index-out-of-bounds')
        else:           # a shape with an empty axis: nothing is in bounds
            a = int(rng.integers(0, len(shape)))
            sh = list(shape)
            sh[a] = 0
            z = [0] * len(sh)
            batch.append((None, 'ravel', 'C16 ravel %s %s' % (lst(sh), lst(z)), np_ravel(z, sh)))
            batch.append((None, 'unravel', 'C16 unravel %s 0' % lst(sh), np_unravel(0, sh)))
            ctx.count('ravel/unravel:empty-axis')


PLAIN_DTYPES = FIELD_DTYPES


def plain_case(ctx, case, tmpdir, batch):
    """write_fits / read_fits on a plain array (every dtype, byte order, layout; .fits and .fits.gz; the `shape` argument):
    whenever it can be written, reading back gives equal values of the same shape and dtype up to byte order, the array written
    is not altered, a refused write leaves no file; dtype read and the BITPIX / BZERO cards go to the model (fitsCard)."""
    import hcipy
    ok = True
    shape = tuple(case['shape'])
    n = int(np.prod(shape))
    a = apply_layout(with_border(_values(case['dtype'], case['vals'][:n], dyn_of(case)).reshape(shape), case.get('border')), case.get('layout', 'C'))
    before = _raw(a)
    fn = os.path.join(tmpdir, 'plain.' + case['ext'])
    if os.path.exists(fn):
        os.remove(fn)
    key = 'plain-array:%s' % case['ext']
    newshape = case.get('newshape')
    try:
        with warnings.catch_warnings():
            warnings.simplefilter('ignore')
            hcipy.write_fits(a, fn, shape=newshape)
    except Exception as e:  # noqa
        ctx.count('plain-array:write-refused-' + type(e).__name__)
        if os.path.exists(fn):
            ctx.violation('refused-write-leaves-file:' + key, 'write_fits raised %s but left a file behind' % type(e).__name__, {'plain': case})
            ok = False
        if _raw(a) != before:
            ctx.violation('write-alters:' + key, 'a refused write_fits altered the array', {'plain': case})
            ok = False
        if isinstance(e, KeyError):
            batch.append((None, 'dtype', 'C16 dtype fits-image-field %s %s' % (a.dtype.str, _num_list(a)), 'err key'))
        else:
            ctx.disagree('C16 plain-array', {'case': case, 'impl': type(e).__name__ + ': ' + str(e)[:80], 'model': 'only dtypes without BITPIX are refused'})
        return ok
    if _raw(a) != before:
        ctx.violation('write-alters:' + key, 'write_fits altered the array being written', {'plain': case})
        ok = False
    try:
        with warnings.catch_warnings():
            warnings.simplefilter('ignore')
            b = hcipy.read_fits(fn)
    except Exception as e:  # noqa
        ctx.violation(key, 'write_fits succeeded but read_fits raised %s: %s' % (type(e).__name__, str(e)[:80]), {'plain': case})
        return False
    want = a.reshape(newshape) if newshape is not None else a
    if _arr_sig(b) != _arr_sig(want):
        ctx.violation(key, 'array read back through write_fits/read_fits differs (dtype up to byte order, shape or values)', {'plain': case})
        ok = False
    ctx.count('plain-array:%s:written+read' % case['ext'])
    ctx.count('plain-array-dtype:%s->%s' % (a.dtype.str, b.dtype.str))
    try:
        from astropy.io import fits
        with fits.open(fn, memmap=False, do_not_scale_image_data=True) as hd:
            h = hd[0].header
            card = '%d/%d' % (int(h['BITPIX']), int(h.get('BZERO', 0)))
            raw = np.array(hd[0].data).reshape(a.shape)
        exp = 'ok read=%s tag=%s holds=true card=%s fits=true stored=%s back=%s' % (b.dtype.str, a.dtype.str.lstrip('<>|='), card, _num_list(raw), _num_list(a))
        batch.append((None, 'dtype', 'C16 dtype fits-image-field %s %s' % (a.dtype.str, _num_list(a)), exp))
    except MachineryError:
        raise
    except Exception as e:  # noqa
        ctx.disagree('C16 dtype-observation', {'case': case, 'impl': type(e).__name__, 'model': 'the cards of every FITS file can be read'})
    return ok


def gen_plain(rng):
    shape = [int(rng.integers(1, 5)) for _ in range(int(rng.integers(1, 4)))]
    n = int(np.prod(shape))
    case = {'shape': shape, 'dtype': PLAIN_DTYPES[int(rng.integers(0, len(PLAIN_DTYPES)))], 'vals': [int(x) for x in rng.integers(-12, 13, size=n)],
            'border': gen_border(rng), 'layout': str(rng.choice(LAYOUTS)), 'ext': 'fits.gz' if rng.random() < 0.4 else 'fits'}
    if rng.random() < 0.25:
        case['newshape'] = [n]
    if rng.random() < 0.3:
        case['dyn'] = gen_exps(rng, n, n)
    return case


def gridless_case(ctx, case, tmpdir):
    """a Field without grid: has no dictionary form, so no writer accepts it (AttributeError before anything is written, no file
    left behind); the in-memory routes return an equal field without grid"""
    import hcipy
    ok = True
    with _NewStyle(case.get('newstyle')):
        f = hcipy.Field(apply_layout(_values(case['dtype'], case['vals'][:int(np.prod(case['shape']))], dyn_of(case)).reshape(case['shape']), case.get('layout', 'C')), None)
    ref = _arr_sig(np.asarray(f))
    for proto in list(range(pickle.HIGHEST_PROTOCOL + 1)) + ['deepcopy']:
        try:
            with _NewStyle(case.get('newstyle')):
                y = copy.deepcopy(f) if proto == 'deepcopy' else pickle.loads(pickle.dumps(f, protocol=proto))
            if _arr_sig(np.asarray(y)) != ref or y.grid is not None or type(y) is not type(f):
                ctx.violation('field:pickle:no-grid', 'a field without grid read back through pickle (%s) differs' % proto, {'gridless': case})
                ok = False
        except Exception as e:  # noqa
            ctx.violation('field:pickle:no-grid', 'pickling a field without grid (%s) raised %s' % (proto, type(e).__name__), {'gridless': case})
            ok = False
    for ext in FORMATS:
        fn = os.path.join(tmpdir, 'nogrid.' + ext)
        if os.path.exists(fn):
            os.remove(fn)
        try:
            hcipy.write_field(f, fn)
            try:
                with _NewStyle(case.get('newstyle')):
                    y = hcipy.read_field(fn)
                if _arr_sig(np.asarray(y)) != ref:
                    ctx.violation('field:%s:no-grid' % FAM_OF[ext], 'a field without grid was written and read back with other values', {'gridless': case})
                    ok = False
            except Exception as e:  # noqa
                ctx.violation('field:%s:no-grid' % FAM_OF[ext], 'a field without grid was written but reading raised ' + type(e).__name__, {'gridless': case})
                ok = False
            ctx.count('field-without-grid:%s:written' % ext)
        except Exception as e:  # noqa
            ctx.count('field-without-grid:%s:write-refused-%s' % (ext, type(e).__name__))
            if os.path.exists(fn):
                ctx.violation('refused-write-leaves-file:field:%s:no-grid' % FAM_OF[ext], 'write_field raised %s but left a file behind' % type(e).__name__, {'gridless': case})
                ok = False
    return ok


def check_names(ctx, rng, n, batch):
    """_guess_file_format on generated names vs the model's guessFormat"""
    import sys
    import hcipy  # noqa
    hio = sys.modules['hcipy.util.io']
    ends = ['asdf', 'fits', 'fits.gz', 'pkl', 'pickle', 'fit', 'gz', 'asd', 'kl', 'pickl', 'ASDF', 'Fits', 'fits.g', 'its', 'dat', '']
    names = [n_ for n_, _ in NAMED]
    alphabet = 'adfgiklpstz._'
    for _ in range(n):
        stem = ''.join(alphabet[int(i)] for i in rng.integers(0, len(alphabet), int(rng.integers(0, 6))))
        e = ends[int(rng.integers(0, len(ends)))]
        names.append(stem + ('.' if rng.integers(0, 3) else '') + e + ('' if rng.integers(0, 6) else alphabet[int(rng.integers(0, len(alphabet)))]))
    for nm in names:
        if not nm:
            continue
        real = hio._guess_file_format(nm)
        batch.append((None, 'guess', 'C16 guess ' + nm, 'ok ' + (real if real is not None else 'none')))
        ctx.count('guess:' + str(real))


def run(ctx):
    ctx.rule = ('objects are rebuilt from JSON specs: grids (regular / separated incl. unequal axis lengths / unstructured; '
                '1-3 D; Cartesian and polar; float64, float32 and int64 coordinates; weights absent, Python or NumPy scalar, '
                'array, list, or automatic weights materialised before writing; reversed grids with negative-stride views), '
                'fields (14 dtypes; tensor shapes (), (2,), (3,), (2,2), (2,1), (1,), (3,1), (2,1,2); memory layouts C-ordered, '
                'Fortran-ordered, point-major, strided view, negative stride; old- and new-style fields) and mode bases (dense / CSC sparse with and without explicit zeros / dense tensor; 0-5 modes; '
                '7 dtypes; dense matrices in the same five memory layouts; with and without grid). Each object goes through to_dict/from_dict, pickle.dumps/loads, deepcopy and '
                'files asdf, fits, fits.gz, pkl; the object read back is compared structurally (class, system, each stored '
                'coordinate array with dtype up to byte order, weights, values, tensor shape, sparse-or-dense) and with hcipy\'s '
                '== on the grid; the written object is snapshotted (raw bytes, exact dtypes, _weights, attribute names) before '
                'and after every step. A refused write is not a violation but is compared with the model\'s prediction. '
                'Model correspondence: real to_dict trees -> Lean fromDict/toDict; Lean model of the FITS image paths '
                '(image HDU content, read result) for both fits and fits.gz files; ravel/unravel vs NumPy. '
                'Round 4: grid classes also the base class Grid (system none) and an unregistered user subclass (system other, top-level grids only); '
                'stream file: the tree the ASDF library hands back for every asdf file and every grid FITS file vs the model\'s ASDF layer (dictionaries as maps), '
                'read status and object read; stream todict-st: _weights None-ness before / after to_dict and after the FITS write vs the model\'s programs over '
                'the object (and the bad variant must be told apart exactly on lazy grids); stream getstate: the real Field.__getstate__() (shape, dtype, '
                'Fortran flag, bytes) vs the model\'s getState. ' 
                'stream filert: write_*(x, name, fmt) then read_*(name, fmt) for a pool of (file name, fmt argument) pairs (guessed extensions, '
                'nothing to guess, explicit fmt overriding the name, fmt strings no branch takes) vs the model\'s write...File / read...File '
                '(write status, format found in the file by its magic bytes, read status, object read); stream guess: _guess_file_format on generated names; '
                'stream chain: the last object read after each A>B>C chain of files (or the refusal that ended it) vs gridChain / fieldChain; '
                'ravel/unravel now with NumPy\'s refusals (out of bounds, wrong length, empty axis). '
                'Round 5: in-memory routes in every spelling (pickle protocols 0-5, protocol 5 with out-of-band buffers, deepcopy, copy.copy); '
                'coordinate scales 2^k (k = -40 .. 10) and explicit weights that are a multiple of the automatic ones, non-dyadic in-place scale() after the '
                'weights were cached; sparse storage formats assigned through the transformation_matrix setter (csr, csc, coo, bsr, lil, dia, dok; matrices and arrays); '
                'plain arrays through write_fits / read_fits; fields without grid; a refused write must leave no file; stream dtype: the dtype read back through '
                'every route, the BITPIX / BZERO cards and the numbers stored in every image HDU vs readDType / fitsCard; stream spstore: the raw arrays of the stored '
                'sparse matrix -> the real to_dict tree vs SpStore.toCsc; monitor default-pickling: Grid and ModeBasis define no pickling hooks and reduce to __dict__. '
                'Non-trivial = more than one grid point; distinct by the full description tuple.')
    ctx.assumptions += ['asdf, astropy.io.fits and pickle store and return arrays faithfully (exercised, not proved); for asdf files and grid '
                        'FITS files this is the Lean hypothesis AsdfFaithful, monitored on every file written (stream "file"): the tree '
                        'loaded equals the tree stored up to dictionary key order and NumPy-scalar weights -> Python numbers',
                        'grid classes are registered in Grid._coordinate_systems: a user subclass that never called '
                        'Grid._add_coordinate_system (generated as system "other") is written by asdf/fits but read_grid raises KeyError; '
                        'theorem grid_file_readable_iff states this exception; the check verifies it happens and does not report it',
                        'values are finite and exactly representable (no NaN/inf sent to the model)',
                        'dtype equality is taken up to byte order: FITS images come back big endian (which byte order comes back through which route '
                        'is modelled by readDType and compared on every read)',
                        'Grid and ModeBasis are pickled by Python\'s default mechanism (no hooks in hcipy): monitored on every object and protocol']
    rng = ctx.rng
    big = ctx.tier == 'thorough'
    ng, nf, nb = ctx.scale((20, 45, 40), (350, 700, 600))
    specs = [copy.deepcopy(s) for s in DIRECTED]
    for _ in range(ng):
        specs.append(gen_grid(rng, big, top_level=True))
    for _ in range(nf):
        specs.append(gen_field(rng, big))
    for _ in range(nb):
        specs.append(gen_basis(rng, big))
    # format chains: every ordered pair (A, B) systematically over the directed corpus, random for the rest
    pairs = [(a, b) for a in FORMATS for b in FORMATS]
    for i, spec in enumerate(specs):
        if 'chains' in spec:
            continue
        if i < len(DIRECTED):
            (a, b), (a2, b2) = pairs[(2 * i) % 16], pairs[(2 * i + 1) % 16]
            spec['chains'] = [[a, b, FORMATS[(i // 8) % 4]], [a2, b2, FORMATS[(i // 8 + 2) % 4]]]
        else:
            spec['chains'] = gen_chains(rng, 2)
    # overwrite / memmap spellings: one format per object, walking through the four
    for i, spec in enumerate(specs):
        spec.setdefault('spell', FORMATS[(i + i // 4) % 4])
    # named files: the directed corpus walks through the pool of (file name, fmt) pairs, the rest draws from it
    for i, spec in enumerate(specs):
        if 'named' in spec:
            continue
        if i < len(DIRECTED):
            spec['named'] = [list(NAMED[(2 * i) % len(NAMED)]), list(NAMED[(2 * i + 1) % len(NAMED)])]
        else:
            spec['named'] = [list(NAMED[int(rng.integers(0, len(NAMED)))])]
    batch = []
    with tempfile.TemporaryDirectory(prefix='c16_') as tmpdir:
        for spec in specs:
            check_spec(ctx, spec, tmpdir, batch)
        plains = [{'shape': [2, 3], 'dtype': dt, 'vals': _SEQ, 'border': bo, 'layout': 'C', 'ext': ext}
                  for dt in PLAIN_DTYPES for bo, ext in (('=', 'fits'), ('>', 'fits.gz'))]
        plains += [{'shape': [2, 3], 'dtype': 'float64', 'vals': _SEQ, 'layout': 'F', 'ext': 'fits'},
                   {'shape': [2, 3], 'dtype': 'uint16', 'vals': _SEQ, 'layout': 'neg', 'ext': 'fits.gz', 'newshape': [6]}]
        plains += [gen_plain(rng) for _ in range(ctx.scale(30, 600))]
        for case in plains:
            plain_case(ctx, case, tmpdir, batch)
        for case in [{'shape': [4], 'dtype': 'float64', 'vals': _SEQ}, {'shape': [2, 3], 'dtype': 'int16', 'vals': _SEQ, 'layout': 'F'},
                     {'shape': [2, 3], 'dtype': 'complex128', 'vals': _SEQ, 'newstyle': True}]:
            gridless_case(ctx, case, tmpdir)
    check_ravel(ctx, rng, ctx.scale(50, 1000), batch)
    check_names(ctx, rng, ctx.scale(150, 3000), batch)
    out = ctx.model([b[2] for b in batch])
    old_agree = old_total = 0
    gold_agree = gold_total = 0
    bad_differs = bad_total = bad_lazy = 0
    sp_agree = sp_total = 0
    for (spec, label, line, exp), resp in zip(batch, out):
        if label.startswith('fits-old'):
            old_total += 1
            old_agree += (canon_scalars(resp) == canon_scalars(exp))
            continue
        if label == 'spstore-old':
            sp_total += 1
            sp_agree += (canon_answer(resp) == canon_answer(exp))
            continue
        if label == 'gridold' or label.startswith('file-old'):
            gold_total += 1
            gold_agree += (canon_answer(resp) == canon_answer(exp))
            continue
        if label == 'todict-st-bad':
            # the variant of the model that reads the property `weights`: must be told apart by the real observations
            # exactly on the objects whose weights were not materialised
            bad_total += 1
            bad_lazy += (' before=N ' in exp)
            bad_differs += (canon_answer(resp) != canon_answer(exp))
            if (canon_answer(resp) != canon_answer(exp)) != (' before=N ' in exp):
                ctx.disagree('C16 todict-st-bad', {'spec': spec, 'impl': exp[:2000], 'model': resp[:2000],
                                                   'note': 'the bad variant must differ from the code iff _weights was None'})
            continue
        ctx.traces_validated += 1
        if label.startswith('fits-'):
            resp, exp = canon_scalars(resp), canon_scalars(exp)
        if label.startswith('file-') or label == 'todict-st':
            resp, exp = canon_answer(resp), canon_answer(exp)
        if label == 'spstore':
            resp, exp = canon_answer(resp), canon_answer(exp)
        if label in ('filert', 'chain'):
            resp, exp = canon_answer(canon_scalars(resp)), canon_answer(canon_scalars(exp))
        if resp != exp:
            ctx.disagree('C16 ' + label, {'spec': spec, 'impl': exp[:2000], 'model': resp[:2000]})
        ctx.count('model-stream:' + label.split(':')[0])
    ctx.extra['impl_agrees_with_model_of_unrepaired_fits_paths'] = '%d/%d' % (old_agree, old_total)
    ctx.extra['impl_agrees_with_model_of_unrepaired_grid_registry_D161'] = '%d/%d' % (gold_agree, gold_total)
    ctx.extra['impl_agrees_with_model_of_unrepaired_sparse_to_dict_D162'] = '%d/%d' % (sp_agree, sp_total)
    ctx.extra['bad_to_dict_model_told_apart'] = '%d of %d objects (%d had _weights None)' % (bad_differs, bad_total, bad_lazy)


def replay(ctx, case):
    if 'plain' in case or 'gridless' in case:
        with tempfile.TemporaryDirectory(prefix='c16_') as tmpdir:
            return plain_case(ctx, case['plain'], tmpdir, []) if 'plain' in case else gridless_case(ctx, case['gridless'], tmpdir)
    with tempfile.TemporaryDirectory(prefix='c16_') as tmpdir:
        obs, fails = round_trips(case['spec'], tmpdir)
    for key, text in fails:
        print('  fails:', key, '-', text)
    return not fails
