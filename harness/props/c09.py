"""C09 — coronagraphs null what they are designed to null and pass the rest.

Five parts, each with a real-code driver, an oracle that evaluates the property clause on the
real code's output, and (parts A–D) a correspondence with the Lean model:

A  mode bookkeeping of PerfectCoronagraph, every order on a range (tie T3);
B  PerfectCoronagraph on small apertures of every shape: flat ↦ 0, aperture×polynomial ↦ 0,
   idempotent, power non-increasing — and P(E) against the exact rational projector;
C  LyotCoronagraph / OccultedLyotCoronagraph: m = 1 ⇒ stop·E, m = 0 ⇒ 0 on real propagators, and
   the forward algebra against the model with exact linear stand-ins for the propagator;
D  level / grid / window bookkeeping of the multi-scale coronagraphs on a box (tie T3);
E  measured leakage (< 1 %) and off-axis throughput (> 50 % at 10 λ/D) of Vortex, VectorVortex
   and FQPM coronagraphs — the clause no theorem decides.
F  (round 4) the algebra of the multi-scale constructors / forward / backward on exact stand-ins.
G  (round 5) chromatic parameters x one object used at several wavelengths: VectorVortex with
   phase_retardation a callable of wavelength, Lyot / occulted Lyot with a focal mask that is a
   function of wavelength, Perfect / Vortex / FQPM — histories in which the design wavelength is
   not first; every step against a fresh object, the closed form at that wavelength
   (out(d) = cos(d/2) out(0) + sin(d/2) out(pi); leak cos^2(d/2)), the nulling clause at the
   design wavelength, and the model's `chromRun` / `vvLeak` / `retarderJones` (op `vvrun`).
H  (round 6) setter histories that change the KIND of a parameter on one used object (constant <->
   function of wavelength, Field <-> scalar <-> function, None <-> element, int <-> float) for every
   assignable coronagraph parameter, each use against the closed form / formula of the CURRENT
   parameters and a fresh object; the model's `setRun` (op `vvset`).
   Part F also runs on the real, unpatched Fourier objects (`_MSRealWorld`): their matrices inside the model.
"""
import math
import time
import warnings

import numpy as np

from harness.common import rat, rat_list, rat_lists, parse_rat_list, Fraction, MachineryError

TOL = 1e-9


def _hp():
    import hcipy
    return hcipy


def _errkind(e):
    if isinstance(e, ValueError):
        return 'value'
    if isinstance(e, TypeError):
        return 'type'
    if isinstance(e, IndexError):
        return 'index'
    return 'other:' + type(e).__name__


# =============================================================================================
# A. mode bookkeeping

def real_mode_count(order, side):
    hp = _hp()
    pg = hp.make_pupil_grid(side)
    ap = hp.Field(np.ones(pg.size), pg)
    try:
        c = hp.PerfectCoronagraph(ap, order)
    except Exception as e:  # noqa
        return ('err', _errkind(e))
    return ('ok', int(c.transformation.shape[1]), int(len(c.coeffs)))


def part_a(ctx):
    top = ctx.scale(24, 64)
    side = ctx.scale(18, 24)
    orders = list(range(0, top + 1))
    out = ctx.model(['C09 count %d' % o for o in orders])
    for o, resp in zip(orders, out):
        m = dict(t.split('=') for t in resp.split()[1:])
        real = real_mode_count(o, side)
        ctx.traces_validated += 1
        ctx.count('A:orders')
        h = o // 2
        if o == 0:
            # no modes at all: np.linalg.qr of an empty list is outside the property (orders 2-8)
            ctx.boundary_skipped += 1
            continue
        if real[0] != 'ok':
            if o % 2 == 0:
                ctx.violation('perfect count raises', 'PerfectCoronagraph(order=%d) raised %s' % (o, real[1]), {'part': 'A', 'order': o, 'side': side})
            continue
        ctx.case({'part': 'A', 'order': o}, ('A', o))
        if o % 2 == 0:
            # the property's own count
            if real[1] != h * (h + 1) // 2 or real[2] != real[1]:
                ctx.violation('perfect mode-count', 'order %d: %d modes, %d coefficients, expected %d' % (o, real[1], real[2], h * (h + 1) // 2),
                              {'part': 'A', 'order': o, 'side': side})
        if (real[1], real[2]) != (int(m['modes']), min(int(m['coeffs']), int(m['modes']))):
            ctx.disagree('C09 count', {'order': o, 'impl': real, 'model': resp})


# =============================================================================================
# B. perfect coronagraph

AP_KINDS = ['circular', 'obstructed', 'rectangular', 'hexagonal', 'elliptical', 'grey', 'apodised', 'signed',
            'full', 'sparse', 'zero', 'complex']


def _make_grid(case):
    """The grid of a part-B case: regular (dims/delta/zero) or, for `grid` cases, separated /
    unstructured with non-constant weights."""
    hp = _hp()
    g = case.get('grid')
    if g is None:
        return hp.CartesianGrid(hp.RegularCoords(case['delta'], case['dims'], case['zero']))
    if g['kind'] == 'separated':
        return hp.CartesianGrid(hp.SeparatedCoords([np.array(g['xs']), np.array(g['ys'])]))
    return hp.CartesianGrid(hp.UnstructuredCoords([np.array(g['x']), np.array(g['y'])]), weights=np.array(g['w']))


def gen_weighted_case(rng, directed=False):
    """Grids whose weights are not constant (outside the property's quantifier, inside the code's
    domain): the projector is orthogonal in the unweighted product, so `total_power` may grow."""
    if directed:
        # the counterexample of `perfectMat_weighted_power_counterexample`
        grid = {'kind': 'unstructured', 'x': [0.0, 1.0], 'y': [0.0, 0.0], 'w': [1.0, 8.0]}
        n, order, ap = 2, 2, np.ones(2)
        fields = [np.array([1.0, 0.0]) + 0j, np.array([0.0, 1.0]) + 0j]
    else:
        if rng.random() < 0.6:
            nx, ny = int(rng.integers(2, 6)), int(rng.integers(2, 6))
            xs = np.cumsum(2.0 ** rng.integers(-2, 2, nx)) - 1.0
            ys = np.cumsum(2.0 ** rng.integers(-2, 2, ny)) - 1.0
            grid = {'kind': 'separated', 'xs': [float(v) for v in xs], 'ys': [float(v) for v in ys]}
            n = nx * ny
        else:
            n = int(rng.integers(2, 13))
            grid = {'kind': 'unstructured', 'x': [float(v) for v in rng.integers(-8, 9, n) / 4.0],
                    'y': [float(v) for v in rng.integers(-8, 9, n) / 4.0], 'w': [float(v) for v in 2.0 ** rng.integers(-3, 4, n)]}
        order = int(rng.choice([2, 4, 6]))
        ap = [np.ones(n), rng.integers(0, 17, n) / 16.0, rng.integers(-8, 9, n) / 8.0][int(rng.integers(0, 3))]
        fields = [rng.integers(-64, 65, n) / 16.0 + 1j * rng.integers(-64, 65, n) / 16.0 for _ in range(2)]
    h = order // 2
    coeffs = [[(int(rng.integers(-4, 5)) / 2.0) for j in range(i + 1)] for i in range(h)]
    if all(c == 0 for row in coeffs for c in row):
        coeffs[0][0] = 1.0
    return {'part': 'B', 'shape_kind': 'weighted', 'grid': grid, 'dims': [n, 1], 'order': order, 'ap_kind': 'weighted-' + grid['kind'],
            'ap_re': [float(v) for v in ap], 'ap_im': [0.0] * n,
            'fields': [{'name': 'random', 're': [float(v) for v in f.real], 'im': [float(v) for v in f.imag]} for f in fields],
            'poly': coeffs, 'polarised': False}


def gen_perfect_case(rng, big, force=None, user=None):
    hp = _hp()
    if force == 'weighted' or (force is None and rng.random() < 0.08):
        return gen_weighted_case(rng)
    shape_kind = str(rng.choice(['square-even', 'square-odd', 'nonsquare', 'tiny', 'pupil-grid']))
    hi = 14 if big else 10
    if shape_kind == 'square-even':
        nx = ny = 2 * int(rng.integers(2, hi // 2 + 1))
    elif shape_kind == 'square-odd':
        nx = ny = 2 * int(rng.integers(1, hi // 2 + 1)) + 1
    elif shape_kind == 'tiny':
        nx, ny = int(rng.integers(1, 4)), int(rng.integers(1, 4))
    else:
        nx, ny = int(rng.integers(3, hi + 1)), int(rng.integers(3, hi + 1))
        if shape_kind == 'nonsquare' and nx == ny:
            ny += 1
    dx = float(2.0 ** -int(rng.integers(1, 5)))
    dy = dx if rng.random() < 0.6 else float(2.0 ** -int(rng.integers(1, 5)))
    if shape_kind == 'pupil-grid':
        # hcipy's own constructor: spacing D/N is not dyadic; the model receives the exact floats
        D = float(rng.integers(1, 5)) / 2
        g = hp.make_pupil_grid([nx, ny], [D, D * ny / nx])
        dx, dy = float(g.delta[0]), float(g.delta[1])
        zx, zy = float(g.zero[0]), float(g.zero[1])
    else:
        zx = -dx * (nx - 1) / 2 + (dx * int(rng.integers(-2, 3)) / 4 if rng.random() < 0.3 else 0.0)
        zy = -dy * (ny - 1) / 2 + (dy * int(rng.integers(-2, 3)) / 4 if rng.random() < 0.3 else 0.0)
    order = int(rng.choice([2, 4, 6, 8]))
    kind = force or str(rng.choice(AP_KINDS, p=[.16, .12, .1, .08, .06, .1, .08, .05, .07, .07, .03, .08]))
    grid = hp.CartesianGrid(hp.RegularCoords([dx, dy], [nx, ny], [zx, zy]))
    ext = min(nx * dx, ny * dy)
    n = nx * ny
    if kind == 'circular':
        ap = hp.make_circular_aperture(ext * float(rng.integers(5, 9)) / 8)(grid)
    elif kind == 'obstructed':
        ap = hp.make_obstructed_circular_aperture(ext, 0.25 + 0.25 * float(rng.integers(0, 2)), int(rng.integers(3, 5)), ext / 16)(grid)
    elif kind == 'rectangular':
        ap = hp.make_rectangular_aperture([nx * dx * float(rng.integers(3, 8)) / 8, ny * dy * float(rng.integers(3, 8)) / 8])(grid)
    elif kind == 'hexagonal':
        ap = hp.make_hexagonal_aperture(ext * 7 / 8)(grid)
    elif kind == 'elliptical':
        ap = hp.make_elliptical_aperture([nx * dx * 7 / 8, ny * dy * 5 / 8])(grid)
    elif kind == 'grey':
        if min(nx, ny) > 1:
            ap = hp.evaluate_supersampled(hp.make_circular_aperture(ext * 7 / 8), grid, 4)
        else:
            ap = np.full(n, 0.75)
    elif kind == 'apodised':
        ap = rng.integers(0, 17, n) / 16.0
    elif kind == 'signed':
        ap = rng.integers(-8, 9, n) / 8.0
    elif kind == 'full':
        ap = np.ones(n)
    elif kind == 'sparse':
        ap = np.zeros(n)
        k = int(rng.integers(1, min(n, 7) + 1))
        ap[rng.choice(n, k, replace=False)] = 1
    elif kind == 'zero':
        ap = np.zeros(n)
    else:   # complex transmission (phase apodiser): oracle only
        ph = rng.integers(0, 4, n)
        ap = (rng.integers(0, 9, n) / 8.0) * np.array([1, 1j, -1, -1j])[ph]
    ap = np.asarray(ap)
    h = order // 2
    fields = []
    for _ in range(2):
        fields.append(('random', (rng.integers(-64, 65, n) / 16.0 + 1j * rng.integers(-64, 65, n) / 16.0)))
    coeffs = [[(int(rng.integers(-4, 5)) / 2.0) for j in range(i + 1)] for i in range(h)]
    if all(c == 0 for row in coeffs for c in row):
        coeffs[0][0] = 1.0
    pol = bool(rng.random() < 0.15)
    case = {'part': 'B', 'shape_kind': shape_kind, 'dims': [nx, ny], 'delta': [dx, dy], 'zero': [zx, zy], 'order': order,
            'ap_kind': kind, 'ap_re': [float(v) for v in ap.real], 'ap_im': [float(v) for v in ap.imag],
            'fields': [{'name': nm, 're': [float(v) for v in f.real], 'im': [float(v) for v in f.imag]} for nm, f in fields],
            'poly': coeffs, 'polarised': pol}
    if user or (user is None and rng.random() < 0.2):
        case['user_coeffs'] = gen_user_coeffs(rng, order)
    return case


def gen_user_coeffs(rng, order):
    """`coeffs=` of the constructor (partial suppression): one per mode, h(h+1)/2 of them, dyadic in [0, 2]."""
    h = order // 2
    k = h * (h + 1) // 2
    kind = str(rng.choice(['constant', 'prefix', 'random', 'random']))
    if kind == 'constant':
        return {'kind': kind, 'c': [float(rng.integers(0, 9)) / 4.0] * k}
    if kind == 'prefix':
        h2 = int(rng.integers(0, h + 1))
        m = h2 * (h2 + 1) // 2
        return {'kind': kind, 'h2': h2, 'c': [1.0] * m + [0.0] * (k - m)}
    return {'kind': kind, 'c': [float(v) / 4.0 for v in rng.integers(0, 9, k)]}


def run_perfect_case(case):
    """Real code + the oracle. Returns (obs, bad) with obs for the correspondence."""
    hp = _hp()
    nx, ny = case['dims']
    grid = _make_grid(case)
    weighted = case.get('grid') is not None
    apc = np.array(case['ap_re']) + 1j * np.array(case['ap_im'])
    is_complex = bool(np.any(apc.imag != 0))
    ap = hp.Field(apc if is_complex else apc.real.copy(), grid)
    order = case['order']
    h = order // 2
    nmodes = h * (h + 1) // 2
    cls = 'complex-aperture ' if is_complex else ''
    small = 'npix<modes ' if grid.size < nmodes else ''
    bad = []
    obs = {'x': [float(v) for v in grid.x], 'y': [float(v) for v in grid.y], 'outs': [], 'status': 'ok'}
    uc = case.get('user_coeffs')
    cu = None if uc is None else np.array(uc['c'], dtype=float)
    full = cu is None or bool(np.all(cu == 1))      # complete suppression: the four clauses of the property apply
    try:
        c = hp.PerfectCoronagraph(ap, order) if uc is None else hp.PerfectCoronagraph(ap, coeffs=list(uc['c']))
    except Exception as e:  # noqa
        obs['status'] = _errkind(e)
        bad.append(('perfect %s%sraises' % (cls, small), 'PerfectCoronagraph(%dx%d %s aperture, order=%d) raised %s: %s' % (nx, ny, case['ap_kind'], order, type(e).__name__, str(e)[:80])))
        return obs, bad
    # the matrices of the real object: the tied hypotheses of the `perfectMat_*` theorems are about them
    obs['T'] = np.array(c.transformation)
    obs['Tinv'] = np.array(c.transformation_inverse)
    obs['coeffs'] = np.array(c.coeffs, dtype=float)
    obs['weights'] = np.array(grid.weights, dtype=float) * np.ones(grid.size)
    obs['tp'] = []
    poly = sum(case['poly'][i][j] * grid.x ** j * grid.y ** (i - j) for i in range(h) for j in range(i + 1))
    ins = [('flat', np.asarray(ap, dtype=complex)), ('poly', np.asarray(ap * poly, dtype=complex))]
    ins += [(f['name'], np.array(f['re']) + 1j * np.array(f['im'])) for f in case['fields']]
    if uc is not None:
        # partial suppression: the l-th orthogonalised mode must come out multiplied by 1 - coeffs[l]
        ins += [('Tcol%d' % l, np.asarray(obs['T'][:, l], dtype=complex)) for l in range(min(obs['T'].shape[1], 4))]
        if c.transformation.shape[1] != min(nmodes, grid.size) or len(c.coeffs) != c.transformation.shape[1]:
            bad.append(('perfect user-coeffs mode-count', '%d coefficients gave %d modes and %d coefficients in use (expected %d)' % (len(uc['c']), c.transformation.shape[1], len(c.coeffs), min(nmodes, grid.size))))
        ref_obj = None
        if uc['kind'] == 'constant':
            ref_obj, alpha = hp.PerfectCoronagraph(ap, order), cu[0]
        elif uc['kind'] == 'prefix':
            # ones on the modes of a lower order = the coronagraph of that order, provided QR's leading columns span
            # the leading modes, i.e. the modes are independent on this sampled aperture
            A = np.array([np.asarray(ap) * grid.x ** j * grid.y ** (i - j) for i in range(h) for j in range(i + 1)]).T
            sv = np.linalg.svd(A, compute_uv=False) if A.size else np.zeros(1)
            if grid.size >= nmodes and sv.min() > 1e-6 * max(sv.max(), 1e-300):
                ref_obj, alpha = (hp.PerfectCoronagraph(ap, 2 * uc['h2']), 1.0) if uc['h2'] >= 1 else (None, 0.0)
            else:
                uc = dict(uc, kind='prefix-dependent')
    # the matrix the object reports for itself
    try:
        obs['M'] = np.array(c.get_transformation_matrix_forward())
        Mb = np.array(c.get_transformation_matrix_backward())
        if obs['M'].shape != (grid.size, grid.size) or not np.array_equal(obs['M'], Mb):
            bad.append(('perfect %stransformation-matrix' % cls, 'get_transformation_matrix_forward() has shape %s / differs from ..._backward()' % (obs['M'].shape,)))
            del obs['M']
    except Exception as e:  # noqa
        bad.append(('perfect %s%stransformation-matrix raises' % (cls, small), 'PerfectCoronagraph(%dx%d %s aperture, order=%d).get_transformation_matrix_forward() raised %s: %s' % (nx, ny, case['ap_kind'], order, type(e).__name__, str(e)[:90])))

    def scalar(E):
        wf = hp.Wavefront(hp.Field(E.copy(), grid), 1)
        out = np.asarray(c.forward(wf).electric_field)
        if not np.array_equal(np.asarray(wf.electric_field), E):
            bad.append(('perfect input-modified', 'forward changed its input'))
        return out

    def fwd(E):
        o = scalar(E)
        if case.get('polarised'):
            # a Stokes vector turns the field into a 2x2 tensor field: every component must be
            # projected exactly like the same samples sent as a scalar field
            wf = hp.Wavefront(hp.Field(E.copy(), grid), 1, input_stokes_vector=(1, 0.25, -0.5, 0.125))
            tin = np.asarray(wf.electric_field).copy()
            tout = np.asarray(c.forward(wf).electric_field)
            for a in range(2):
                for b in range(2):
                    if np.abs(tout[a, b] - scalar(tin[a, b])).max() > TOL * max(1.0, np.abs(E).max()):
                        bad.append(('perfect %spolarised-components' % cls, 'tensor component (%d,%d) is not projected like a scalar field' % (a, b)))
        return o

    for name, E in ins:
        scale = max(1.0, float(np.abs(E).max()) if E.size else 1.0)
        try:
            o1 = fwd(E)
            o2 = fwd(o1)
        except Exception as e:  # noqa
            obs['status'] = _errkind(e)
            bad.append(('perfect %s%sraises' % (cls, small), 'PerfectCoronagraph(%dx%d %s aperture, order=%d).forward raised %s: %s' % (nx, ny, case['ap_kind'], order, type(e).__name__, str(e)[:80])))
            return obs, bad
        obs['outs'].append((name, E, o1))
        if 'M' in obs and np.abs(obs['M'] @ E - o1).max() > TOL * scale:
            bad.append(('perfect %stransformation-matrix' % cls, 'get_transformation_matrix_forward() @ E differs from forward(E) by %.3g (%dx%d %s aperture, order %d)' % (np.abs(obs['M'] @ E - o1).max(), nx, ny, case['ap_kind'], order)))
        if name == 'flat':
            ob = np.asarray(c.backward(hp.Wavefront(hp.Field(E.copy(), grid), 1)).electric_field)
            if not np.array_equal(ob, o1):
                bad.append(('perfect backward', 'backward differs from forward (documented to behave the same)'))
        if name.startswith('Tcol'):
            l = int(name[4:])
            if np.abs(o1 - (1 - c.coeffs[l]) * E).max() > TOL * scale:
                bad.append(('perfect %spartial-suppression' % cls, 'orthogonalised mode %d with coefficient %g came out with residual %.3g from (1-c)*mode' % (l, c.coeffs[l], np.abs(o1 - (1 - c.coeffs[l]) * E).max())))
        if uc is not None and uc['kind'] in ('constant', 'prefix'):
            # independent reference: a constant coefficient a gives (1-a) E + a P(E); ones on the modes of a lower
            # order give the coronagraph of that order; all zero passes everything
            want = E if ref_obj is None else (1 - alpha) * E + alpha * np.asarray(ref_obj.forward(hp.Wavefront(hp.Field(E.copy(), grid), 1)).electric_field)
            if np.abs(o1 - want).max() > TOL * scale:
                bad.append(('perfect %suser-coeffs %s' % (cls, uc['kind']), 'coeffs=%s on %dx%d %s aperture: differs from the reference built from coeffs=None objects by %.3g' % (uc['c'][:6], nx, ny, case['ap_kind'], np.abs(o1 - want).max())))
        if not full:
            pin, pout = float((np.abs(E) ** 2).sum()), float((np.abs(o1) ** 2).sum())
            obs['tp'].append((float(hp.Wavefront(hp.Field(E.copy(), grid), 1).total_power), float(hp.Wavefront(hp.Field(o1.copy(), grid), 1).total_power)))
            if not weighted and pout > pin * (1 + 1e-9) + 1e-30:
                bad.append(('perfect %s%spower' % (cls, small), 'power grew from %.6g to %.6g with coefficients in [0, 2] (%dx%d %s aperture, order %d)' % (pin, pout, nx, ny, case['ap_kind'], order)))
            continue
        if name in ('flat', 'poly') and np.abs(o1).max() > TOL * scale:
            bad.append(('perfect %s%s%s' % (cls, small, name), '%s wavefront over a %dx%d %s aperture, order %d: residual %.3g (relative to %.3g)' % (name, nx, ny, case['ap_kind'], order, np.abs(o1).max(), scale)))
        if np.abs(o2 - o1).max() > TOL * scale:
            bad.append(('perfect %s%sidempotent' % (cls, small), 'P(P(E)) differs from P(E) by %.3g (%dx%d %s aperture, order %d)' % (np.abs(o2 - o1).max(), nx, ny, case['ap_kind'], order)))
        pin, pout = float((np.abs(E) ** 2).sum()), float((np.abs(o1) ** 2).sum())
        # `total_power` of the real wavefronts (the weighted sum): compared with the model's powerW
        tin = float(hp.Wavefront(hp.Field(E.copy(), grid), 1).total_power)
        tout = float(hp.Wavefront(hp.Field(o1.copy(), grid), 1).total_power)
        obs['tp'].append((tin, tout))
        if weighted:
            # non-constant weights: the unweighted projector may increase total_power (documented
            # restriction, `perfectMat_weighted_power_counterexample`); recorded, and reported through
            # the known-findings mechanism by part_b once an open entry exists
            if tout > tin * (1 + 1e-9) + 1e-30:
                obs.setdefault('weighted_growth', []).append((name, tin, tout))
            continue
        if pout > pin * (1 + 1e-9) + 1e-30:
            bad.append(('perfect %s%spower' % (cls, small), 'power grew from %.6g to %.6g (%dx%d %s aperture, order %d)' % (pin, pout, nx, ny, case['ap_kind'], order)))
    return obs, bad


def _realify(M):
    """A complex r x c matrix as the real 2r x 2c matrix acting on stacked (re; im) vectors."""
    M = np.asarray(M)
    return np.block([[M.real, -M.imag], [M.imag, M.real]])


def pmat_lines(case, obs):
    """Requests that run `perfectMat` on the real object's matrices (tie of the `perfectMat_*`
    theorems): hypotheses' defects, the modes, and every field of the case."""
    T, Ti, w, cf = obs['T'], obs['Tinv'], obs['weights'], obs['coeffs']
    cplx = bool(np.iscomplexobj(T) and (np.any(T.imag != 0) or np.any(np.asarray(Ti).imag != 0)))
    x, y = np.array(obs['x']), np.array(obs['y'])
    are, aim = np.array(case['ap_re']), np.array(case['ap_im'])
    if cplx:
        Tr, Tir = _realify(T), _realify(Ti)
        cf, w = np.concatenate([cf, cf]), np.concatenate([w, w])
        x, y = np.concatenate([x, x]), np.concatenate([y, y])
        aps = [np.concatenate([are, aim]), np.concatenate([-aim, are])]
    else:
        Tr, Tir = np.asarray(T).real, np.asarray(Ti).real
        aps = [are] if not np.any(aim != 0) else [are, aim]
    mu = 1.0 / float(w[0]) if float(w[0]) != 0 else 1.0
    lines = ['C09 pmat %s %s %s %s %s' % (rat_lists(Tr), rat_lists(Tir), rat_list(cf), rat_list(w), rat(mu))]
    for a in aps:
        lines.append('C09 pmodes %d %s %s %s' % (case['order'], rat_list(a), rat_list(x), rat_list(y)))
    want_matrix = 'M' in obs and Tr.shape[0] <= 40
    if want_matrix:
        lines.append('C09 pmatrix')
    per = []
    for name, E, o1 in obs['outs']:
        if cplx:
            lines.append('C09 papply %s' % rat_list(np.concatenate([E.real, E.imag])))
            per.append(1)
        else:
            lines.append('C09 papply %s' % rat_list(E.real))
            lines.append('C09 papply %s' % rat_list(E.imag))
            per.append(2)
    unit = case.get('grid') is not None
    if unit:
        # round 5: hypothesis of perfectMat_unweighted_power_le — T+ = T^T in the *unweighted* product (unit weights, mu = 1)
        lines.append('C09 pmat %s %s %s %s %s' % (rat_lists(Tr), rat_lists(Tir), rat_list(cf), rat_list(np.ones(len(w))), rat(1.0)))
    return lines, {'cplx': cplx, 'nap': len(aps), 'per': per, 'pmatrix': want_matrix, 'full': bool(np.all(cf == 1)), 'unit': unit}


def check_pmat(ctx, case, obs, resp, meta):
    short = {k2: case.get(k2) for k2 in ('dims', 'delta', 'zero', 'grid', 'order', 'ap_kind')}
    weighted = case.get('grid') is not None
    m = dict(t.split('=') for t in resp[0].split()[1:])
    leftinv, adj = float(Fraction(m['leftinv'])), float(Fraction(m['adj']))
    ctx.traces_validated += 1
    hyp_ok = True
    if not leftinv <= 1e-9:
        hyp_ok = False
        ctx.disagree('C09 pmat hypothesis', {'case': short, 'what': 'transformation_inverse is not a left inverse of transformation', 'defect': leftinv})
    if not adj <= 1e-9:
        if weighted:
            ctx.count('B:weighted:adjoint-hypothesis-fails')
        else:
            ctx.disagree('C09 pmat hypothesis', {'case': short, 'what': 'transformation_inverse is not the (weighted) adjoint of transformation', 'defect': adj})
        hyp_ok = False
    for k in range(meta['nap']):
        mm = dict(t.split('=') for t in resp[1 + k].split()[1:])
        nulls, scale = float(Fraction(mm['nulls'])), float(Fraction(mm['scale']))
        ctx.traces_validated += 1
        if not meta['full']:
            ctx.count('B:pmat:partial-coefficients')       # NullsModes is a hypothesis of the complete-suppression theorems only
        elif not nulls <= TOL * max(1.0, scale):
            ctx.disagree('C09 pmat hypothesis', {'case': short, 'what': 'a mode aperture*x^j*y^k is not mapped to zero (span of the modes not inside range T)', 'residual': nulls})
    pos = 1 + meta['nap']
    if meta['pmatrix']:
        # `perfectMatrix` (theorem perfectMatrix_apply) against what get_transformation_matrix_forward() returned
        Mm = np.array([[float(v) for v in parse_rat_list(r)] for r in resp[pos].split()[1].split(';')])
        Mr = _realify(obs['M']) if meta['cplx'] else np.asarray(obs['M']).real
        pos += 1
        ctx.traces_validated += 1
        ctx.count('B:pmatrix')
        if Mm.shape != Mr.shape or np.abs(Mm - Mr).max() > TOL * max(1.0, float(np.abs(Mr).max())):
            ctx.disagree('C09 perfectMatrix', {'case': short, 'what': 'get_transformation_matrix_forward() differs from the model matrix I - T diag(c) T+',
                                               'max_abs_diff': float(np.abs(Mm - Mr).max()) if Mm.shape == Mr.shape else 'shape'})
    cf = np.asarray(obs['coeffs'], dtype=float)
    for (name, E, o1), cnt, (tin, tout) in zip(obs['outs'], meta['per'], obs['tp']):
        rs = resp[pos:pos + cnt]
        pos += cnt
        outs, pin, pout = [], Fraction(0), Fraction(0)
        for r in rs:
            toks = r.split()
            outs.append(np.array([float(v) for v in parse_rat_list(toks[1])]))
            mm = dict(t.split('=') for t in toks[2:])
            pin += Fraction(mm['pin'])
            pout += Fraction(mm['pout'])
        n = len(E)
        ref = (outs[0][:n] + 1j * outs[0][n:]) if meta['cplx'] else (outs[0] + 1j * outs[1])
        ctx.traces_validated += 1
        scale = max(1.0, float(np.abs(E).max()))
        if np.abs(ref - o1).max() > TOL * scale:
            ctx.disagree('C09 perfectMat', {'case': short, 'field': name, 'max_abs_diff': float(np.abs(ref - o1).max())})
            return
        if name.startswith('Tcol') and leftinv <= 1e-9:
            # conclusion of perfectMat_partial_suppression on the model's own output
            l = int(name[4:])
            ctx.traces_validated += 1
            if np.abs(ref - (1 - cf[l]) * E).max() > TOL * scale:
                ctx.disagree('C09 partial suppression', {'case': short, 'mode': l, 'coefficient': float(cf[l]), 'max_abs_diff': float(np.abs(ref - (1 - cf[l]) * E).max())})
                return
        # powerW of the model is total_power of the real wavefronts
        if abs(float(pin) - tin) > TOL * max(1.0, tin) or abs(float(pout) - tout) > TOL * max(1.0, tin):
            ctx.disagree('C09 powerW', {'case': short, 'field': name, 'model': [float(pin), float(pout)], 'impl': [tin, tout]})
            return
        if hyp_ok and meta['full'] and pout > pin * (1 + Fraction(1, 10 ** 9)):
            ctx.disagree('C09 perfectMat', {'case': short, 'field': name, 'what': 'hypotheses hold but the model power grows', 'pin': float(pin), 'pout': float(pout)})
            return
    if meta.get('unit'):
        mu_ = dict(t.split('=') for t in resp[pos].split()[1:])
        ctx.traces_validated += 1
        ctx.count('B:weighted:unit-weight-adjoint-checked')
        if not float(Fraction(mu_['adj'])) <= 1e-9:
            ctx.disagree('C09 pmat hypothesis', {'case': short, 'what': 'on a weighted grid transformation_inverse is not the unweighted adjoint of transformation '
                                                 '(hypothesis of perfectMat_unweighted_power_le)', 'defect': float(Fraction(mu_['adj']))})
        elif leftinv <= 1e-9 and meta['full']:
            # conclusion of perfectMat_unweighted_power_le on the real outputs: the unweighted sum of |E|^2 never grows
            for name, E, o1 in obs['outs']:
                ctx.traces_validated += 1
                pin_u, pout_u = float((np.abs(E)**2).sum()), float((np.abs(o1)**2).sum())
                if pout_u > pin_u * (1 + 1e-9) + 1e-300:
                    ctx.violation('perfect weighted-grid unweighted-power', 'PerfectCoronagraph on a grid with non-constant weights: the unweighted sum of |E|^2 grows '
                                  'from %.6g to %.6g for field %s' % (pin_u, pout_u, name), case)
                    break


def part_b(ctx):
    n = ctx.scale(140, 1500)
    cases = [gen_weighted_case(ctx.rng, directed=True)]
    forced = ['circular', 'obstructed', 'rectangular', 'grey', 'sparse', 'zero', 'full', 'complex', 'weighted', 'weighted']
    for k in range(n):
        cases.append(gen_perfect_case(ctx.rng, big=(ctx.tier == 'thorough' and k % 4 == 0), force=forced[k] if k < len(forced) else None,
                                      user=(True if k in (0, 1, 7) else False if k < len(forced) else None)))
    lines, plan = [], []
    plines, pplan = [], []
    worst_weighted = 1.0
    for case in cases:
        obs, bad = run_perfect_case(case)
        for key, what in bad:
            ctx.violation(key, what, case)
        nx, ny = case['dims']
        h = case['order'] // 2
        is_complex = case['ap_kind'] == 'complex'
        ctx.count('B:shape:' + case['shape_kind'])
        ctx.count('B:aperture:' + case['ap_kind'])
        ctx.count('B:order:%d' % case['order'])
        ctx.count('B:status:' + obs['status'])
        ctx.count('B:parity:%s%s' % ('e' if nx % 2 == 0 else 'o', 'e' if ny % 2 == 0 else 'o'))
        if case.get('polarised'):
            ctx.count('B:polarised')
        if case.get('user_coeffs'):
            ctx.count('B:user-coeffs:' + case['user_coeffs']['kind'])
        for name, tin, tout in obs.get('weighted_growth', []):
            ctx.count('B:weighted:total_power-increased')
            worst_weighted = max(worst_weighted, tout / tin)
            if ctx._known('perfect weighted-grid power') is not None:
                ctx.violation('perfect weighted-grid power', 'total_power grew from %.6g to %.6g on a grid with non-constant weights (%s, order %d)' % (tin, tout, case['ap_kind'], case['order']), case)
        sig = (case['shape_kind'], nx, ny, case['order'], case['ap_kind'])
        ctx.case({k: case[k] for k in ('shape_kind', 'dims', 'order', 'ap_kind')}, sig if nx * ny > 1 else None)
        if obs['status'] == 'ok' and 'T' in obs and len(obs['outs']) == len(obs['tp']):
            if obs['T'].size * (4 if is_complex else 1) <= ctx.scale(1600, 2400):
                pl, meta = pmat_lines(case, obs)
                pplan.append((case, obs, len(plines), len(pl), meta))
                plines += pl
                ctx.count('B:pmat:' + ('complex' if meta['cplx'] else 'weighted' if case.get('grid') else 'real'))
            else:
                ctx.count('B:pmat:skipped-large')
        if is_complex or case.get('user_coeffs'):
            continue        # complex modes / user coefficients are outside the Gram-Schmidt model: oracle + perfectMat only
        base = len(lines)
        lines.append('C09 setup %d %s %s %s' % (case['order'], rat_list(case['ap_re']), rat_list(obs['x']), rat_list(obs['y'])))
        for name, E, o1 in obs['outs']:
            lines.append('C09 apply %s %s' % (rat_list(E.real), rat_list(E.imag)))
        plan.append((case, obs, base))
    ctx.extra['weighted_grid_worst_total_power_ratio'] = worst_weighted
    pout = ctx.model(plines)
    for case, obs, base, cnt, meta in pplan:
        resp = pout[base:base + cnt]
        if any(not r.startswith('ok') for r in resp):
            raise MachineryError('model refused a pmat request: %r' % [r for r in resp if not r.startswith('ok')][:1])
        check_pmat(ctx, case, obs, resp, meta)
    out = ctx.model(lines)
    for case, obs, base in plan:
        if obs['status'] != 'ok':
            continue
        m = dict(t.split('=') for t in out[base].split()[1:])
        nmodes, rank, slack = int(m['modes']), int(m['rank']), float(Fraction(m['slack']))
        h = case['order'] // 2
        if nmodes != h * (h + 1) // 2:
            raise MachineryError('model mode count')
        if rank < nmodes:
            # modes linearly dependent on this sampled aperture (decided exactly): QR completes the
            # basis with arbitrary directions, so the Gram-Schmidt model is not compared (perfectMat is)
            ctx.count('B:dependent-modes')
            continue
        if slack < 1e-10:
            ctx.boundary_skipped += 1
            continue
        for k, (name, E, o1) in enumerate(obs['outs']):
            toks = out[base + 1 + k].split()
            ref = np.array([float(v) for v in parse_rat_list(toks[1])]) + 1j * np.array([float(v) for v in parse_rat_list(toks[2])])
            ctx.traces_validated += 1
            scale = max(1.0, float(np.abs(E).max()))
            if np.abs(ref - o1).max() > TOL * scale:
                ctx.disagree('C09 perfect', {'case': {k2: case.get(k2) for k2 in ('dims', 'delta', 'zero', 'grid', 'order', 'ap_kind')}, 'field': name,
                                             'max_abs_diff': float(np.abs(ref - o1).max())})
                break


# =============================================================================================
# C. Lyot

def gen_lyot_case(rng, big):
    nx, ny = int(rng.integers(2, 7 if not big else 10)), int(rng.integers(2, 7 if not big else 10))
    if rng.random() < 0.4:
        ny = nx
    q = float(rng.choice([1, 1.5, 2]))
    na = float(rng.integers(1, 4))
    n, = (nx * ny,)
    stop_kind = str(rng.choice(['none', 'aperture', 'complex']))
    mask_elem = bool(rng.random() < 0.3)
    wl = float(rng.choice([0.5, 1, 2]))
    E = rng.integers(-32, 33, n) / 8.0 + 1j * rng.integers(-32, 33, n) / 8.0
    stop = None
    if stop_kind == 'aperture':
        stop = (rng.random(n) < 0.7).astype(float) + 0j
    elif stop_kind == 'complex':
        stop = rng.integers(-8, 9, n) / 8.0 + 1j * rng.integers(-8, 9, n) / 8.0
    return {'part': 'C', 'dims': [nx, ny], 'q': q, 'num_airy': na, 'stop_kind': stop_kind, 'mask_elem': mask_elem, 'wavelength': wl,
            'E_re': [float(v) for v in E.real], 'E_im': [float(v) for v in E.imag],
            'stop_re': None if stop is None else [float(v) for v in stop.real], 'stop_im': None if stop is None else [float(v) for v in stop.imag],
            'seed': int(rng.integers(0, 2 ** 31))}


class _LinearProp:
    """An exact linear stand-in for the Fraunhofer propagator (matrices with Gaussian-dyadic entries)."""

    def __init__(self, F, B, pg, fg):
        self.F, self.B, self.pg, self.fg = F, B, pg, fg

    def forward(self, wf):
        hp = _hp()
        return hp.Wavefront(hp.Field(self.F @ np.asarray(wf.electric_field), self.fg), wf.wavelength)

    def backward(self, wf):
        hp = _hp()
        return hp.Wavefront(hp.Field(self.B @ np.asarray(wf.electric_field), self.pg), wf.wavelength)

    __call__ = forward


def run_lyot_case(case):
    hp = _hp()
    nx, ny = case['dims']
    pg = hp.make_pupil_grid([nx, ny], [1, ny / nx])
    with warnings.catch_warnings():
        warnings.simplefilter('ignore')
        fg = hp.make_focal_grid(case['q'], case['num_airy'], pupil_diameter=1, focal_length=1, reference_wavelength=1)
    E = np.array(case['E_re']) + 1j * np.array(case['E_im'])
    stop = None if case['stop_re'] is None else np.array(case['stop_re']) + 1j * np.array(case['stop_im'])
    wl = case['wavelength']
    bad = []
    scale = max(1.0, float(np.abs(E).max()))

    def mk(maskvals):
        f = hp.Field(maskvals, fg)
        return (hp.Apodizer(f), fg) if case['mask_elem'] else (f, None)

    # --- the two identities of the property on the real propagator
    try:
        m, mg = mk(np.ones(fg.size, dtype=complex))
        lyot = hp.LyotCoronagraph(pg, m, None if stop is None else hp.Field(stop, pg), focal_plane_mask_grid=mg)
        wf = hp.Wavefront(hp.Field(E.copy(), pg), wl)
        out = np.asarray(lyot.forward(wf).electric_field)
        want = E if stop is None else E * stop
        if np.abs(out - want).max() > TOL * scale:
            bad.append(('lyot transparent', 'LyotCoronagraph with a fully transmissive mask differs from stop*E by %.3g (%dx%d pupil, %s stop)' % (np.abs(out - want).max(), nx, ny, case['stop_kind'])))
        if not np.array_equal(np.asarray(wf.electric_field), E):
            bad.append(('lyot input-modified', 'LyotCoronagraph.forward changed its input'))
        m0, mg0 = mk(np.zeros(fg.size, dtype=complex))
        occ = hp.OccultedLyotCoronagraph(pg, m0, focal_plane_mask_grid=mg0)
        out0 = np.asarray(occ.forward(hp.Wavefront(hp.Field(E.copy(), pg), wl)).electric_field)
        if np.abs(out0).max() > TOL * scale:
            bad.append(('occulted opaque', 'OccultedLyotCoronagraph with a fully opaque mask returns %.3g' % np.abs(out0).max()))
        # the same two identities for backward (the stop is an Apodizer: backward multiplies by its conjugate)
        wfb = hp.Wavefront(hp.Field(E.copy(), pg), wl)
        outb = np.asarray(lyot.backward(wfb).electric_field)
        wantb = E if stop is None else E * stop.conj()
        if np.abs(outb - wantb).max() > TOL * scale:
            bad.append(('lyot backward-transparent', 'LyotCoronagraph.backward with a fully transmissive mask differs from conj(stop)*E by %.3g (%dx%d pupil, %s stop)' % (np.abs(outb - wantb).max(), nx, ny, case['stop_kind'])))
        if not np.array_equal(np.asarray(wfb.electric_field), E):
            bad.append(('lyot input-modified', 'LyotCoronagraph.backward changed its input'))
        outb0 = np.asarray(occ.backward(hp.Wavefront(hp.Field(E.copy(), pg), wl)).electric_field)
        if np.abs(outb0).max() > TOL * scale:
            bad.append(('occulted backward-opaque', 'OccultedLyotCoronagraph.backward with a fully opaque mask returns %.3g' % np.abs(outb0).max()))
    except Exception as e:  # noqa
        bad.append(('lyot raises', 'Lyot coronagraph raised %s: %s' % (type(e).__name__, str(e)[:80])))
        return None, bad

    # --- the forward algebra with exact linear propagators and an arbitrary mask (correspondence)
    rng = np.random.default_rng(case['seed'])
    n, mdim = pg.size, fg.size

    def cm(r, c):
        return rng.integers(-4, 5, (r, c)) / 4.0 + 1j * rng.integers(-4, 5, (r, c)) / 4.0
    F, B = cm(mdim, n), cm(n, mdim)
    mask = rng.integers(-4, 5, mdim) / 4.0 + 1j * rng.integers(-4, 5, mdim) / 4.0
    m, mg = mk(mask.copy())
    lyot = hp.LyotCoronagraph(pg, m, None if stop is None else hp.Field(stop, pg), focal_plane_mask_grid=mg)
    lyot.prop = _LinearProp(F, B, pg, fg)
    o_l = np.asarray(lyot.forward(hp.Wavefront(hp.Field(E.copy(), pg), wl)).electric_field)
    occ = hp.OccultedLyotCoronagraph(pg, m, focal_plane_mask_grid=mg)
    occ.prop = _LinearProp(F, B, pg, fg)
    o_o = np.asarray(occ.forward(hp.Wavefront(hp.Field(E.copy(), pg), wl)).electric_field)
    # independent brute-force statement of the two formulas
    FE = F @ E
    want_l = E - B @ (FE * (1 - mask))
    if stop is not None:
        want_l = want_l * stop
    want_o = B @ (mask * FE)
    s2 = max(1.0, float(np.abs(want_l).max()), float(np.abs(want_o).max()))
    if np.abs(o_l - want_l).max() > TOL * s2:
        bad.append(('lyot babinet-formula', 'LyotCoronagraph.forward differs from stop*(E - B((1-m) F E)) by %.3g' % np.abs(o_l - want_l).max()))
    if np.abs(o_o - want_o).max() > TOL * s2:
        bad.append(('occulted formula', 'OccultedLyotCoronagraph.forward differs from B(m F E) by %.3g' % np.abs(o_o - want_o).max()))

    def cl(a):
        return rat_list(np.asarray(a).real) + ' ' + rat_list(np.asarray(a).imag)

    def cmx(M):
        return rat_lists(M.real) + ' ' + rat_lists(M.imag)
    lines = ['C09 lyot %s %s %s %s %s' % (cmx(F), cmx(B), cl(mask), '- -' if stop is None else cl(stop), cl(E)),
             'C09 occulted %s %s %s %s' % (cmx(F), cmx(B), cl(mask), cl(E))]
    # --- backward on the same stand-ins
    Y = rng.integers(-16, 17, n) / 8.0 + 1j * rng.integers(-16, 17, n) / 8.0
    wfy = hp.Wavefront(hp.Field(Y.copy(), pg), wl)
    b_l = np.asarray(lyot.backward(wfy).electric_field)
    b_o = np.asarray(occ.backward(hp.Wavefront(hp.Field(Y.copy(), pg), wl)).electric_field)
    if not np.array_equal(np.asarray(wfy.electric_field), Y):
        bad.append(('lyot input-modified', 'LyotCoronagraph.backward changed its input'))
    ys = Y if stop is None else Y * stop.conj()
    wantb_l = ys - B @ ((F @ ys) * (1 - mask.conj()))
    wantb_o = B @ (mask.conj() * (F @ Y))
    s3 = max(1.0, float(np.abs(wantb_l).max()), float(np.abs(wantb_o).max()))
    if np.abs(b_l - wantb_l).max() > TOL * s3:
        bad.append(('lyot backward-formula', 'LyotCoronagraph.backward differs from y\' - B((1-conj m) F y\'), y\' = conj(stop)*y, by %.3g' % np.abs(b_l - wantb_l).max()))
    if np.abs(b_o - wantb_o).max() > TOL * s3:
        bad.append(('occulted backward-formula', 'OccultedLyotCoronagraph.backward differs from B(conj(m) F y) by %.3g' % np.abs(b_o - wantb_o).max()))
    lines += ['C09 lyotb %s %s %s %s %s' % (cmx(F), cmx(B), cl(mask), '- -' if stop is None else cl(stop), cl(Y)),
              'C09 occultedb %s %s %s %s' % (cmx(F), cmx(B), cl(mask), cl(Y))]
    # --- backward is the adjoint of forward when the propagator's backward is the adjoint of its forward
    adjoint_pair = bool(rng.random() < 0.75)
    F2 = cm(mdim, n)
    B2 = F2.conj().T.copy() if adjoint_pair else cm(n, mdim)
    lyot.prop = _LinearProp(F2, B2, pg, fg)
    fx = np.asarray(lyot.forward(hp.Wavefront(hp.Field(E.copy(), pg), wl)).electric_field)
    by = np.asarray(lyot.backward(hp.Wavefront(hp.Field(Y.copy(), pg), wl)).electric_field)
    lhs, rhs = complex(np.vdot(Y, fx)), complex(np.vdot(by, E))
    s4 = max(1.0, abs(lhs), abs(rhs))
    if adjoint_pair and abs(lhs - rhs) > TOL * s4:
        bad.append(('lyot backward-adjoint', '<y, forward x> = %r but <backward y, x> = %r with a propagator pair B = F^H' % (lhs, rhs)))
    adj = {'line': 'C09 lyotadj %s %s %s %s %s %s' % (cmx(F2), cmx(B2), cl(mask), '- -' if stop is None else cl(stop), cl(E), cl(Y)),
           'lhs': lhs, 'rhs': rhs, 'pair': adjoint_pair, 'scale': s4}
    return {'lines': lines, 'outs': [o_l, o_o, b_l, b_o], 'scale': max(s2, s3), 'adj': adj}, bad


def part_c(ctx):
    n = ctx.scale(60, 600)
    lines, plan = [], []
    for k in range(n):
        case = gen_lyot_case(ctx.rng, big=(ctx.tier == 'thorough' and k % 5 == 0))
        obs, bad = run_lyot_case(case)
        for key, what in bad:
            ctx.violation(key, what, case)
        nx, ny = case['dims']
        ctx.count('C:stop:' + case['stop_kind'])
        ctx.count('C:mask-as-element' if case['mask_elem'] else 'C:mask-as-field')
        ctx.count('C:pupil:%s' % ('square' if nx == ny else 'nonsquare'))
        ctx.case({k2: case[k2] for k2 in ('dims', 'q', 'num_airy', 'stop_kind', 'mask_elem', 'wavelength')},
                 ('C', nx, ny, case['q'], case['num_airy'], case['stop_kind'], case['mask_elem']))
        if obs is not None:
            plan.append((case, obs, len(lines)))
            lines += obs['lines'] + [obs['adj']['line']]
    out = ctx.model(lines)
    for case, obs, base in plan:
        short = {k2: case[k2] for k2 in ('dims', 'q', 'num_airy', 'stop_kind', 'seed')}
        for k in range(4):
            toks = out[base + k].split()
            if toks[0] != 'ok':
                raise MachineryError('model refused a Lyot request: %s' % out[base + k][:80])
            ref = np.array([float(v) for v in parse_rat_list(toks[1])]) + 1j * np.array([float(v) for v in parse_rat_list(toks[2])])
            ctx.traces_validated += 1
            if np.abs(ref - obs['outs'][k]).max() > TOL * obs['scale']:
                ctx.disagree('C09 ' + ('lyot', 'occulted', 'lyot backward', 'occulted backward')[k], {'case': short, 'max_abs_diff': float(np.abs(ref - obs['outs'][k]).max())})
        # lyot_backward_adjoint: hypothesis and conclusion evaluated by the model, conclusion compared with the real methods
        a = obs['adj']
        toks = out[base + 4].split()
        if toks[0] != 'ok':
            raise MachineryError('model refused lyotadj: %s' % out[base + 4][:80])
        m = dict(t.split('=') for t in toks[1:])

        def c1(t):
            re_, im_ = t.split(',')
            return complex(float(Fraction(re_)), float(Fraction(im_)))
        ctx.traces_validated += 1
        hyp = Fraction(m['adj']) == 0
        ctx.count('C:adjoint-pair' if hyp else 'C:non-adjoint-pair:' + ('unequal' if m['lhs'] != m['rhs'] else 'equal'))
        if hyp != a['pair']:
            ctx.disagree('C09 lyot adjoint', {'case': short, 'what': 'hypothesis B = F^H: model %s, generator %s' % (hyp, a['pair'])})
        elif hyp and m['lhs'] != m['rhs']:
            ctx.disagree('C09 lyot adjoint', {'case': short, 'what': 'hypothesis holds but the model sides differ', 'model': [m['lhs'], m['rhs']]})
        elif abs(c1(m['lhs']) - a['lhs']) > TOL * a['scale'] or abs(c1(m['rhs']) - a['rhs']) > TOL * a['scale']:
            ctx.disagree('C09 lyot adjoint', {'case': short, 'model': [m['lhs'], m['rhs']], 'impl': [repr(a['lhs']), repr(a['rhs'])]})


# =============================================================================================
# D. multi-scale level bookkeeping

def observe_levels(case):
    """Construct the real coronagraph; report what it built."""
    hp = _hp()
    ny, nx = case['shape']
    dx, dy = case['delta']
    pg = hp.CartesianGrid(hp.RegularCoords([dx, dy], [nx, ny], [-dx * (nx - 1) / 2, -dy * (ny - 1) / 2]))
    q, s, W, kind = case['q'], case['s'], case['w'], case['kind']
    unit = lambda grid: hp.Field(np.ones(grid.size, dtype=complex), grid)   # noqa
    try:
        with warnings.catch_warnings():
            warnings.simplefilter('ignore')
            if kind == 'unit':
                c = hp.MultiScaleCoronagraph(pg, unit, None, q, s, W)
            elif kind == 'vortex':
                c = hp.VortexCoronagraph(pg, case.get('charge', 2), None, q, s, W)
            elif kind == 'fqpm':
                c = hp.FQPMCoronagraph(pg, None, q, s, W)
            else:
                c = hp.VectorVortexCoronagraph(case.get('charge', 2), None, q=q, scaling_factor=s, window_size=W)
                inst = c.get_instance_data(pg, None, 1)
    except Exception as e:  # noqa
        return {'status': _errkind(e), 'msg': str(e)[:80]}
    if kind == 'vvc':
        masks, props = inst.jones_matrices, inst.props
    else:
        masks, props = c.focal_masks, c.props
    obs = {'status': 'ok', 'levels': len(masks), 'grids': [], 'props': [], 'windows': []}
    for mk, pr in zip(masks, props):
        g = mk.grid
        obs['grids'].append(([int(v) for v in g.dims], [float(v) for v in g.delta], [float(v) for v in g.zero]))
        # index, on each axis, of the sample at the origin (the mask singularity / window peak must sit there)
        org = []
        for k in range(2):
            hit = np.flatnonzero(np.abs(np.asarray(g.separated_coords[k])) <= 1e-9 * float(g.delta[k]))
            org.append(int(hit[0]) if len(hit) == 1 else -1)
        obs.setdefault('origins', []).append(org)
        obs['props'].append({'FourierFilter': 0, 'FraunhoferPropagator': 1}.get(type(pr).__name__, -1))
    if kind == 'unit':
        # recover every window: M_i = (1 - w_i) - sum_j resample(M_j)
        for i in range(len(masks) - 1):
            acc = np.asarray(masks[i]).copy()
            for j in range(i):
                fft = hp.FastFourierTransform(masks[j].grid)
                mft = hp.MatrixFourierTransform(masks[i].grid, fft.output_grid)
                acc = acc + np.asarray(mft.backward(fft.forward(masks[j])))
            obs['windows'].append((1 - acc).reshape(masks[i].grid.shape))
    return obs


def expected_window(d0, d1, W, before, after):
    """Periodic Hann window of W samples placed `before` samples into each axis of a (d1, d0) array."""
    hann = 0.5 * (1 - np.cos(2 * np.pi * np.arange(W) / W))
    ax = np.zeros(before + W + after)
    ax[before:before + W] = hann
    return np.outer(ax, ax)


def check_levels_case(ctx, case, resp, obs):
    """Correspondence of one constructed coronagraph with the model's answer line."""
    ctx.traces_validated += 1
    m = dict(t.split('=', 1) for t in resp.split()[1:])
    lv, boundary, accepted = int(m['levels']), m['boundary'] == '1', m['accepted'] == '1'
    short = {k: case[k] for k in ('kind', 'shape', 'delta', 'q', 's', 'w')}
    if obs['status'] != 'ok':
        if obs['status'] != 'value' or accepted:
            # the float level count may exceed the exact one when q/2 is a power of s: then one more
            # (identical) window is padded, which cannot turn acceptance into refusal
            ctx.disagree('C09 levels', {'case': short, 'impl': obs['status'] + ' ' + obs.get('msg', ''), 'model': 'accepted' if accepted else 'raises'})
        return
    if obs['levels'] != lv:
        if boundary and obs['levels'] == lv + 1:
            ctx.count('D:float-log-one-more-level')
            ctx.boundary_skipped += 1
            return
        ctx.disagree('C09 levels', {'case': short, 'impl_levels': obs['levels'], 'model_levels': lv})
        return
    if not accepted:
        ctx.disagree('C09 levels', {'case': short, 'impl': 'constructed', 'model': 'raises', 'pad': m['pad']})
        return
    rows = m['lv'].split(';')
    pads = [] if m['pad'] == '-' else m['pad'].split(';')
    for i, row in enumerate(rows):
        qi, na, dims, delta, zero, kind, origin = row.split('|')
        d = [int(v) for v in dims.split(',')]
        de = [float(Fraction(v)) for v in delta.split(',')]
        ze = [float(Fraction(v)) for v in zero.split(',')]
        gd, gde, gze = obs['grids'][i]
        ok = gd == d and all(abs(a - b) <= 1e-12 * abs(b) for a, b in zip(gde, de)) and \
            all(abs(a - b) <= 1e-12 * max(abs(b), de[k]) for k, (a, b) in enumerate(zip(gze, ze))) and obs['props'][i] == int(kind)
        if not ok:
            ctx.disagree('C09 levels', {'case': short, 'level': i, 'impl': [gd, gde, gze, obs['props'][i]], 'model': row})
            return
        ctx.traces_validated += 1
        if obs['origins'][i] != [int(v) for v in origin.split(',')]:
            ctx.disagree('C09 origin index', {'case': short, 'level': i, 'impl_origin_sample': obs['origins'][i], 'model': origin})
            return
        if i < len(pads) and obs['windows']:
            _, b, a = pads[i].split(':')
            exp = expected_window(d[0], d[1], case['w'], int(b), int(a))
            w = obs['windows'][i]
            if exp.shape != w.shape or np.abs(exp - w).max() > 1e-9:
                ctx.disagree('C09 window', {'case': short, 'level': i, 'model_pad': pads[i],
                                            'max_abs_diff': None if exp.shape != w.shape else float(np.abs(exp - w).max())})
                return


def levels_oracle(case, obs):
    """Geometry the property relies on, stated on the real object alone: the finest level reaches q,
    every finer level spans exactly the window of the previous one, every window is centred on the
    origin sample and is mirror-symmetric about it."""
    bad = []
    if obs['status'] != 'ok':
        return bad
    g = obs['grids']
    W, s, q = case['w'], case['s'], case['q']
    ny, nx = case['shape']
    if not g:
        bad.append(('multiscale no-levels', 'the coronagraph was built without any level (q=%g, scaling factor %g)' % (q, s)))
        return bad
    if ny != nx:
        return bad
    res = 1.0 / (nx * case['delta'][0])              # lambda/D in focal units
    if res / g[-1][1][0] < q * (1 - 1e-9):
        bad.append(('multiscale q-not-reached', 'finest level samples %.4g px per lambda/D, q=%g requested' % (res / g[-1][1][0], q)))
    for i in range(1, len(g)):
        if float(W * s).is_integer():
            ext, prev = g[i][0][0] * g[i][1][0], W * g[i - 1][1][0]
            if abs(ext - prev) > 1e-9 * prev:
                bad.append(('multiscale level-extent', 'level %d spans %.6g, window of level %d spans %.6g' % (i, ext, i - 1, prev)))
    for i, w in enumerate(obs['windows']):
        d = g[i][0][0]
        o = d // 2
        if d % 2 == 0:
            k = np.arange(1, d)
            sym = np.abs(w[np.ix_(k, k)] - w[np.ix_(d - k, d - k)]).max()
            if sym > 1e-9 or abs(w[o, o] - 1) > 1e-9:
                bad.append(('multiscale window-centre', 'level %d: window not centred on the origin sample (value there %.6g, asymmetry %.3g)' % (i, w[o, o], sym)))
    return bad


def gen_levels_box(ctx):
    rng = ctx.rng
    S = [1.5, 2, 2.5, 3, 4]
    Q = [1, 2, 3, 4, 6, 8, 9, 16, 27, 32]
    box = []
    for N in range(2, ctx.scale(9, 13)):
        for W in range(1, ctx.scale(14, 22)):
            for s in S:
                for q in Q:
                    box.append((N, N, W, s, q))
    if ctx.quick():
        idx = rng.choice(len(box), 420, replace=False)
        box = [box[i] for i in sorted(idx)]
    cases = []
    for (ny, nx, W, s, q) in box:
        cases.append({'part': 'D', 'kind': 'unit', 'shape': [ny, nx], 'delta': [1.0 / 8, 1.0 / 8], 'q': q, 's': s, 'w': W})
    # non-square pupils, unequal spacings, odd mixes, other element kinds, non-dyadic q
    for _ in range(ctx.scale(60, 600)):
        ny, nx = int(rng.integers(2, 12)), int(rng.integers(2, 12))
        if rng.random() < 0.6:
            nx = ny
        dx = float(2.0 ** -int(rng.integers(1, 6)))
        dy = dx if rng.random() < 0.7 else float(2.0 ** -int(rng.integers(1, 6)))
        W = int(rng.integers(1, 25))
        if rng.random() < 0.5:
            W = 2 * (W // 2 + 1)
        cases.append({'part': 'D', 'kind': str(rng.choice(['unit', 'vortex', 'fqpm', 'vvc'])), 'shape': [ny, nx], 'delta': [dx, dy],
                      'q': float(rng.integers(3, 200)) / float(rng.choice([1, 2, 4])), 's': float(rng.choice([1.25, 1.5, 2, 3, 4, 5, 8])), 'w': W,
                      'charge': int(rng.choice([2, 4, 6, 8]))})
    return cases


def part_d(ctx, extra_cases=()):
    cases = gen_levels_box(ctx) + list(extra_cases)
    lines = []
    for case in cases:
        ny, nx = case['shape']
        lines.append('C09 levels %d %d %s %s %s %s %d' % (ny, nx, rat(case['delta'][0]), rat(case['delta'][1]), rat(case['q']), rat(case['s']), case['w']))
    out = ctx.model(lines)
    for case, resp in zip(cases, out):
        if not resp.startswith('ok'):
            raise MachineryError('model refused %r: %s' % (case, resp))
        if case['q'] * case['s'] <= 2:
            ctx.boundary_skipped += 1     # fewer than one level: outside the model's domain (q > 2/s)
            continue
        obs = observe_levels(case)
        for key, what in levels_oracle(case, obs):
            ctx.violation(key, what, case)
        check_levels_case(ctx, case, resp, obs)
        ny, nx = case['shape']
        ctx.count('D:kind:' + case['kind'])
        ctx.count('D:status:' + obs['status'])
        if obs['status'] == 'ok':
            ctx.count('D:levels:%d' % obs['levels'])
        ctx.count('D:pupil:%s' % ('square' if nx == ny else 'nonsquare'))
        ctx.case({k: case[k] for k in ('kind', 'shape', 'q', 's', 'w')} if obs['status'] == 'ok' and obs['levels'] > 2 else None,
                 ('D', case['kind'], ny, nx, case['q'], case['s'], case['w']) if obs['status'] == 'ok' and obs['levels'] > 1 else None)


# =============================================================================================
# E. measured leakage and throughput

MIN_Q = {2: 32, 4: 64, 6: 256, 8: 1024}      # documented sampling requirement per charge


def gen_leak_case(rng, big):
    kind = str(rng.choice(['vortex', 'vvc', 'fqpm'], p=[.45, .3, .25]))
    charge = int(rng.choice([2, 4, 6, 8]))
    N = int(rng.integers(32, 49 if not big else 97))
    s = float(rng.choice([2, 2.5, 3, 4]))
    W = int(rng.choice([16, 20, 24, 32]))
    while not float(W * s).is_integer() or int(W * s) % 2:
        W += 2
    qmin = MIN_Q[charge] if kind != 'fqpm' else 8
    q = float(qmin * int(rng.choice([1, 1, 2])))
    if rng.random() < 0.3:
        q = float(qmin + int(rng.integers(0, qmin)))
    return {'part': 'E', 'kind': kind, 'charge': charge, 'N': N, 'D': float(rng.choice([1, 2, 0.5])), 'q': q, 's': s, 'w': W,
            'supersample': int(rng.choice([1, 4])), 'lyot': 0.95, 'wavelengths': [1.0, float(rng.choice([0.5, 2.0, 1.6e-6]))],
            'azimuth_deg': [int(rng.integers(0, 360)) for _ in range(2)], 'polarised': bool(kind == 'vvc' and rng.random() < 0.5)}


def run_leak_case(case):
    hp = _hp()
    N, D = case['N'], case['D']
    pg = hp.make_pupil_grid(N, D)
    ss = case['supersample']
    ev = (lambda f: hp.evaluate_supersampled(f, pg, ss)) if ss > 1 else (lambda f: f(pg))
    ap = ev(hp.make_circular_aperture(D))
    ls = ev(hp.make_circular_aperture(case['lyot'] * D))
    q, s, W = case['q'], case['s'], case['w']
    bad, meas = [], []
    name = {'vortex': 'vortex charge %d' % case['charge'], 'vvc': 'vector vortex charge %d' % case['charge'], 'fqpm': 'fqpm'}[case['kind']]
    try:
        with warnings.catch_warnings():
            warnings.simplefilter('ignore')
            if case['kind'] == 'vortex':
                c = hp.VortexCoronagraph(pg, case['charge'], ls, q=q, scaling_factor=s, window_size=W)
            elif case['kind'] == 'vvc':
                c = hp.VectorVortexCoronagraph(case['charge'], ls, q=q, scaling_factor=s, window_size=W)
            else:
                c = hp.FQPMCoronagraph(pg, ls, q=q, scaling_factor=s, window_size=W)
            for wl in case['wavelengths']:
                stokes = (1, 0.3, -0.2, 0.1) if case.get('polarised') else None
                wf = hp.Wavefront(hp.Field(np.asarray(ap, dtype=complex), pg), wl, input_stokes_vector=stokes)
                on = float(c.forward(wf).total_power / wf.total_power)
                offs = []
                for az in case['azimuth_deg']:
                    a = math.radians(az)
                    if case['kind'] == 'fqpm':
                        # an ideal FQPM attenuates sources on its quadrant transitions: stay >= 20 deg away
                        a = math.radians(20 + (az % 50) + 90 * (az // 90))
                    tilt = np.exp(2j * np.pi * 10 / D * (pg.x * math.cos(a) + pg.y * math.sin(a)))
                    wf2 = hp.Wavefront(hp.Field(np.asarray(ap * tilt, dtype=complex), pg), wl, input_stokes_vector=stokes)
                    offs.append(float(c.forward(wf2).total_power / wf2.total_power))
                meas.append((wl, on, min(offs)))
                if not on < 0.01:
                    bad.append(('%s on-axis' % case['kind'], '%s, N=%d q=%g s=%g window=%d wavelength=%g: on-axis transmission %.4g >= 1%%' % (name, N, q, s, W, wl, on)))
                if not min(offs) > 0.5:
                    bad.append(('%s off-axis' % case['kind'], '%s, N=%d q=%g s=%g window=%d wavelength=%g: transmission at 10 lambda/D %.4g <= 50%%' % (name, N, q, s, W, wl, min(offs))))
    except Exception as e:  # noqa
        bad.append(('%s raises' % case['kind'], '%s, N=%d q=%g s=%g window=%d raised %s: %s' % (name, N, q, s, W, type(e).__name__, str(e)[:80])))
    if len(meas) == 2 and abs(meas[0][1] - meas[1][1]) > 1e-9 + 1e-6 * meas[0][1]:
        bad.append(('%s chromatic' % case['kind'], '%s: on-axis transmission depends on wavelength (%.6g vs %.6g)' % (name, meas[0][1], meas[1][1])))
    return meas, bad


DIRECTED_E = [
    {'part': 'E', 'kind': k, 'charge': ch, 'N': N, 'D': 1.0, 'q': float(q), 's': float(s), 'w': W, 'supersample': ss, 'lyot': 0.95,
     'wavelengths': [1.0, 2.0], 'azimuth_deg': [0, 117], 'polarised': False}
    for (k, ch, q, N, s, W, ss) in [('vortex', 2, 32, 32, 4, 32, 4), ('vortex', 4, 64, 33, 2, 16, 4), ('vortex', 6, 256, 40, 4, 32, 1),
                                    ('vortex', 8, 1024, 36, 4, 32, 4), ('vvc', 2, 32, 32, 4, 32, 4), ('vvc', 4, 64, 47, 4, 24, 4),
                                    ('vvc', 8, 1024, 32, 4, 32, 1), ('fqpm', 0, 32, 32, 4, 32, 4), ('fqpm', 0, 128, 33, 2, 16, 1)]
]


def part_e(ctx):
    cases = list(DIRECTED_E)
    for k in range(ctx.scale(22, 260)):
        cases.append(gen_leak_case(ctx.rng, big=(ctx.tier == 'thorough' and k % 6 == 0)))
    worst_on, worst_off = {}, {}
    geo = []
    t0 = time.time()
    budget = ctx.scale(28, 330)
    for case in cases:
        if time.time() - t0 > budget:
            ctx.count('E:skipped-for-time')
            continue
        meas, bad = run_leak_case(case)
        for key, what in bad:
            ctx.violation(key, what, case)
        lab = case['kind'] + ('-%d' % case['charge'] if case['kind'] != 'fqpm' else '')
        ctx.count('E:' + lab)
        ctx.count('E:N-%s' % ('odd' if case['N'] % 2 else 'even'))
        ctx.count('E:s=%g' % case['s'])
        ctx.count('E:window=%d' % case['w'])
        for wl, on, off in meas:
            worst_on[lab] = max(worst_on.get(lab, 0.0), on)
            worst_off[lab] = min(worst_off.get(lab, 1.0), off)
        ctx.case({k: case[k] for k in ('kind', 'charge', 'N', 'q', 's', 'w', 'supersample')},
                 ('E', case['kind'], case['charge'], case['N'], case['q'], case['s'], case['w'], case['supersample']))
        # the same configuration also feeds the level-geometry correspondence
        d = case['D'] / case['N']
        geo.append({'part': 'D', 'kind': case['kind'], 'shape': [case['N'], case['N']], 'delta': [d, d], 'q': case['q'], 's': case['s'],
                    'w': case['w'], 'charge': case['charge']})
    ctx.extra['measured_worst_on_axis_transmission'] = worst_on
    ctx.extra['measured_least_off_axis_transmission_at_10_lambda_over_D'] = worst_off
    return geo


# =============================================================================================
# F. the algebra of the multi-scale construction on exact linear stand-ins (round 4)

class _MSWorld:
    """Replaces, inside hcipy.coronagraphy.multi_scale, every Fourier object by an exact linear
    stand-in with Gaussian-dyadic matrices, so that the real constructor and the real forward run
    their own algebra (mask recursion, window complement, sum over levels, wavelength handling,
    Lyot stop) on operators the model can be given exactly."""

    def __init__(self, seed, n):
        self.rng = np.random.default_rng(seed)
        self.n = n
        self.grids = []         # focal grid of level i (by identity)
        self.F, self.B, self.R = {}, {}, {}
        self.wavelengths = []   # wavelengths the propagators were called with

    def cm(self, r, c):
        return self.rng.integers(-2, 3, (r, c)) / 2.0 + 1j * self.rng.integers(-2, 3, (r, c)) / 2.0

    def level_of(self, grid):
        # by geometry, not identity: an agnostic element (vector vortex) builds one instance per wavelength
        for i, g in enumerate(self.grids):
            if g is grid or (np.array_equal(g.dims, grid.dims) and np.array_equal(g.delta, grid.delta) and np.array_equal(g.zero, grid.zero)):
                return i
        raise MachineryError('stand-in: unknown focal grid')

    def ops(self, i):
        if i not in self.F:
            d = self.grids[i].size
            self.F[i], self.B[i] = self.cm(d, self.n), self.cm(self.n, d)
        return self.F[i], self.B[i]

    def patch(self):
        import hcipy.coronagraphy.multi_scale as ms
        import hcipy.coronagraphy.vortex as vx
        hp = _hp()
        world = self
        real_mfg = ms.make_focal_grid

        def make_focal_grid(*a, **k):
            with warnings.catch_warnings():
                warnings.simplefilter('ignore')
                g = real_mfg(*a, **k)
            for g0 in world.grids:
                if np.array_equal(g0.dims, g.dims) and np.array_equal(g0.delta, g.delta) and np.array_equal(g0.zero, g.zero):
                    return g0
            world.grids.append(g)
            return g

        # every stand-in acts on the last axis, so scalar, vector and tensor fields go through alike
        class FFT:
            def __init__(self, grid):
                self.src = world.level_of(grid)
                self.output_grid = grid

            def forward(self, field):
                return field

        class MFT:
            def __init__(self, focal_grid, out_grid):
                self.i, self.j, self.grid = world.level_of(focal_grid), world.level_of(out_grid), focal_grid

            def backward(self, field):
                key = (self.j, self.i)
                if key not in world.R:
                    world.R[key] = world.cm(world.grids[self.i].size, world.grids[self.j].size)
                return hp.Field(np.asarray(field) @ world.R[key].T, self.grid)

        class Filter:
            def __init__(self, input_grid, mask, q=1):
                self.grid, self.mask = input_grid, mask
                self.level = world.level_of(mask.grid)

            def _apply(self, field, adjoint):
                F, B = world.ops(self.level)
                foc = np.asarray(field) @ F.T
                m = np.asarray(self.mask)
                if m.ndim == 3:
                    # a matrix transfer function: the real FourierFilter uses the conjugate transpose for the adjoint
                    tf = m.conj().transpose(1, 0, 2) if adjoint else m
                    g = self.mask.grid
                    prod = np.asarray(hp.field_dot(hp.Field(tf, g), hp.Field(foc, g)))
                else:
                    prod = (m.conj() if adjoint else m) * foc
                return hp.Field(prod @ B.T, self.grid)

            def forward(self, field):
                return self._apply(field, False)

            def backward(self, field):      # the adjoint filter: same transforms, conjugated transfer function
                return self._apply(field, True)

        class Prop:
            def __init__(self, input_grid, focal_grid):
                self.pg, self.fg, self.level = input_grid, focal_grid, world.level_of(focal_grid)

            def forward(self, wf):
                world.wavelengths.append(float(wf.wavelength))
                F, _ = world.ops(self.level)
                return hp.Wavefront(hp.Field(np.asarray(wf.electric_field) @ F.T, self.fg), wf.wavelength, wf.input_stokes_vector)

            def backward(self, wf):
                world.wavelengths.append(float(wf.wavelength))
                _, B = world.ops(self.level)
                return hp.Wavefront(hp.Field(np.asarray(wf.electric_field) @ B.T, self.pg), wf.wavelength, wf.input_stokes_vector)

            __call__ = forward

        repl = {'make_focal_grid': make_focal_grid, 'FastFourierTransform': FFT, 'MatrixFourierTransform': MFT,
                'FourierFilter': Filter, 'FraunhoferPropagator': Prop}
        saved = [(mod, k, getattr(mod, k)) for mod in (ms, vx) for k in repl]
        for mod in (ms, vx):
            for k, v in repl.items():
                setattr(mod, k, v)
        return saved

    @staticmethod
    def unpatch(saved):
        for mod, k, v in saved:
            setattr(mod, k, v)


def _opmatrix(apply, n_in):
    cols = []
    for k in range(n_in):
        e = np.zeros(n_in, dtype=complex)
        e[k] = 1
        cols.append(np.asarray(apply(e), dtype=complex).ravel())
    return np.array(cols).T


class _MSRealWorld:
    """Round 6: nothing is replaced. The real constructor and the real forward/backward run on hcipy's own
    FastFourierTransform / MatrixFourierTransform / FourierFilter / FraunhoferPropagator; afterwards the matrices
    of exactly those operators (level 0: the zero-padded FFT pair FourierFilter builds; level i >= 1: the
    coronagraph's own FraunhoferPropagator objects; resampling j -> i: MatrixFourierTransform.backward o
    FastFourierTransform.forward as the constructor composes them) are read off by applying them to unit
    vectors, and handed to the model as exact rationals. The model then computes the stored masks and
    forward/backward of the REAL coronagraph on these tiny grids."""

    def __init__(self, n):
        self.n = n
        self.grids = []
        self.F, self.B, self.R = {}, {}, {}
        self.wavelengths = []

    def patch(self):
        return []

    @staticmethod
    def unpatch(saved):
        pass

    def ops(self, i):
        return self.F[i], self.B[i]

    def observe(self, pg, grids, props):
        hp = _hp()
        self.grids = list(grids)
        fft0 = hp.FastFourierTransform(pg, 2)
        if fft0.output_grid.size != grids[0].size:
            raise RuntimeError('level-0 FFT grid has %d points, the focal mask %d' % (fft0.output_grid.size, grids[0].size))
        self.F[0] = _opmatrix(lambda e: fft0.forward(hp.Field(e, pg)), pg.size)
        self.B[0] = _opmatrix(lambda v: fft0.backward(hp.Field(v, fft0.output_grid)), grids[0].size)
        for i in range(1, len(grids)):
            prop = props[i]
            self.F[i] = _opmatrix(lambda e: prop.forward(hp.Wavefront(hp.Field(e, pg), 1)).electric_field, pg.size)
            self.B[i] = _opmatrix(lambda v: prop.backward(hp.Wavefront(hp.Field(v, grids[i]), 1)).electric_field, grids[i].size)
        for i in range(len(grids)):
            for j in range(i):
                fft = hp.FastFourierTransform(grids[j])
                mft = hp.MatrixFourierTransform(grids[i], fft.output_grid)
                self.R[(j, i)] = _opmatrix(lambda v: mft.backward(fft.forward(hp.Field(v, grids[j]))), grids[j].size)


MSREAL_CONFIGS = [(2, 2, 2, 4, 'vortex'), (3, 2, 2, 4, 'fqpm'), (2, 2, 2, 8, 'vvc'), (2, 2, 2, 4, 'random'), (3, 2, 2, 8, 'vortex'), (4, 2, 2, 4, 'random'),
                  (2, 2, 3, 6, 'fqpm'), (2, 4, 2, 4, 'vortex'), (3, 2, 2, 4, 'vvc')]


def gen_msreal_case(rng, k):
    N, W, s, q, kind = MSREAL_CONFIGS[k % len(MSREAL_CONFIGS)]
    return {'part': 'F', 'real': True, 'N': N, 'w': W, 's': float(s), 'q': float(q), 'kind': kind, 'charge': int(rng.choice([2, 4])),
            'stop': bool(rng.random() < 0.5), 'seed': int(rng.integers(0, 2 ** 31)), 'wavelengths': [1.0, float(rng.choice([0.5, 2.0, 1.6e-6]))]}


MSALG_CONFIGS = [(2, 2, 2, 4), (2, 2, 2, 8), (2, 2, 3, 6), (2, 2, 3, 18), (3, 2, 2, 8), (3, 2, 2, 16), (3, 2, 3, 6), (2, 4, 2, 4),
                 (2, 4, 2, 8), (4, 2, 2, 4), (4, 2, 2, 8), (2, 2, 2, 2), (3, 2, 2, 4)]


def gen_msalg_case(rng, k):
    N, W, s, q = MSALG_CONFIGS[k % len(MSALG_CONFIGS)] if k < len(MSALG_CONFIGS) else MSALG_CONFIGS[int(rng.integers(0, len(MSALG_CONFIGS)))]
    return {'part': 'F', 'N': N, 'w': W, 's': float(s), 'q': float(q), 'kind': ('vvc' if k in (2, 9) else str(rng.choice(['random', 'random', 'vortex', 'fqpm', 'vvc']))),
            'charge': int(rng.choice([2, 4, 6])), 'stop': bool(rng.random() < 0.5), 'seed': int(rng.integers(0, 2 ** 31)),
            'wavelengths': [1.0, float(rng.choice([0.5, 2.0, 1.6e-6]))]}


def run_msalg_case(case):
    """The real constructor + forward/backward on stand-ins; brute-force statement of the design; the model requests
    (one per Jones component for the vector vortex, whose make_instance/forward/backward are a second copy of the code)."""
    hp = _hp()
    N, W, s, q = case['N'], case['w'], case['s'], case['q']
    pg = hp.make_pupil_grid(N)
    n = pg.size
    real = bool(case.get('real'))
    world = _MSRealWorld(n) if real else _MSWorld(case['seed'], n)
    rng = np.random.default_rng(case['seed'] + 1)
    vvc = case['kind'] == 'vvc'
    comps = [(a, c) for a in range(2) for c in range(2)] if vvc else [None]

    def raw_mask(grid, comp=None):
        if case['kind'] == 'vortex':
            v = np.exp(1j * case['charge'] * grid.as_('polar').theta) * (1 - (grid.as_('polar').r < 0.5e-9))
        elif case['kind'] == 'fqpm':
            v = (np.sign(grid.x) * np.sign(grid.y)).astype(complex)
        elif vvc:
            J = hp.LinearRetarder(np.pi, hp.Field(case['charge'] / 2 * grid.as_('polar').theta, grid)).jones_matrix
            v = np.asarray(J)[comp[0], comp[1]] * (1 - (grid.as_('polar').r < 0.5e-9))
        else:
            v = rng.integers(-4, 5, grid.size) / 4.0 + 1j * rng.integers(-4, 5, grid.size) / 4.0
        return np.asarray(v, dtype=complex)

    made = []

    def complex_mask(grid):
        v = raw_mask(grid)
        made.append(v.copy())
        return hp.Field(v.copy(), grid)
    stop = (rng.integers(-4, 5, n) / 4.0 + 1j * rng.integers(-4, 5, n) / 4.0) if case['stop'] else None
    E = rng.integers(-8, 9, n) / 4.0 + 1j * rng.integers(-8, 9, n) / 4.0
    bad = []
    saved = world.patch()
    try:
        stop_f = None if stop is None else hp.Field(stop.copy(), pg)
        if case['kind'] == 'vortex':
            c = hp.VortexCoronagraph(pg, case['charge'], stop_f, q, s, W)
        elif case['kind'] == 'fqpm':
            c = hp.FQPMCoronagraph(pg, stop_f, q, s, W)
        elif vvc:
            c = hp.VectorVortexCoronagraph(case['charge'], stop_f, q=q, scaling_factor=s, window_size=W)
        else:
            c = hp.MultiScaleCoronagraph(pg, complex_mask, stop_f, q, s, W)
        outs = []
        for wl in case['wavelengths']:
            wf = hp.Wavefront(hp.Field(E.copy(), pg), wl)
            o = c.forward(wf)
            outs.append(np.asarray(o.electric_field).copy())
            if o.wavelength != wl or wf.wavelength != wl:
                bad.append(('multiscale wavelength-bookkeeping', 'forward at wavelength %g returned wavelength %r and left the input at %r' % (wl, o.wavelength, wf.wavelength)))
            if not np.array_equal(np.asarray(wf.electric_field), E):
                bad.append(('multiscale input-modified', 'forward changed its input'))
        if vvc:
            inst = c.get_instance_data(pg, None, case['wavelengths'][0])
            masks_all = [np.asarray(m).copy() for m in inst.jones_matrices]
            mgrids, mprops = [m.grid for m in inst.jones_matrices], list(inst.props)
        else:
            masks_all = [np.asarray(m).copy() for m in c.focal_masks]
            mgrids, mprops = [m.grid for m in c.focal_masks], list(c.props)
        # backward through the same object
        Y = rng.integers(-8, 9, n) / 4.0 + 1j * rng.integers(-8, 9, n) / 4.0
        outsb = []
        for wl in case['wavelengths']:
            wf = hp.Wavefront(hp.Field(Y.copy(), pg), wl)
            o = c.backward(wf)
            outsb.append(np.asarray(o.electric_field).copy())
            if o.wavelength != wl or wf.wavelength != wl:
                bad.append(('multiscale wavelength-bookkeeping', 'backward at wavelength %g returned wavelength %r and left the input at %r' % (wl, o.wavelength, wf.wavelength)))
            if not np.array_equal(np.asarray(wf.electric_field), Y):
                bad.append(('multiscale input-modified', 'backward changed its input'))
    except Exception as e:  # noqa
        return None, [('multiscale stand-in raises', '%s on stand-ins raised %s: %s' % (case['kind'], type(e).__name__, str(e)[:100]))]
    finally:
        world.unpatch(saved)
    if real:
        try:
            with warnings.catch_warnings():
                warnings.simplefilter('ignore')
                world.observe(pg, mgrids, mprops)
        except MachineryError:
            raise
        except Exception as e:  # noqa
            # a fault while observing the implementation is a broken correspondence, not a violation
            return {'unreadable': 'reading the matrices of the real Fourier objects raised %s: %s' % (type(e).__name__, str(e)[:100]), 'parts': [], 'L': 0}, bad
    L = len(masks_all)
    grids = world.grids[:L]
    if any(w != 1.0 for w in world.wavelengths):
        bad.append(('multiscale chromatic-propagator-call', 'a propagator was called at wavelength %r (must be 1 after rescaling)' % sorted(set(world.wavelengths))[:3]))
    ctol = TOL * max(1.0, float(np.abs(outs[0]).max())) if real else 0
    if outs[0].shape != outs[1].shape or np.abs(outs[0] - outs[1]).max() > ctol:
        bad.append(('multiscale chromatic', 'the output field depends on the wavelength'))
    if outsb[0].shape != outsb[1].shape or np.abs(outsb[0] - outsb[1]).max() > (TOL * max(1.0, float(np.abs(outsb[0]).max())) if real else 0):
        bad.append(('multiscale chromatic', 'the output field of backward depends on the wavelength'))
    want_shape = (2, 2, n) if vvc else (n,)
    if outs[0].shape != want_shape or outsb[0].shape != want_shape:
        return None, bad + [('multiscale stand-in raises', 'output of shape %s / %s' % (outs[0].shape, outsb[0].shape))]
    ds = [g.size for g in grids]
    D = sum(ds)
    off = np.concatenate([[0], np.cumsum(ds)])
    wins = []
    for i, g in enumerate(grids):
        dd = int(g.dims[0])
        if i != L - 1:
            b = (dd - W) // 2
            wins.append(expected_window(dd, dd, W, b, dd - W - b).ravel())
        else:
            wins.append(np.zeros(g.size))
    for i in range(L):
        for j in range(i):
            if (j, i) not in world.R:
                bad.append(('multiscale mask-recursion', 'level %d never resamples the mask of level %d (nothing subtracted for it)' % (i, j)))
                world.R[(j, i)] = np.zeros((ds[i], ds[j]), dtype=complex)

    def emb_vec(v, i):
        o = np.zeros(D, dtype=complex)
        o[off[i]:off[i + 1]] = v
        return o

    def cl(a):
        a = np.asarray(a, dtype=complex)
        return rat_list(a.real) + ' ' + rat_list(a.imag)

    def cmx(M):
        return rat_lists(M.real) + ' ' + rat_lists(M.imag)
    ys = Y if stop is None else Y * stop.conj()
    parts = []
    for comp in comps:
        tag = '' if comp is None else ' (Jones component %d,%d)' % comp
        pick = (lambda arr: arr) if comp is None else (lambda arr: arr[comp[0], comp[1]])
        masks = [pick(m) for m in masks_all]
        # brute-force statement of the design on the same operators
        raws = made[:L] if case['kind'] == 'random' else [raw_mask(g, comp) for g in grids]
        Ms = []
        for i in range(L):
            M = raws[i] * (1 - wins[i]) if i != L - 1 else raws[i].copy()
            for j in range(i):
                M = M - world.R[(j, i)] @ Ms[j]
            Ms.append(M)
        want = sum(world.ops(i)[1] @ (Ms[i] * (world.ops(i)[0] @ E)) for i in range(L))
        if stop is not None:
            want = want * stop
        scale = max(1.0, float(np.abs(want).max()))
        for i in range(L):
            if masks[i].shape != Ms[i].shape or np.abs(masks[i] - Ms[i]).max() > TOL * max(1.0, np.abs(Ms[i]).max()):
                bad.append(('multiscale mask-recursion', 'level %d: stored mask differs from raw*(1-window) - sum of resampled earlier masks%s' % (i, tag)))
                break
        if np.abs(pick(outs[0]) - want).max() > TOL * scale:
            bad.append(('multiscale forward-sum', 'forward differs from stop * sum_i B_i(M_i * F_i E) by %.3g%s' % (np.abs(pick(outs[0]) - want).max(), tag)))
        wantb = sum(world.ops(i)[1] @ (Ms[i].conj() * (world.ops(i)[0] @ ys)) for i in range(L))
        scale = max(scale, float(np.abs(wantb).max()))
        if np.abs(pick(outsb[0]) - wantb).max() > TOL * scale:
            bad.append(('multiscale backward-sum', 'backward differs from sum_i B_i(conj(M_i) * F_i (conj(stop) y)) by %.3g%s' % (np.abs(pick(outsb[0]) - wantb).max(), tag)))
        # the model request: all levels embedded as blocks of one index set
        toks = ['%d %d' % (n, D), '- -' if stop is None else cl(stop), '@FIELD@', str(L)]
        for i in range(L):
            Fi, Bi = world.ops(i)
            Fe = np.zeros((D, n), dtype=complex)
            Fe[off[i]:off[i + 1]] = Fi
            Be = np.zeros((n, D), dtype=complex)
            Be[:, off[i]:off[i + 1]] = Bi
            toks += [cl(emb_vec(raws[i], i)), cl(emb_vec(wins[i], i)), cmx(Fe), cmx(Be), str(i)]
            for j in range(i):
                Re = np.zeros((D, D), dtype=complex)
                Re[off[i]:off[i + 1], off[j]:off[j + 1]] = world.R[(j, i)]
                toks.append(cmx(Re))
        body = ' '.join(toks)
        parts.append({'line': 'C09 msalg ' + body.replace('@FIELD@', cl(E)), 'line_b': 'C09 msalgb ' + body.replace('@FIELD@', cl(Y)),
                      'out': pick(outs[0]), 'out_b': pick(outsb[0]), 'masks': masks, 'off': off, 'scale': scale, 'L': L, 'D': D, 'comp': comp})
    return {'parts': parts, 'L': L}, bad


def gen_mstele(rng):
    """Nested supports with windows inside the next support (sometimes deliberately violated)."""
    d, n, L = int(rng.integers(3, 11)), int(rng.integers(1, 4)), int(rng.integers(1, 5))
    lo, hi = 0, d
    sps = []
    supports = []
    for i in range(L):
        supports.append((lo, hi))
        if hi - lo > 1:
            lo2 = lo + int(rng.integers(0, 2))
            hi2 = hi - int(rng.integers(0, 2))
            if hi2 <= lo2:
                lo2, hi2 = lo, hi
            lo, hi = lo2, hi2
    broken = bool(rng.random() < 0.2 and L > 1)
    for i in range(L):
        S = np.zeros(d)
        S[supports[i][0]:supports[i][1]] = 1
        w = np.zeros(d)
        if i + 1 < L:
            a, b = supports[i + 1]
            w[a:b] = rng.integers(0, 9, b - a) / 8.0
            if broken and i == 0:
                outside = [p for p in range(d) if not (a <= p < b)]
                if outside:
                    w[outside[0]] = 0.5
                else:
                    broken = False
        sps.append((S, w))
    m = rng.integers(-8, 9, d) / 4.0
    F = rng.integers(-4, 5, (d, n)) / 2.0
    B = rng.integers(-4, 5, (n, d)) / 2.0
    E = rng.integers(-8, 9, n) / 4.0
    line = 'C09 mstele %d %d %s %s %s %d %s %s' % (n, d, rat_list(m), rat_lists(F), rat_lists(B), L,
                                                    ' '.join('%s %s' % (rat_list(S), rat_list(w)) for S, w in sps), rat_list(E))
    return line, B @ (m * (F @ E)), broken


def gen_msteleb(rng):
    """`multiscale_backward_telescopes` at the Gaussian rationals: complex mask and operators, real windows
    (sometimes one complex window sample: the identity needs no reality of the windows)."""
    d, n, L = int(rng.integers(3, 9)), int(rng.integers(1, 4)), int(rng.integers(1, 4))
    lo, hi = 0, d
    supports = []
    for i in range(L):
        supports.append((lo, hi))
        if hi - lo > 2:
            lo, hi = lo + int(rng.integers(0, 2)), hi - int(rng.integers(0, 2))
    cplx_window = bool(rng.random() < 0.2 and L > 1)
    sps = []
    for i in range(L):
        S = np.zeros(d)
        S[supports[i][0]:supports[i][1]] = 1
        w = np.zeros(d, dtype=complex)
        if i + 1 < L:
            a, b = supports[i + 1]
            w[a:b] = rng.integers(0, 9, b - a) / 8.0
            if cplx_window and i == 0:
                w[a] = w[a] + 0.5j
        sps.append((S, w))

    def cv(k):
        return rng.integers(-4, 5, k) / 2.0 + 1j * rng.integers(-4, 5, k) / 2.0
    m, y = cv(d), cv(n)
    F = cv(d * n).reshape(d, n)
    B = cv(n * d).reshape(n, d)

    def cl(a):
        return rat_list(np.asarray(a).real) + ' ' + rat_list(np.asarray(a).imag)
    line = 'C09 msteleb %d %d %s %s %s %s %s %d %s %s' % (n, d, cl(m), rat_lists(F.real), rat_lists(F.imag), rat_lists(B.real), rat_lists(B.imag), L,
                                                       ' '.join('%s %s' % (rat_list(S), cl(w)) for S, w in sps), cl(y))
    return line, B @ (m.conj() * (F @ y)), cplx_window


def part_f(ctx):
    cases = [gen_msalg_case(ctx.rng, k) for k in range(ctx.scale(16, 60))] + [gen_msreal_case(ctx.rng, k) for k in range(ctx.scale(4, 18))]
    lines, plan = [], []
    for case in cases:
        obs, bad = run_msalg_case(case)
        for key, what in bad:
            ctx.violation(key, what, case)
        ctx.count(('F:real-operators:kind:' if case.get('real') else 'F:kind:') + case['kind'])
        ctx.count('F:stop' if case['stop'] else 'F:no-stop')
        if obs is not None and obs.get('unreadable'):
            ctx.disagree('C09 real-operators', {'case': {k: case.get(k) for k in ('N', 'w', 's', 'q', 'kind', 'stop', 'seed')}, 'what': obs['unreadable']})
            continue
        if obs is not None:
            ctx.count('F:levels:%d' % obs['L'])
            ctx.case({k: case.get(k) for k in ('N', 'w', 's', 'q', 'kind', 'stop', 'real')}, ('F', case['N'], case['w'], case['s'], case['q'], case['kind'], case['stop'], bool(case.get('real'))) if obs['L'] > 1 else None)
            for part in obs['parts']:
                plan.append((case, part, len(lines)))
                lines.append(part['line'])
    tele = [gen_mstele(ctx.rng) for _ in range(ctx.scale(60, 400))]
    teleb = [gen_msteleb(ctx.rng) for _ in range(ctx.scale(40, 300))]
    out = ctx.model(lines + [t[0] for t in tele] + [t[0] for t in teleb] + [obs['line_b'] for _, obs, _ in plan])
    out_b = out[len(lines) + len(tele) + len(teleb):]
    out_tb = out[len(lines) + len(tele):len(lines) + len(tele) + len(teleb)]
    out = out[:len(lines) + len(tele)]
    for case, obs, k in plan:
        toks = out[k].split()
        short = {k2: case[k2] for k2 in ('N', 'w', 's', 'q', 'kind', 'stop', 'seed')}
        short['jones_component'] = obs['comp']
        short['real_operators'] = bool(case.get('real'))
        if toks[0] != 'ok' or len(toks) != 3 + 2 * obs['L']:
            raise MachineryError('model refused msalg: %s' % out[k][:80])

        def cv(a, b):
            return np.array([float(v) for v in parse_rat_list(a)]) + 1j * np.array([float(v) for v in parse_rat_list(b)])
        ctx.traces_validated += 1
        ref = cv(toks[1], toks[2])
        if np.abs(ref - obs['out']).max() > TOL * obs['scale']:
            ctx.disagree('C09 msForward', {'case': short, 'max_abs_diff': float(np.abs(ref - obs['out']).max())})
            continue
        for i in range(obs['L']):
            Mi = cv(toks[3 + 2 * i], toks[4 + 2 * i])[obs['off'][i]:obs['off'][i + 1]]
            ctx.traces_validated += 1
            if np.abs(Mi - obs['masks'][i]).max() > TOL * max(1.0, float(np.abs(Mi).max())):
                ctx.disagree('C09 msMasks', {'case': short, 'level': i, 'max_abs_diff': float(np.abs(Mi - obs['masks'][i]).max())})
                break
    for (case, obs, k), resp in zip(plan, out_b):
        toks = resp.split()
        if toks[0] != 'ok':
            raise MachineryError('model refused msalgb: %s' % resp[:80])
        ctx.traces_validated += 1
        ref = np.array([float(v) for v in parse_rat_list(toks[1])]) + 1j * np.array([float(v) for v in parse_rat_list(toks[2])])
        if np.abs(ref - obs['out_b']).max() > TOL * obs['scale']:
            ctx.disagree('C09 msBackward', {'case': {k2: case[k2] for k2 in ('N', 'w', 's', 'q', 'kind', 'stop', 'seed')},
                                            'max_abs_diff': float(np.abs(ref - obs['out_b']).max())})
    for (line, want, cplx_window), resp in zip(teleb, out_tb):
        toks = resp.split()
        if toks[0] != 'ok':
            raise MachineryError('model refused msteleb: %s' % resp[:80])
        m = dict(t.split('=') for t in toks[1:3])
        ctx.traces_validated += 1
        ctx.count('F:teleb:nested=%s,complex-window=%s' % (m['nested'], int(cplx_window)))
        lhs = np.array([float(v) for v in parse_rat_list(toks[3])]) + 1j * np.array([float(v) for v in parse_rat_list(toks[4])])
        if m['nested'] != '1':
            ctx.disagree('C09 backward telescoping', {'what': 'generator made nested supports but the model says nestedOK = false', 'line': line[:200]})
        elif m['equal'] != '1' or np.abs(lhs - want).max() > TOL * max(1.0, np.abs(want).max()):
            ctx.disagree('C09 backward telescoping', {'line': line[:200], 'model': resp[:200]})
    for (line, want, broken), resp in zip(tele, out[len(lines):]):
        toks = resp.split()
        if toks[0] != 'ok':
            raise MachineryError('model refused mstele: %s' % resp[:80])
        m = dict(t.split('=') for t in toks[1:3])
        ctx.traces_validated += 1
        ctx.count('F:tele:nested=%s' % m['nested'])
        lhs = np.array([float(v) for v in parse_rat_list(toks[3])])
        if m['nested'] == '1':
            # the theorem's conclusion, evaluated by the model and recomputed here
            if m['equal'] != '1' or np.abs(lhs - want).max() > TOL * max(1.0, np.abs(want).max()):
                ctx.disagree('C09 telescoping', {'line': line[:200], 'model': resp[:200]})
        elif not broken:
            ctx.disagree('C09 telescoping', {'what': 'generator made nested supports but the model says nestedOK = false', 'line': line[:200]})
        else:
            ctx.count('F:tele:broken-unequal' if m['equal'] == '0' else 'F:tele:broken-equal')


# =============================================================================================
# G. chromatic parameters x one object used at several wavelengths (round 5)

PYTH = [(3, 4, 5), (5, 12, 13), (8, 15, 17), (7, 24, 25), (20, 21, 29), (12, 35, 37), (9, 40, 41), (28, 45, 53)]
RATIOS = [0.5, 0.625, 0.75, 0.875, 1.125, 1.25, 1.375, 1.5, 2.0]


def _retardance(case, wl):
    """phase retardation of the chromatic plate of `case` at wavelength `wl` (half wave at case['wl0'])."""
    r = wl / case['wl0']
    law = case['law']
    if law == 'inverse':
        return math.pi / r
    if law == 'linear':
        return math.pi * (1 + case['slope'] * (r - 1))
    if law == 'table':
        for rr, a, b, c in case['table']:
            if abs(rr - r) < 1e-9:
                return 2 * math.atan2(b / c, a / c)
        raise KeyError('wavelength not in the retardance table')
    raise MachineryError('unknown law')


def _as_callable(f, argname):
    """the same function of wavelength under the argument spellings hcipy's signature guess looks at"""
    if argname == 'wavelength':
        return lambda wavelength: f(wavelength)
    if argname == 'lam':
        return lambda lam: f(lam)
    if argname == 'wvl':
        return lambda wvl: f(wvl)

    def of_w(w):
        return f(w)
    return of_w


def gen_history(rng, force_design=None):
    n = int(rng.integers(2, 5))
    ratios = [float(rng.choice(RATIOS)) for _ in range(n)]
    where = force_design if force_design is not None else str(rng.choice(['later', 'later', 'later', 'first', 'absent', 'twice']))
    if where == 'later':
        ratios[int(rng.integers(1, n))] = 1.0
    elif where == 'first':
        ratios[0] = 1.0
    elif where == 'twice':
        ratios[int(rng.integers(1, n))] = 1.0
        ratios.append(ratios[0])
        ratios.append(1.0)
    return ratios, where


def gen_chrom_case(rng, kind=None, where=None):
    kind = kind or str(rng.choice(['vvc', 'lyot', 'occulted', 'perfect', 'vortex', 'fqpm'], p=[.4, .15, .15, .1, .1, .1]))
    ratios, where = gen_history(rng, where)
    wl0 = float(rng.choice([1.0, 1.6e-6, 0.5, 2.0]))
    case = {'part': 'G', 'kind': kind, 'wl0': wl0, 'ratios': ratios, 'design': where,
            'argname': str(rng.choice(['wavelength', 'lam', 'wvl', 'w'])), 'seed': int(rng.integers(0, 2**31))}
    if kind == 'vvc':
        charge = int(rng.choice([2, 2, 4]))
        s = float(rng.choice([2, 4]))
        case.update({'charge': charge, 'N': int(rng.integers(28, 37)), 'q': float({2: 32, 4: 64}[charge]), 's': s,
                     'w': int(rng.choice([16, 20, 24])), 'lyot': float(rng.choice([0.9, 0.95])),
                     'law': str(rng.choice(['inverse', 'linear', 'table'])), 'slope': float(rng.choice([0.5, -0.75, 1.0, 0.25])),
                     'polarised': bool(rng.random() < 0.3), 'azimuth_deg': int(rng.integers(0, 360)),
                     'pyth_axis': int(rng.integers(0, len(PYTH))), 'plus': int(rng.integers(0, 2))})
        tab = [[1.0, 0, 1, 1]]
        for r in sorted(set(ratios) - {1.0}):
            a, b, c = PYTH[int(rng.integers(0, len(PYTH)))]
            if rng.random() < 0.5:
                a, b = b, a
            tab.append([r, int(a), int(b), int(c)])
        case['table'] = tab
    elif kind in ('lyot', 'occulted'):
        case.update({'N': int(rng.integers(8, 17)), 'fq': int(rng.choice([2, 3])), 'airy': int(rng.choice([3, 4, 5])),
                     'law': str(rng.choice(['amplitude', 'size'])), 'gain': float(rng.choice([1.0, 0.5, -0.5, 2.0])),
                     'stop': bool(rng.random() < 0.6), 'occ': float(rng.choice([2.0, 2.5, 3.0]))})
    elif kind == 'perfect':
        case.update({'N': int(rng.integers(6, 13)), 'order': int(rng.choice([2, 4, 6]))})
    else:
        case.update({'charge': 2, 'N': int(rng.integers(28, 37)), 'q': 32.0 if kind == 'vortex' else 16.0, 's': float(rng.choice([2, 4])),
                     'w': int(rng.choice([16, 24])), 'lyot': 0.95})
    return case


DIRECTED_G = [
    {'part': 'G', 'kind': 'vvc', 'wl0': 1.6e-6, 'ratios': [1.375, 1.0], 'design': 'later', 'argname': 'wavelength', 'seed': 1, 'charge': 2, 'N': 32,
     'q': 32.0, 's': 4.0, 'w': 16, 'lyot': 0.9, 'law': 'inverse', 'slope': 0.5, 'polarised': False, 'azimuth_deg': 0, 'pyth_axis': 0, 'plus': 1,
     'table': [[1.0, 0, 1, 1], [1.375, 3, 4, 5]]},
    {'part': 'G', 'kind': 'vvc', 'wl0': 1.0, 'ratios': [0.75, 1.25, 1.0, 0.75], 'design': 'later', 'argname': 'lam', 'seed': 2, 'charge': 4, 'N': 33,
     'q': 64.0, 's': 4.0, 'w': 16, 'lyot': 0.95, 'law': 'table', 'slope': 0.5, 'polarised': True, 'azimuth_deg': 117, 'pyth_axis': 1, 'plus': 0,
     'table': [[1.0, 0, 1, 1], [0.75, 5, 12, 13], [1.25, 15, 8, 17]]},
    {'part': 'G', 'kind': 'lyot', 'wl0': 1.6e-6, 'ratios': [1.375, 1.0, 0.75], 'design': 'later', 'argname': 'wavelength', 'seed': 3, 'N': 12, 'fq': 3,
     'airy': 4, 'law': 'amplitude', 'gain': 1.0, 'stop': True, 'occ': 2.5},
    {'part': 'G', 'kind': 'occulted', 'wl0': 1.0, 'ratios': [2.0, 1.0], 'design': 'later', 'argname': 'w', 'seed': 4, 'N': 10, 'fq': 2,
     'airy': 4, 'law': 'amplitude', 'gain': 1.0, 'stop': False, 'occ': 2.0},
    {'part': 'G', 'kind': 'perfect', 'wl0': 1.0, 'ratios': [1.5, 1.0, 0.5], 'design': 'later', 'argname': 'w', 'seed': 5, 'N': 8, 'order': 4},
    {'part': 'G', 'kind': 'vortex', 'wl0': 1.6e-6, 'ratios': [1.25, 1.0, 1.25], 'design': 'later', 'argname': 'w', 'seed': 6, 'charge': 2, 'N': 32,
     'q': 32.0, 's': 4.0, 'w': 16, 'lyot': 0.95},
]


def _fdiff(a, b):
    a, b = np.asarray(a), np.asarray(b)
    if a.shape != b.shape:
        return float('inf'), 1.0
    return float(np.abs(a - b).max()) if a.size else 0.0, max(1.0, float(np.abs(b).max()) if b.size else 1.0)


def run_chrom_case(case):
    """One object driven through the history of wavelengths; every step compared with a fresh object
    that has only ever seen that wavelength, with the closed form / brute-force formula at that
    wavelength, and with the nulling clause wherever the design wavelength occurs."""
    hp = _hp()
    bad, obs = [], {'steps': []}
    kind = case['kind']
    wl0 = case['wl0']
    wls = [r * wl0 for r in case['ratios']]
    hist = 'history %s x %g' % (case['ratios'], wl0)
    rng = np.random.default_rng(case['seed'])
    try:
        with warnings.catch_warnings():
            warnings.simplefilter('ignore')
            if kind in ('vvc', 'vortex', 'fqpm'):
                N = case['N']
                pg = hp.make_pupil_grid(N)
                ap = hp.evaluate_supersampled(hp.make_circular_aperture(1), pg, 4)
                ls = hp.evaluate_supersampled(hp.make_circular_aperture(case['lyot']), pg, 4)
                E_on = hp.Field(np.asarray(ap, dtype=complex), pg)
                a = math.radians(case.get('azimuth_deg', 30))
                if kind == 'fqpm':
                    a = math.radians(33)
                E_off = hp.Field(np.asarray(ap * np.exp(2j * np.pi * 10 * (pg.x * math.cos(a) + pg.y * math.sin(a))), dtype=complex), pg)
                stokes = (1, 0.3, -0.2, 0.1) if case.get('polarised') else None
                kw = dict(q=case['q'], scaling_factor=case['s'], window_size=case['w'])
                if kind == 'vvc':
                    ret = _as_callable(lambda x: _retardance(case, x), case['argname'])
                    make = lambda pr=ret: hp.VectorVortexCoronagraph(case['charge'], ls, phase_retardation=pr, **kw)  # noqa: E731
                elif kind == 'vortex':
                    make = lambda: hp.VortexCoronagraph(pg, case['charge'], ls, **kw)  # noqa: E731
                else:
                    make = lambda: hp.FQPMCoronagraph(pg, ls, **kw)  # noqa: E731
                name = {'vvc': 'vector vortex charge %d, retardance law %s' % (case.get('charge', 0), case.get('law')), 'vortex': 'vortex charge 2', 'fqpm': 'fqpm'}[kind]
                used = make()
                pin = hp.Wavefront(E_on, 1.0, input_stokes_vector=stokes).total_power
                T_stop = float((np.abs(ap * ls)**2).sum() / (np.abs(ap)**2).sum())
                if kind == 'vvc':
                    # references for the closed form out(delta) = cos(delta/2) out(0) + sin(delta/2) out(pi)
                    w1 = hp.Wavefront(E_on, 1.0, input_stokes_vector=stokes)
                    r0 = make(0.0).forward(w1)
                    r1 = make(math.pi).forward(w1)
                    o0, o1 = r0.electric_field, r1.electric_field
                    rs = r0.copy()
                    rs.electric_field = o0 + o1
                    P0, P1 = float(r0.total_power), float(r1.total_power)
                    X = (float(rs.total_power) - P0 - P1) / 2
                    obs.update({'P0': P0 / pin, 'P1': P1 / pin, 'X': X / pin, 'T_stop': T_stop})
                fresh_cache = {}
                for k, wl in enumerate(wls):
                    wf = hp.Wavefront(E_on, wl, input_stokes_vector=stokes)
                    out = used.forward(wf)
                    on = float(out.total_power / wf.total_power)
                    step = {'wl': wl, 'on': on}
                    if out.wavelength != wl:
                        bad.append(('chromatic wavelength-bookkeeping', '%s, %s: output of step %d carries wavelength %r, input %r' % (name, hist, k, out.wavelength, wl)))
                    if wl not in fresh_cache:
                        fresh_cache[wl] = make().forward(hp.Wavefront(E_on, wl, input_stokes_vector=stokes)).electric_field
                    d, sc = _fdiff(out.electric_field, fresh_cache[wl])
                    if not d <= TOL * sc:
                        bad.append(('%s chromatic history' % kind, '%s, N=%d q=%g s=%g window=%d, %s: at step %d (wavelength %g) the used object differs from a fresh '
                                    'object by %.3g (on-axis transmission %.4g)' % (name, N, case['q'], case['s'], case['w'], hist, k, wl, d, on)))
                    design = (wl == wl0)
                    if kind == 'vvc':
                        delta = _retardance(case, wl)
                        ch, sh = math.cos(delta / 2), math.sin(delta / 2)
                        step.update({'ch': ch, 'sh': sh, 'delta': delta})
                        d2, sc2 = _fdiff(out.electric_field, ch * o0 + sh * o1)
                        if not d2 <= TOL * sc2:
                            bad.append(('vvc chromatic closed-form', '%s, %s: step %d (wavelength %g, retardance %.4f): output differs from cos(d/2) out(0) + sin(d/2) out(pi) by %.3g'
                                        % (name, hist, k, wl, delta, d2)))
                        if not abs(on - ch * ch * T_stop) < 0.01 + 0.02 * ch * ch * T_stop:
                            bad.append(('vvc chromatic leak', '%s, %s: step %d (wavelength %g, retardance %.4f): on-axis transmission %.4g, closed form cos^2(d/2) x stop throughput = %.4g'
                                        % (name, hist, k, wl, delta, on, ch * ch * T_stop)))
                    if design or kind != 'vvc':
                        if not on < 0.01:
                            bad.append(('%s chromatic on-axis' % kind, '%s, N=%d, %s: step %d at the design wavelength %g: on-axis transmission %.4g >= 1%%' % (name, N, hist, k, wl, on)))
                        wf2 = hp.Wavefront(E_off, wl, input_stokes_vector=stokes)
                        off = float(used.forward(wf2).total_power / wf2.total_power)
                        step['off'] = off
                        if not off > 0.5:
                            bad.append(('%s chromatic off-axis' % kind, '%s, N=%d, %s: step %d at the design wavelength %g: transmission at 10 lambda/D %.4g <= 50%%' % (name, N, hist, k, wl, off)))
                    obs['steps'].append(step)
            elif kind in ('lyot', 'occulted'):
                N = case['N']
                pg = hp.make_pupil_grid(N)
                fg = hp.make_focal_grid(case['fq'], case['airy'], spatial_resolution=wl0)
                ap = hp.make_circular_aperture(1)(pg)
                E = hp.Field(np.asarray(ap, dtype=complex) * (1 + 0.25 * rng.standard_normal(pg.size) + 0.25j * rng.standard_normal(pg.size)), pg)
                g = case['gain']

                def maskf(wl):
                    r = wl / wl0
                    if case['law'] == 'amplitude':
                        occ = np.asarray(hp.make_circular_aperture(2 * case['occ'] * wl0)(fg))
                        return hp.Field((1 - g * (r - 1) * occ) if kind == 'lyot' else g * (r - 1) * (1 - 0.5 * occ), fg)
                    occ = np.asarray(hp.make_circular_aperture(2 * case['occ'] * wl)(fg))
                    return hp.Field(1 - occ, fg)
                stop = hp.Field(np.asarray(hp.make_circular_aperture(0.9)(pg), dtype=float), pg) if case['stop'] else None

                def make():
                    fpm = hp.Apodizer(_as_callable(maskf, case['argname']))
                    if kind == 'lyot':
                        return hp.LyotCoronagraph(pg, fpm, stop, focal_plane_mask_grid=fg)
                    return hp.OccultedLyotCoronagraph(pg, fpm, focal_plane_mask_grid=fg)
                name = '%s coronagraph, focal mask a function of wavelength (%s)' % (kind, case['law'])
                used = make()
                prop = hp.FraunhoferPropagator(pg, fg)
                for k, wl in enumerate(wls):
                    wf = hp.Wavefront(E.copy(), wl)
                    out = used.forward(wf)
                    fresh = make().forward(hp.Wavefront(E.copy(), wl))
                    m = np.asarray(maskf(wl))
                    foc = prop.forward(hp.Wavefront(E.copy(), wl))
                    if kind == 'lyot':
                        foc.electric_field = foc.electric_field * (1 - m)
                        ref = np.asarray(E) - np.asarray(prop.backward(foc).electric_field)
                        if stop is not None:
                            ref = ref * np.asarray(stop)
                    else:
                        foc.electric_field = foc.electric_field * m
                        ref = np.asarray(prop.backward(foc).electric_field)
                    d, sc = _fdiff(out.electric_field, fresh.electric_field)
                    if not d <= TOL * sc:
                        bad.append(('%s chromatic history' % kind, '%s, N=%d, %s: at step %d (wavelength %g) the used object differs from a fresh object by %.3g' % (name, N, hist, k, wl, d)))
                    d, sc = _fdiff(out.electric_field, ref)
                    if not d <= TOL * sc:
                        bad.append(('%s chromatic formula' % kind, '%s, N=%d, %s: at step %d (wavelength %g) forward differs from the formula with the mask of this wavelength by %.3g' % (name, N, hist, k, wl, d)))
                    if not np.array_equal(np.asarray(wf.electric_field), np.asarray(E)) or wf.wavelength != wl or out.wavelength != wl:
                        bad.append(('chromatic wavelength-bookkeeping', '%s, %s: step %d changed its input or the wavelength' % (name, hist, k)))
                    if wl == wl0 and case['law'] == 'amplitude':
                        want = (np.asarray(E) * (np.asarray(stop) if stop is not None else 1.0)) if kind == 'lyot' else np.zeros(pg.size)
                        d, sc = _fdiff(out.electric_field, want)
                        if not d <= TOL * sc:
                            bad.append(('lyot chromatic transparent' if kind == 'lyot' else 'occulted chromatic opaque',
                                        '%s, N=%d, %s: step %d at the wavelength where the mask is fully %s: output differs from %s by %.3g'
                                        % (name, N, hist, k, 'transmissive' if kind == 'lyot' else 'opaque', 'stop x input' if kind == 'lyot' else 'zero', d)))
                    obs['steps'].append({'wl': wl, 'power': float(out.total_power)})
            elif kind == 'perfect':
                N = case['N']
                pg = hp.make_pupil_grid(N)
                ap = hp.make_circular_aperture(1)(pg)
                E = hp.Field(np.asarray(ap, dtype=complex) * (1 + pg.x**3 + 0.5j * pg.y**4 + 0.25 * rng.standard_normal(pg.size)), pg)
                used = hp.PerfectCoronagraph(ap, case['order'])
                name = 'perfect coronagraph order %d' % case['order']
                first = None
                for k, wl in enumerate(wls):
                    out = used.forward(hp.Wavefront(E.copy(), wl))
                    fresh = hp.PerfectCoronagraph(ap, case['order']).forward(hp.Wavefront(E.copy(), wl))
                    flat = used.forward(hp.Wavefront(hp.Field(np.asarray(ap, dtype=complex), pg), wl))
                    d, sc = _fdiff(out.electric_field, fresh.electric_field)
                    if not d <= TOL * sc:
                        bad.append(('perfect chromatic history', '%s, N=%d, %s: at step %d (wavelength %g) the used object differs from a fresh object by %.3g' % (name, N, hist, k, wl, d)))
                    if first is None:
                        first = np.asarray(out.electric_field).copy()
                    d, sc = _fdiff(out.electric_field, first)
                    if not d <= TOL * sc:
                        bad.append(('perfect chromatic', '%s, N=%d, %s: output at step %d (wavelength %g) differs from the output at the first wavelength by %.3g' % (name, N, hist, k, wl, d)))
                    if out.wavelength != wl:
                        bad.append(('chromatic wavelength-bookkeeping', '%s, %s: output of step %d carries wavelength %r, input %r' % (name, hist, k, out.wavelength, wl)))
                    if not float(np.abs(flat.electric_field).max()) <= TOL:
                        bad.append(('perfect chromatic flat', '%s, N=%d, %s: flat wavefront at step %d (wavelength %g) leaves %.3g' % (name, N, hist, k, wl, float(np.abs(flat.electric_field).max()))))
                    obs['steps'].append({'wl': wl, 'power': float(out.total_power)})
            else:
                raise MachineryError('unknown kind')
    except MachineryError:
        raise
    except Exception as e:  # noqa
        bad.append(('chromatic raises', '%s coronagraph, %s: raised %s: %s' % (kind, hist, type(e).__name__, str(e)[:100])))
        obs = None
    return obs, bad


def vvrun_line(case, obs):
    a, b, c = PYTH[case['pyth_axis']]
    steps = obs['steps']
    twl = sorted(set(st['wl'] for st in steps))
    by = {st['wl']: st for st in steps}
    return 'C09 vvrun %s %s %s %s %s %s %d' % (rat_list([st['wl'] for st in steps]), rat_list(twl), rat_list([by[w]['ch'] for w in twl]),
                                               rat_list([by[w]['sh'] for w in twl]), rat(Fraction(a, c)), rat(Fraction(b, c)), case['plus'])


def check_vvrun(ctx, case, obs, resp):
    hp = _hp()
    toks = resp.split()
    short = {k: case[k] for k in ('kind', 'charge', 'N', 'law', 'ratios', 'wl0', 'design')}
    if toks[0] != 'ok' or len(toks) != 12:
        ctx.disagree('C09 vvrun', {'case': short, 'model': resp[:120]})
        return
    V = np.array([float(v) for v in parse_rat_list(toks[1])]).reshape(2, 2)
    Ve = np.array([float(v) for v in parse_rat_list(toks[2])]) + 1j * np.array([float(v) for v in parse_rat_list(toks[3])])
    toks = toks[:1] + toks[4:]
    leak, shared = [float(v) for v in parse_rat_list(toks[1])], [float(v) for v in parse_rat_list(toks[2])]
    jre, jim = [float(v) for v in parse_rat_list(toks[3])], [float(v) for v in parse_rat_list(toks[4])]
    co = np.array([float(v) for v in parse_rat_list(toks[5])]) + 1j * np.array([float(v) for v in parse_rat_list(toks[6])])
    cr = np.array([float(v) for v in parse_rat_list(toks[7])]) + 1j * np.array([float(v) for v in parse_rat_list(toks[8])])
    a, b, c = PYTH[case['pyth_axis']]
    phi = math.atan2(b / c, a / c) / 2
    sgn = 1 if case['plus'] else -1
    e_in, e_x = np.array([1, sgn * 1j]), np.array([1, -sgn * 1j])
    for k, st in enumerate(obs['steps']):
        ctx.traces_validated += 1
        # the measured on-axis transmission of the real (used) object at this step against the model's leak fraction
        want = leak[k] * obs['P0'] + (1 - leak[k]) * obs['P1'] + 2 * st['ch'] * st['sh'] * obs['X']
        if not abs(st['on'] - want) <= TOL * max(1.0, abs(want)):
            ctx.disagree('C09 vvLeak', {'case': short, 'step': k, 'wavelength': st['wl'], 'measured_on_axis': st['on'], 'model': want, 'model_leak_fraction': leak[k],
                                       'model_leak_if_instances_were_shared': shared[k]})
        # the Jones matrix of the real LinearRetarder at this retardance and a Pythagorean fast axis
        J = np.asarray(hp.LinearRetarder(st['delta'], phi).jones_matrix).reshape(4)
        Jm = np.array(jre[4 * k:4 * k + 4]) + 1j * np.array(jim[4 * k:4 * k + 4])
        ctx.traces_validated += 1
        if not np.abs(J - Jm).max() <= TOL:
            ctx.disagree('C09 retarderJones', {'case': short, 'step': k, 'real': [str(v) for v in J], 'model': [str(v) for v in Jm]})
        Je = J.reshape(2, 2) @ e_in
        # vector_vortex_decomposition: the real Jones matrix is cos(d/2) I + i sin(d/2) V with the model's vortex term
        ctx.traces_validated += 1
        if not (np.abs(J.reshape(2, 2) - (st['ch'] * np.eye(2) + 1j * st['sh'] * V)).max() <= TOL and np.abs(Je - (st['ch'] * e_in + 1j * st['sh'] * Ve)).max() <= TOL):
            ctx.disagree('C09 vortexTerm', {'case': short, 'step': k, 'real': [str(v) for v in J], 'model_vortex_term': V.tolist()})
        if not (abs(np.vdot(e_in, Je) - co[k]) <= TOL and abs(np.vdot(e_x, Je) - cr[k]) <= TOL):
            ctx.disagree('C09 coPolar/crossPolar', {'case': short, 'step': k, 'real': [str(np.vdot(e_in, Je)), str(np.vdot(e_x, Je))], 'model': [str(co[k]), str(cr[k])]})


def part_g(ctx):
    cases = [dict(c) for c in DIRECTED_G]
    for k in range(ctx.scale(10, 90)):
        cases.append(gen_chrom_case(ctx.rng))
    lines, plan = [], []
    t0 = time.time()
    budget = ctx.scale(40, 200)
    for case in cases:
        if case['kind'] in ('vvc', 'vortex', 'fqpm') and time.time() - t0 > budget:
            ctx.count('G:skipped-for-time')      # only the multi-scale kinds cost anything
            continue
        obs, bad = run_chrom_case(case)
        for key, what in bad:
            ctx.violation(key, what, case)
        ctx.count('G:kind:' + case['kind'])
        ctx.count('G:design-wavelength:' + case['design'])
        ctx.count('G:history-length:%d' % len(case['ratios']))
        ctx.count('G:argname:' + case['argname'])
        if 'law' in case:
            ctx.count('G:%s-law:%s' % (case['kind'], case['law']))
        ctx.case({k: case[k] for k in ('kind', 'ratios', 'wl0', 'N')}, ('G', case['kind'], tuple(case['ratios']), case['wl0'], case['N'], case.get('law'), case.get('charge'))
                 if len(set(case['ratios'])) > 1 else None)
        if obs is not None and case['kind'] == 'vvc' and obs['steps'] and all('ch' in st for st in obs['steps']):
            plan.append((case, obs))
            lines.append(vvrun_line(case, obs))
    if lines:
        out = ctx.model(lines)
        for (case, obs), resp in zip(plan, out):
            check_vvrun(ctx, case, obs, resp)


# =============================================================================================
# H. setter histories that change the KIND of a parameter on one object (round 6)
#
# One coronagraph object is built with some parameter values and then driven through a generated
# sequence of events: `use` at a wavelength, or `set` a public parameter (plain attribute + the
# documented clear_cache(), or the Apodizer.apodization setter of a focal-plane mask / Lyot stop)
# to a value of possibly ANOTHER KIND (constant <-> function of wavelength, Field <-> scalar <->
# function of wavelength / of grid, None <-> element, int <-> float). Every use is compared with
# what the property says for the parameters that are current at that moment.

def _pdelta(spec):
    v = spec['delta']
    if v[0] == 'pi':
        return math.pi
    if v[0] == 'zero':
        return 0.0
    return 2 * math.atan2(v[2] / v[3], v[1] / v[3])


def _ret_of(case, spec, wl):
    if spec['k'] in ('const', 'npconst', 'np0d'):
        return _pdelta(spec)
    sub = {'wl0': case['wl0'], 'law': spec['law'], 'slope': spec.get('slope', 0.5), 'table': case.get('table', [])}
    return _retardance(sub, wl)


def _ret_obj(case, spec):
    if spec['k'] == 'const':
        return _pdelta(spec)
    if spec['k'] == 'npconst':
        return np.float64(_pdelta(spec))
    if spec['k'] == 'np0d':
        return np.array(_pdelta(spec))
    return _as_callable(lambda x: _ret_of(case, spec, x), spec.get('argname', 'wavelength'))


def _apod_value(hp, case, spec, grid, base):
    """(object to hand to Apodizer / the apodization setter, reference function wavelength -> array).
    `base` = the Field the spec scales (a Lyot stop on the pupil grid, an occulter on the focal grid)."""
    k = spec['k']
    wl0 = case['wl0']
    if k == 'field':
        arr = np.asarray(base, dtype=float).copy()
        return hp.Field(arr.copy(), grid), (lambda wl: arr)
    if k == 'cfield':
        arr = np.asarray(base, dtype=float) * np.exp(1j * spec['phase'])
        return hp.Field(arr.copy(), grid), (lambda wl: arr)
    if k == 'scalar':
        return spec['v'], (lambda wl: np.full(grid.size, spec['v'], dtype=float))
    if k == 'fn':
        g = spec['gain']
        arr = np.asarray(base, dtype=float).copy()
        f = lambda wl: hp.Field(arr * (1 + g * (wl / wl0 - 1)), grid)  # noqa: E731
        return _as_callable(f, spec.get('argname', 'wavelength')), (lambda wl: arr * (1 + g * (wl / wl0 - 1)))
    if k == 'scalarfn':
        g = spec['gain']
        f = lambda wl: spec['v'] * (1 + g * (wl / wl0 - 1))  # noqa: E731
        return _as_callable(f, spec.get('argname', 'wavelength')), (lambda wl: np.full(grid.size, f(wl), dtype=float))
    if k == 'gridfn':
        arr = np.asarray(base, dtype=float).copy()
        return (lambda grid: hp.Field(arr * spec['v'], grid)), (lambda wl: arr * spec['v'])
    raise MachineryError('unknown apodisation spec %r' % (k,))


def _gen_pspec(rng, not_kind=None):
    kinds = ['const', 'const', 'npconst', 'np0d', 'fn', 'fn', 'fn']
    k = str(rng.choice([x for x in kinds if x != not_kind] if rng.random() < 0.8 else kinds))
    if k == 'fn':
        return {'k': 'fn', 'law': str(rng.choice(['inverse', 'linear', 'table'])), 'slope': float(rng.choice([0.5, -0.75, 1.0, 0.25])),
                'argname': str(rng.choice(['wavelength', 'lam', 'wvl', 'w']))}
    r = rng.random()
    if r < 0.5:
        d = ['pi']
    elif r < 0.6:
        d = ['zero']
    else:
        a, b, c = PYTH[int(rng.integers(0, len(PYTH)))]
        d = ['pyth', int(a), int(b), int(c)]
    return {'k': k, 'delta': d}


def _gen_sspec(rng, allow_none=True, not_kind=None, focal=False):
    kinds = ['field', 'field', 'scalar', 'fn', 'scalarfn', 'gridfn'] + (['none'] if allow_none else []) + (['cfield'] if focal else [])
    k = str(rng.choice([x for x in kinds if x != not_kind] if rng.random() < 0.8 else kinds))
    spec = {'k': k}
    if k in ('field', 'fn', 'gridfn', 'cfield'):
        spec['d'] = float(rng.choice([0.9, 0.95] if not focal else [2.0, 2.5, 3.0]))
    if k in ('scalar', 'scalarfn'):
        spec['v'] = float(rng.choice([1.0, 0.0, 0.5, 0.75]))
    if k == 'gridfn':
        spec['v'] = float(rng.choice([1.0, 0.5]))
    if k in ('fn', 'scalarfn'):
        spec['gain'] = float(rng.choice([1.0, 0.5, -0.5, 2.0]))
        spec['argname'] = str(rng.choice(['wavelength', 'lam', 'wvl', 'w']))
    if k == 'cfield':
        spec['phase'] = float(rng.choice([0.5, 1.0, -0.25]))
    return spec


def _kind_class(spec):
    return {'const': 'constant', 'npconst': 'constant', 'np0d': 'constant', 'fn': 'function', 'scalarfn': 'function', 'gridfn': 'gridfunction',
            'field': 'field', 'cfield': 'field', 'scalar': 'scalar', 'none': 'none'}.get(spec['k'], spec['k']) if isinstance(spec, dict) else type(spec).__name__


def gen_set_case(rng, kind=None):
    kind = kind or str(rng.choice(['vvc', 'lyot', 'occulted', 'vortex', 'fqpm'], p=[.4, .2, .15, .15, .1]))
    wl0 = float(rng.choice([1.0, 1.6e-6, 0.5, 2.0]))
    case = {'part': 'H', 'kind': kind, 'wl0': wl0, 'seed': int(rng.integers(0, 2**31))}
    nset = int(rng.integers(1, 4))
    events = []
    used_ratios = []

    def uses(lo, hi):
        for _ in range(int(rng.integers(lo, hi))):
            r = 1.0 if rng.random() < 0.4 else float(rng.choice(RATIOS))
            used_ratios.append(r)
            events.append(['use', r])
    if kind == 'vvc':
        case.update({'charge': 2, 'N': int(rng.integers(28, 34)), 'q': 32.0 if rng.random() < 0.5 else 32, 's': 4.0, 'w': 16,
                     'polarised': bool(rng.random() < 0.3), 'azimuth_deg': int(rng.integers(0, 360)),
                     'pyth_axis': int(rng.integers(0, len(PYTH))), 'plus': int(rng.integers(0, 2))})
        cur = {'phase_retardation': _gen_pspec(rng), 'lyot_stop': _gen_sspec(rng)}
        if rng.random() < 0.5:
            cur['phase_retardation'] = {'k': 'const', 'delta': ['pi']}       # the default
        case['init'] = {k: dict(v) for k, v in cur.items()}
        uses(0, 3)
        geometry_changed = False
        for _ in range(nset):
            r = rng.random()
            if r < 0.6:
                cur['phase_retardation'] = _gen_pspec(rng, cur['phase_retardation']['k'])
                events.append(['set', 'phase_retardation', dict(cur['phase_retardation'])])
            elif r < 0.85 or geometry_changed:
                how = 'inner' if (cur['lyot_stop']['k'] != 'none' and rng.random() < 0.5) else 'replace'
                cur['lyot_stop'] = _gen_sspec(rng, allow_none=(how == 'replace'), not_kind=cur['lyot_stop']['k'])
                events.append(['set', 'lyot_stop', dict(cur['lyot_stop']), how, bool(rng.random() < 0.5)])
            else:
                geometry_changed = True
                name = str(rng.choice(['charge', 'window_size', 'q']))
                val = {'charge': 4, 'window_size': 20, 'q': 16 if isinstance(case['q'], float) else 16.0}[name]
                events.append(['set', name, val])
            uses(1, 3)
    elif kind in ('lyot', 'occulted'):
        case.update({'N': int(rng.integers(8, 17)), 'fq': int(rng.choice([2, 3])), 'airy': int(rng.choice([3, 4, 5]))})
        cur = {'focal_plane_mask': _gen_sspec(rng, allow_none=False, focal=True), 'lyot_stop': _gen_sspec(rng) if kind == 'lyot' else {'k': 'none'}}
        case['init'] = {k: dict(v) for k, v in cur.items()}
        uses(0, 3)
        for _ in range(nset):
            if kind == 'occulted' or rng.random() < 0.65:
                how = 'inner' if rng.random() < 0.5 else 'replace'
                cur['focal_plane_mask'] = _gen_sspec(rng, allow_none=False, not_kind=cur['focal_plane_mask']['k'], focal=True)
                events.append(['set', 'focal_plane_mask', dict(cur['focal_plane_mask']), how, False])
            else:
                how = 'inner' if (cur['lyot_stop']['k'] != 'none' and rng.random() < 0.5) else 'replace'
                cur['lyot_stop'] = _gen_sspec(rng, allow_none=(how == 'replace'), not_kind=cur['lyot_stop']['k'])
                events.append(['set', 'lyot_stop', dict(cur['lyot_stop']), how, False])
            uses(1, 3)
    else:
        case.update({'charge': 2, 'N': int(rng.integers(28, 34)), 'q': 32.0 if kind == 'vortex' else 16.0, 's': 4.0, 'w': 16})
        cur = {'lyot_stop': _gen_sspec(rng)}
        case['init'] = {k: dict(v) for k, v in cur.items()}
        uses(0, 2)
        for _ in range(nset):
            how = 'inner' if (cur['lyot_stop']['k'] != 'none' and rng.random() < 0.5) else 'replace'
            cur['lyot_stop'] = _gen_sspec(rng, allow_none=(how == 'replace'), not_kind=cur['lyot_stop']['k'])
            events.append(['set', 'lyot_stop', dict(cur['lyot_stop']), how, False])
            uses(1, 3)
    case['events'] = events
    tab = [[1.0, 0, 1, 1]]
    for r in sorted(set(used_ratios) - {1.0}):
        a, b, c = PYTH[int(rng.integers(0, len(PYTH)))]
        if rng.random() < 0.5:
            a, b = b, a
        tab.append([r, int(a), int(b), int(c)])
    case['table'] = tab
    return case


_HW = {'k': 'const', 'delta': ['pi']}
DIRECTED_H = [
    # the textbook history: default (achromatic) plate, used broadband, then the chromaticity of the retarder is modelled on the same object
    {'part': 'H', 'kind': 'vvc', 'wl0': 1.0e-6, 'seed': 1, 'charge': 2, 'N': 32, 'q': 32, 's': 4.0, 'w': 16, 'polarised': False, 'azimuth_deg': 45,
     'pyth_axis': 0, 'plus': 1, 'init': {'phase_retardation': dict(_HW), 'lyot_stop': {'k': 'field', 'd': 0.9}},
     'events': [['use', 0.75], ['use', 1.0], ['set', 'phase_retardation', {'k': 'fn', 'law': 'inverse', 'argname': 'wavelength'}], ['use', 1.0], ['use', 1.25]],
     'table': [[1.0, 0, 1, 1], [0.75, 3, 4, 5], [1.25, 5, 12, 13]]},
    # the other direction, and a second change of kind; the stop changes kind too
    {'part': 'H', 'kind': 'vvc', 'wl0': 1.6e-6, 'seed': 2, 'charge': 2, 'N': 30, 'q': 32.0, 's': 4.0, 'w': 16, 'polarised': True, 'azimuth_deg': 200,
     'pyth_axis': 2, 'plus': 0, 'init': {'phase_retardation': {'k': 'fn', 'law': 'linear', 'slope': 1.0, 'argname': 'lam'}, 'lyot_stop': {'k': 'none'}},
     'events': [['use', 1.5], ['set', 'phase_retardation', {'k': 'np0d', 'delta': ['pyth', 3, 4, 5]}], ['use', 1.5], ['use', 1.0],
                ['set', 'lyot_stop', {'k': 'field', 'd': 0.9}, 'replace', True], ['set', 'phase_retardation', {'k': 'fn', 'law': 'table', 'argname': 'w'}], ['use', 1.0],
                ['set', 'lyot_stop', {'k': 'scalarfn', 'v': 0.5, 'gain': 1.0, 'argname': 'wvl'}, 'inner', False], ['use', 1.5]],
     'table': [[1.0, 0, 1, 1], [1.5, 8, 15, 17]]},
    {'part': 'H', 'kind': 'lyot', 'wl0': 1.6e-6, 'seed': 3, 'N': 12, 'fq': 3, 'airy': 4,
     'init': {'focal_plane_mask': {'k': 'field', 'd': 2.5}, 'lyot_stop': {'k': 'field', 'd': 0.9}},
     'events': [['use', 1.0], ['set', 'focal_plane_mask', {'k': 'fn', 'd': 2.5, 'gain': 1.0, 'argname': 'wavelength'}, 'inner', False], ['use', 1.0], ['use', 1.375],
                ['set', 'focal_plane_mask', {'k': 'scalar', 'v': 1.0}, 'replace', False], ['use', 1.375],
                ['set', 'lyot_stop', {'k': 'scalar', 'v': 0.5}, 'inner', False], ['use', 1.0]], 'table': []},
    {'part': 'H', 'kind': 'occulted', 'wl0': 1.0, 'seed': 4, 'N': 10, 'fq': 2, 'airy': 4,
     'init': {'focal_plane_mask': {'k': 'scalarfn', 'v': 1.0, 'gain': 1.0, 'argname': 'w'}, 'lyot_stop': {'k': 'none'}},
     'events': [['use', 2.0], ['set', 'focal_plane_mask', {'k': 'scalar', 'v': 0.0}, 'inner', False], ['use', 2.0],
                ['set', 'focal_plane_mask', {'k': 'gridfn', 'd': 2.0, 'v': 0.5}, 'inner', False], ['use', 0.5], ['use', 2.0]], 'table': []},
    {'part': 'H', 'kind': 'vortex', 'wl0': 1.6e-6, 'seed': 5, 'charge': 2, 'N': 32, 'q': 32.0, 's': 4.0, 'w': 16,
     'init': {'lyot_stop': {'k': 'none'}},
     'events': [['use', 1.25], ['set', 'lyot_stop', {'k': 'field', 'd': 0.95}, 'replace', False], ['use', 1.25],
                ['set', 'lyot_stop', {'k': 'fn', 'd': 0.95, 'gain': 0.5, 'argname': 'lam'}, 'inner', False], ['use', 1.0], ['use', 1.25]], 'table': []},
]


def run_set_case(case):
    hp = _hp()
    bad, obs = [], {'steps': []}
    kind, wl0 = case['kind'], case['wl0']
    rng = np.random.default_rng(case['seed'])
    hist = 'history %s' % (_show_events(case),)
    try:
        with warnings.catch_warnings():
            warnings.simplefilter('ignore')
            N = case['N']
            pg = hp.make_pupil_grid(N)
            stop_base = lambda d: hp.evaluate_supersampled(hp.make_circular_aperture(d), pg, 4)  # noqa: E731

            def stop_pair(spec):
                """(OpticalElement or None, wavelength -> array or None)"""
                if spec['k'] == 'none':
                    return None, None, None
                val, ref = _apod_value(hp, case, spec, pg, stop_base(spec.get('d', 1.0)) if 'd' in spec else None)
                return hp.Apodizer(val), ref, val

            def apply_stop_set(coro, ev, cur):
                spec, how = ev[2], ev[3]
                if how == 'inner':
                    _, ref, val = stop_pair(spec)
                    coro.lyot_stop.apodization = val
                else:
                    el, ref, _ = stop_pair(spec)
                    coro.lyot_stop = el
                if len(ev) > 4 and ev[4] and hasattr(coro, 'clear_cache'):
                    coro.clear_cache()
                cur['lyot_stop'] = spec
                return ref

            cur = {k: dict(v) for k, v in case['init'].items()}
            if kind in ('vvc', 'vortex', 'fqpm'):
                ap = hp.evaluate_supersampled(hp.make_circular_aperture(1), pg, 4)
                E_on = hp.Field(np.asarray(ap, dtype=complex), pg)
                a = math.radians(33 if kind == 'fqpm' else case.get('azimuth_deg', 30))
                E_off = hp.Field(np.asarray(ap * np.exp(2j * np.pi * 10 * (pg.x * math.cos(a) + pg.y * math.sin(a))), dtype=complex), pg)
                stokes = (1, 0.3, -0.2, 0.1) if case.get('polarised') else None
                geo = {'charge': case['charge'], 'q': case['q'], 'scaling_factor': case['s'], 'window_size': case['w']}

                def make(stop_el, pr=None):
                    kw = dict(q=geo['q'], scaling_factor=geo['scaling_factor'], window_size=geo['window_size'])
                    if kind == 'vvc':
                        return hp.VectorVortexCoronagraph(geo['charge'], stop_el, phase_retardation=pr, **kw)
                    if kind == 'vortex':
                        return hp.VortexCoronagraph(pg, geo['charge'], stop_el, **kw)
                    return hp.FQPMCoronagraph(pg, stop_el, **kw)
                name = {'vvc': 'vector vortex', 'vortex': 'vortex charge 2', 'fqpm': 'fqpm'}[kind]
                el0, stop_ref, _ = stop_pair(cur['lyot_stop'])
                used = make(el0, _ret_obj(case, cur['phase_retardation']) if kind == 'vvc' else None)
                w1 = hp.Wavefront(E_on, 1.0, input_stokes_vector=stokes)
                pin = float(w1.total_power)
                refs = {}

                def references():
                    key = (geo['charge'], float(geo['q']), geo['scaling_factor'], geo['window_size'])
                    if key not in refs:
                        if kind == 'vvc':
                            r0 = make(None, 0.0).forward(w1)
                            r1 = make(None, math.pi).forward(w1)
                            refs[key] = (r0, r0.electric_field, r1.electric_field)
                        else:
                            r0 = make(None).forward(w1)
                            refs[key] = (r0, r0.electric_field, None)
                    return refs[key]

                def power(tmpl, F):
                    t = tmpl.copy()
                    t.electric_field = F
                    return float(t.total_power)
                fresh_due, fresh_done = False, False
                nuse = sum(1 for ev in case['events'] if ev[0] == 'use')
                iuse = 0
                for k, ev in enumerate(case['events']):
                    if ev[0] == 'set':
                        if ev[1] == 'lyot_stop':
                            stop_ref = apply_stop_set(used, ev, cur)
                        elif ev[1] == 'phase_retardation':
                            cur['phase_retardation'] = ev[2]
                            used.phase_retardation = _ret_obj(case, ev[2])
                            used.clear_cache()
                        else:
                            geo[ev[1]] = ev[2]
                            setattr(used, ev[1], ev[2])
                            used.clear_cache()
                        fresh_due = True
                        continue
                    iuse += 1
                    wl = ev[1] * wl0
                    wf = hp.Wavefront(E_on.copy(), wl, input_stokes_vector=stokes)
                    before = np.asarray(wf.electric_field).copy()
                    out = used.forward(wf)
                    on = float(out.total_power / wf.total_power)
                    tmpl, o0, o1 = references()
                    sarr = stop_ref(wl) if stop_ref is not None else 1.0
                    step = {'wl': wl, 'on': on, 'event': k}
                    what = '%s, N=%d, %s: event %d (use at wavelength %g)' % (name, N, hist, k, wl)
                    if out.wavelength != wl or wf.wavelength != wl or not np.array_equal(np.asarray(wf.electric_field), before):
                        bad.append(('setter wavelength-bookkeeping', '%s changed its input or carries wavelength %r' % (what, out.wavelength)))
                    if kind == 'vvc':
                        delta = _ret_of(case, cur['phase_retardation'], wl)
                        ch, sh = math.cos(delta / 2), math.sin(delta / 2)
                        want = (ch * o0 + sh * o1) * sarr
                        P0, P1 = power(tmpl, o0 * sarr), power(tmpl, o1 * sarr)
                        X = (power(tmpl, (o0 + o1) * sarr) - P0 - P1) / 2
                        step.update({'ch': ch, 'sh': sh, 'delta': delta, 'P0': P0 / pin, 'P1': P1 / pin, 'X': X / pin})
                        halfwave = abs(ch) < 1e-12
                    else:
                        want = o0 * sarr
                        halfwave = True
                    d, sc = _fdiff(out.electric_field, want)
                    if not d <= TOL * sc:
                        bad.append(('%s setter closed-form' % kind, '%s: output differs from [current stop] x (cos(d/2) out(0) + sin(d/2) out(pi)) of the current parameters '
                                    '(retardation %s, stop %s) by %.3g; on-axis transmission %.4g' % (what, _kind_class(cur.get('phase_retardation', {'k': '-'})), cur['lyot_stop']['k'], d, on)))
                    if fresh_due or (iuse == nuse and not fresh_done):
                        fresh_due, fresh_done = False, True
                        el, _, _ = stop_pair(cur['lyot_stop'])
                        fr = make(el, _ret_obj(case, cur['phase_retardation']) if kind == 'vvc' else None).forward(hp.Wavefront(E_on.copy(), wl, input_stokes_vector=stokes))
                        d, sc = _fdiff(out.electric_field, fr.electric_field)
                        step['fresh'] = True
                        if not d <= TOL * sc:
                            bad.append(('%s setter history' % kind, '%s: the re-assigned object differs from a fresh object constructed with the current parameters by %.3g '
                                        '(on-axis transmission %.4g, fresh %.4g)' % (what, d, on, float(fr.total_power / wf.total_power))))
                    undersized = cur['lyot_stop']['k'] == 'field' and geo['charge'] == 2 and float(geo['q']) >= (32 if kind != 'fqpm' else 16) and N >= 32
                    if halfwave and undersized:
                        step['nulling'] = True
                        if not on < 0.01:
                            bad.append(('%s setter on-axis' % kind, '%s: the current plate is half wave here, on-axis transmission %.4g >= 1%%' % (what, on)))
                        wf2 = hp.Wavefront(E_off, wl, input_stokes_vector=stokes)
                        off = float(used.forward(wf2).total_power / wf2.total_power)
                        if not off > 0.5:
                            bad.append(('%s setter off-axis' % kind, '%s: transmission at 10 lambda/D %.4g <= 50%%' % (what, off)))
                    obs['steps'].append(step)
            elif kind in ('lyot', 'occulted'):
                fg = hp.make_focal_grid(case['fq'], case['airy'], spatial_resolution=wl0)
                ap = hp.make_circular_aperture(1)(pg)
                E = hp.Field(np.asarray(ap, dtype=complex) * (1 + 0.25 * rng.standard_normal(pg.size) + 0.25j * rng.standard_normal(pg.size)), pg)
                occ_base = lambda d: 1 - 0.75 * np.asarray(hp.make_circular_aperture(2 * d * wl0)(fg))  # noqa: E731

                def mask_pair(spec):
                    val, ref = _apod_value(hp, case, spec, fg, occ_base(spec['d']) if 'd' in spec else None)
                    return hp.Apodizer(val), ref, val
                fpm0, mask_ref, _ = mask_pair(cur['focal_plane_mask'])
                el0, stop_ref, _ = stop_pair(cur['lyot_stop'])

                def make(fpm, stop_el):
                    if kind == 'lyot':
                        return hp.LyotCoronagraph(pg, fpm, stop_el, focal_plane_mask_grid=fg)
                    return hp.OccultedLyotCoronagraph(pg, fpm, focal_plane_mask_grid=fg)
                name = '%s coronagraph' % kind
                used = make(fpm0, el0)
                prop = hp.FraunhoferPropagator(pg, fg)
                for k, ev in enumerate(case['events']):
                    if ev[0] == 'set':
                        if ev[1] == 'lyot_stop':
                            stop_ref = apply_stop_set(used, ev, cur)
                        else:
                            el, mask_ref, val = mask_pair(ev[2])
                            if ev[3] == 'inner':
                                used.focal_plane_mask.apodization = val
                            else:
                                used.focal_plane_mask = el
                            cur['focal_plane_mask'] = ev[2]
                        continue
                    wl = ev[1] * wl0
                    wf = hp.Wavefront(E.copy(), wl)
                    out = used.forward(wf)
                    m = np.asarray(mask_ref(wl))
                    sarr = stop_ref(wl) if stop_ref is not None else 1.0
                    foc = prop.forward(hp.Wavefront(E.copy(), wl))
                    if kind == 'lyot':
                        foc.electric_field = foc.electric_field * (1 - m)
                        ref = (np.asarray(E) - np.asarray(prop.backward(foc).electric_field)) * sarr
                    else:
                        foc.electric_field = foc.electric_field * m
                        ref = np.asarray(prop.backward(foc).electric_field)
                    what = '%s, N=%d, %s: event %d (use at wavelength %g; mask %s, stop %s)' % (name, N, hist, k, wl, cur['focal_plane_mask']['k'], cur['lyot_stop']['k'])
                    d, sc = _fdiff(out.electric_field, ref)
                    if not d <= TOL * sc:
                        bad.append(('%s setter formula' % kind, '%s: forward differs from the formula with the current mask and stop at this wavelength by %.3g' % (what, d)))
                    fel, _, _ = mask_pair(cur['focal_plane_mask'])
                    sel, _, _ = stop_pair(cur['lyot_stop'])
                    fr = make(fel, sel).forward(hp.Wavefront(E.copy(), wl))
                    d, sc = _fdiff(out.electric_field, fr.electric_field)
                    if not d <= TOL * sc:
                        bad.append(('%s setter history' % kind, '%s: the re-assigned object differs from a fresh object constructed with the current parameters by %.3g' % (what, d)))
                    if not np.array_equal(np.asarray(wf.electric_field), np.asarray(E)) or wf.wavelength != wl or out.wavelength != wl:
                        bad.append(('setter wavelength-bookkeeping', '%s changed its input or the wavelength' % what))
                    if float(np.abs(m - 1).max()) == 0.0 and kind == 'lyot':
                        d, sc = _fdiff(out.electric_field, np.asarray(E) * sarr)
                        if not d <= TOL * sc:
                            bad.append(('lyot setter transparent', '%s: the current mask is fully transmissive, output differs from stop x input by %.3g' % (what, d)))
                    if float(np.abs(m).max()) == 0.0 and kind == 'occulted':
                        d, sc = _fdiff(out.electric_field, np.zeros(pg.size))
                        if not d <= TOL * sc:
                            bad.append(('occulted setter opaque', '%s: the current mask is fully opaque, output differs from zero by %.3g' % (what, d)))
                    obs['steps'].append({'wl': wl, 'power': float(out.total_power), 'event': k})
            else:
                raise MachineryError('unknown kind')
    except MachineryError:
        raise
    except Exception as e:  # noqa
        bad.append(('%s setter raises' % kind, '%s coronagraph, %s: raised %s: %s' % (kind, hist, type(e).__name__, str(e)[:100])))
        obs = None
    return obs, bad


def _show_events(case):
    def sp(s):
        if not isinstance(s, dict):
            return repr(s)
        return s['k'] + ('(' + s['law'] + ')' if 'law' in s else '')
    parts = ['init ' + ', '.join('%s=%s' % (k, sp(v)) for k, v in case['init'].items())]
    for ev in case['events']:
        parts.append('use %g' % ev[1] if ev[0] == 'use' else 'set %s=%s%s' % (ev[1], sp(ev[2]), ('/' + ev[3]) if len(ev) > 3 else ''))
    return '[' + '; '.join(parts) + ']'


def vvset_line(case, obs):
    """the event list of a vector-vortex case for the model: assignments of phase_retardation are `set` events; any
    other assignment + clear_cache() is a `set` of the unchanged parameter (the cache is emptied)"""
    a, b, c = PYTH[case['pyth_axis']]
    wls = sorted(set([st['wl'] for st in obs['steps']] + [1.0]))

    def ptoks(spec):
        if spec['k'] != 'fn':
            d = _pdelta(spec)
            return ['const', rat(math.cos(d / 2)), rat(math.sin(d / 2))]
        chs, shs = [], []
        for w in wls:
            try:
                d = _ret_of(case, spec, w)
                chs.append(math.cos(d / 2))
                shs.append(math.sin(d / 2))
            except KeyError:
                chs.append(1.0)
                shs.append(0.0)
        return ['fn', rat_list(wls), rat_list(chs), rat_list(shs)]
    cur = case['init']['phase_retardation']
    toks = ptoks(cur)
    for ev in case['events']:
        if ev[0] == 'use':
            toks += ['use', rat(ev[1] * case['wl0'])]
        elif ev[1] == 'phase_retardation':
            cur = ev[2]
            toks += ptoks(cur)
        elif ev[1] != 'lyot_stop' or (len(ev) > 4 and ev[4]):
            toks += ptoks(cur)
    return 'C09 vvset %s %s %d 1 %s' % (rat(Fraction(a, c)), rat(Fraction(b, c)), case['plus'], ' '.join(toks))


def check_vvset(ctx, case, obs, resp):
    toks = resp.split()
    short = {'kind': case['kind'], 'N': case['N'], 'events': _show_events(case)}
    if toks[0] != 'ok' or len(toks) != 6:
        ctx.disagree('C09 vvset', {'case': short, 'model': resp[:120]})
        return
    leak, frozen, noclear, mch, msh = [[float(v) for v in parse_rat_list(t)] for t in toks[1:6]]
    if len(leak) != len(obs['steps']):
        ctx.disagree('C09 vvset', {'case': short, 'model_uses': len(leak), 'real_uses': len(obs['steps'])})
        return
    for k, st in enumerate(obs['steps']):
        ctx.traces_validated += 1
        # measured on-axis transmission of the real re-assigned object at this use against the model's leak fraction
        want = leak[k] * st['P0'] + (1 - leak[k]) * st['P1'] + 2 * mch[k] * msh[k] * st['X']
        if not abs(st['on'] - want) <= TOL * max(1.0, abs(want)):
            ctx.disagree('C09 vvset leak', {'case': short, 'event': st['event'], 'wavelength': st['wl'], 'measured_on_axis': st['on'], 'model': want,
                                            'model_leak_fraction': leak[k], 'model_leak_if_kind_were_frozen_at_construction': frozen[k],
                                            'model_leak_if_setter_did_not_clear': noclear[k]})


def part_h(ctx):
    cases = [dict(c) for c in DIRECTED_H]
    for k in range(ctx.scale(14, 120)):
        cases.append(gen_set_case(ctx.rng))
    lines, plan = [], []
    t0 = time.time()
    budget = ctx.scale(15, 150)
    for case in cases:
        if case['kind'] in ('vvc', 'vortex', 'fqpm') and time.time() - t0 > budget:
            ctx.count('H:skipped-for-time')
            continue
        obs, bad = run_set_case(case)
        for key, what in bad:
            ctx.violation(key, what, case)
        ctx.count('H:kind:' + case['kind'])
        curk = {k: _kind_class(v) for k, v in case['init'].items()}
        changed, used_after = False, False
        for ev in case['events']:
            if ev[0] == 'use':
                used_after = used_after or changed
                continue
            ctx.count('H:param:%s.%s' % (case['kind'], ev[1]))
            new = _kind_class(ev[2])
            old = curk.get(ev[1], type(case.get({'window_size': 'w'}.get(ev[1], ev[1]))).__name__)
            ctx.count('H:kind-change:%s->%s' % (old, new))
            if len(ev) > 3:
                ctx.count('H:how:' + ev[3])
            changed = changed or (old != new)
            curk[ev[1]] = new
        ctx.count('H:events:%d' % len(case['events']))
        ctx.count('H:use-after-kind-change:%s' % used_after)
        ctx.case({'kind': case['kind'], 'N': case['N'], 'events': _show_events(case)},
                 ('H', case['kind'], case['N'], case['wl0'], _show_events(case)) if used_after else None)
        if obs is not None and case['kind'] == 'vvc' and obs['steps']:
            plan.append((case, obs))
            lines.append(vvset_line(case, obs))
    if lines:
        out = ctx.model(lines)
        for (case, obs), resp in zip(plan, out):
            check_vvset(ctx, case, obs, resp)


# =============================================================================================

def run(ctx):
    ctx.rule = ('A: every order on a range, mode and coefficient counts against the model and against h(h+1)/2. '
                'B: small apertures (circular, obstructed, rectangular, hexagonal, elliptical, grey, apodised, signed, full, sparse, zero, complex) '
                'on regular grids (even/odd/non-square/tiny, dyadic spacings or make_pupil_grid), orders 2,4,6,8; flat, aperture*polynomial and '
                'random complex fields; the four clauses evaluated on the real output, and P(E) compared with the exact rational projector when '
                'the modes are independent on the sampled aperture (decided exactly). Non-trivial = more than one pixel; distinct by '
                '(shape kind, dims, order, aperture kind). C: Lyot identities with real propagators, forward algebra against the model with '
                'exact linear propagators and arbitrary masks. D: constructed multi-scale coronagraphs on a box of (N, window, s, q) — levels, '
                'per-level dims/delta/zero, propagator kinds, recovered windows — against the model; non-trivial = at least two levels. '
                'E: measured on-axis (<1 %) and 10 lambda/D (>50 %) transmission. '
                'B also: the real transformation / transformation_inverse / coeffs are sent to the model, which evaluates the hypotheses of the '
                'perfectMat theorems on them and the literal operator E - T(c*(T+ E)) on every field (complex apertures in real 2n x 2k form, '
                'grids with non-constant weights, user-supplied coeffs: constant, ones on the modes of a lower order, random), and the matrix '
                'get_transformation_matrix_forward() entry by entry. C also: backward of both Lyot coronagraphs on real propagators and on stand-ins, '
                '<y, forward x> = <backward y, x> on stand-in pairs B = F^H. F: the real MultiScale/Vortex/FQPM constructors and forward/backward '
                'running on exact linear stand-ins for every Fourier object (13 small configurations, 1-4 levels): masks level by level, '
                'outputs, wavelength bookkeeping; telescoping identities on generated nested supports. '
                'G: one coronagraph object driven through a generated history of 2-6 wavelengths (ratios 0.5-2 of a design wavelength that is '
                'later / first / absent / repeated): VectorVortex with phase_retardation a callable of wavelength (laws: pi*l0/l, linear, table of '
                'Pythagorean half angles; argument spelled wavelength / lam / wvl / w), Lyot and occulted Lyot with a focal-plane mask that is a '
                'function of wavelength (amplitude or size law), Perfect, Vortex, FQPM; every step against a fresh object, the closed form / '
                'brute-force formula of that wavelength, the nulling / transparent / opaque clause at the design wavelength; the measured on-axis '
                'transmission of the used vector vortex at every step against the model leak fraction. Non-trivial = at least two distinct wavelengths.')
    ctx.assumptions += [
        'LAPACK QR + truncated-SVD pseudo-inverse: T+ T = I, T+ = T^H and span(modes) inside range(T) hold up to 1e-9 for the real '
        'transformation matrices (evaluated exactly by the model on every run; a larger defect is reported as a disagreement)',
        'multi-scale stand-ins: the algebra of constructor/forward/backward is checked for arbitrary linear operators in place of FFT/MFT/'
        'Fraunhofer objects; that the real Fourier objects realise the exact-window design of the telescoping theorem is not proved '
        '(level geometry: part D; leakage: part E)',
        'grid weights are constant (regular grids): power is proportional to the unweighted sum of |E|^2',
        'FQPM off-axis throughput is measured at least 20 degrees away from the quadrant transitions (an ideal FQPM attenuates sources on them)',
        'multi-scale model domain: q > 2/scaling_factor, scaling_factor > 1; when q/2 is an exact power of the scaling factor the float '
        'logarithm quotient may add one level (counted as boundary)',
        'chromatic closed form of the vector vortex: the references out(0), out(pi) are two objects with constant retardance 0 and pi used at '
        'wavelength 1 (constant-retardance objects are wavelength-free: part E, key vvc chromatic)',
        'leakage is measured for N >= 32 pixels across the pupil (10 lambda/D must stay below the pupil Nyquist frequency) and q at least the '
        'documented minimum for the charge',
    ]
    walls = ctx.extra.setdefault('part_wall_s', {})

    def timed(name, f, *a):
        t0 = time.time()
        r = f(*a)
        walls[name] = round(time.time() - t0, 2)
        return r
    timed('A', part_a, ctx)
    timed('B', part_b, ctx)
    timed('C', part_c, ctx)
    timed('F', part_f, ctx)
    timed('G', part_g, ctx)
    timed('H', part_h, ctx)
    geo = timed('E', part_e, ctx)
    timed('D', part_d, ctx, geo)


def replay(ctx, case):
    part = case.get('part')
    if part == 'A':
        real = real_mode_count(case['order'], case['side'])
        h = case['order'] // 2
        bad = [] if (real[0] == 'ok' and real[1] == real[2] == h * (h + 1) // 2) else [('perfect mode-count', str(real))]
    elif part == 'B':
        _, bad = run_perfect_case(case)
    elif part == 'C':
        _, bad = run_lyot_case(case)
    elif part == 'D':
        bad = levels_oracle(case, observe_levels(case))
    elif part == 'E':
        _, bad = run_leak_case(case)
    elif part == 'F':
        _, bad = run_msalg_case(case)
    elif part == 'G':
        _, bad = run_chrom_case(case)
    elif part == 'H':
        _, bad = run_set_case(case)
    else:
        raise MachineryError('unknown replay case')
    for key, what in bad:
        print('  fails:', key, '-', what)
    return not bad
