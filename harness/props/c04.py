"""C04 — FresnelPropagator / AngularSpectrumPropagator: linear, adjoint-backward, passive, additive.

Oracle (independent of the Lean model), on the real propagators:
  * every regime: linearity, <y, forward x>_w = <backward y, x>_w;
  * adequately sampled regime (transfer-function branch, pixel >= lambda/2): total power never increases,
    forward(-z) = backward(+z);
  * that regime, Fresnel, zero_padding = 1, num_oversampling = 1: power conserved, backward inverts forward,
    z1 then z2 (same sign) = z1 + z2.
The regime is decided here with exact Fractions from the generated dyadic parameters.

Correspondence with the Lean model (Model/NearField.lean): padded sizes, cut-out, internal frequency grid,
regime / branch / evanescence flags, and the transfer function itself: the array the real FourierFilter multiplies
with is compared with the mean of exp(2 pi i turns) over the sub-sample phases the model returns in exact turns
(Fresnel) or with exp(2 pi i z sqrt(radicand)) for the model's exact radicands (angular spectrum).  On the
impulse-response branch the real array must *not* coincide with the directly sampled transfer function.
"""
import math
import warnings
from fractions import Fraction

import numpy as np

from harness.common import rat, parse_rat, parse_rat_list, MachineryError

TOL = 1e-9
TFX_BUDGET = 700        # sub-samples (x internal samples on the impulse-response branch) per exactly evaluated transfer-function bin
IR_BUDGET = 1600        # internal samples x sub-samples up to which the impulse-response branch is recomputed


def _dy(rng, lo, hi, bits):
    n = int(rng.integers(int(lo * (1 << bits)), int(hi * (1 << bits)) + 1))
    return n / float(1 << bits)


DIMS = [(2, 2), (3, 3), (4, 4), (5, 5), (7, 7), (8, 8), (9, 9), (4, 6), (6, 4), (5, 8), (8, 5), (7, 9), (9, 7), (6, 11), (11, 6),
        (3, 10), (10, 3), (12, 12), (2, 9), (16, 16), (13, 8)]


# ---------------------------------------------------------------------------------------------
# zero_padding / num_oversampling: value (scalar or per-axis pair) and the way the argument is spelled

def qxy(case):
    if case['kind'] == 'angular':
        return (2.0, 2.0)
    q = case['q']
    return (float(q[0]), float(q[1])) if isinstance(q, (list, tuple)) else (float(q), float(q))


def sxy(case):
    s = case['s']
    return (int(s[0]), int(s[1])) if isinstance(s, (list, tuple)) else (int(s), int(s))


def unpadded(case):
    return case['kind'] == 'fresnel' and qxy(case) == (1.0, 1.0) and sxy(case) == (1, 1)


def spell(value, how, integer=False):
    """The Python object handed to hcipy for a scalar or per-axis value."""
    if isinstance(value, (list, tuple)):
        v = [int(x) for x in value] if integer else [float(x) for x in value]
        if integer is False and how == 'intarray' and all(float(x).is_integer() for x in v):
            return np.array([int(x) for x in v])
        return {'list': list(v), 'tuple': tuple(v)}.get(how, np.array(v))
    if integer:
        return {'float': float(value), 'np': np.int64(value), '0d': np.array(int(value))}.get(how, int(value))
    if how == 'int' and float(value).is_integer():
        return int(value)
    return {'np': np.float64(value), '0d': np.array(float(value))}.get(how, float(value))


def _vkey(v):
    return tuple(v) if isinstance(v, (list, tuple)) else v


def _vtext(v, integer=False):
    if isinstance(v, (list, tuple)):
        return '[%s,%s]' % ((str(int(v[0])), str(int(v[1]))) if integer else (rat(float(v[0])), rat(float(v[1]))))
    return str(int(v)) if integer else rat(float(v))


# ---------------------------------------------------------------------------------------------
# exact regime arithmetic (harness side, Fractions)

def exact_regime(case):
    """thr = lam|z|/Lmax, impulse branch, branch slack, stated regime, min radicand (angular), all exact."""
    nx, ny = case['dims']
    dx, dy = (Fraction(v) for v in case['delta'])
    lam, z, n = Fraction(case['lam']), Fraction(case['z']), Fraction(case['n'])
    lmax = max(nx * dx, ny * dy)
    thr = lam * abs(z) / lmax
    ir = dx < thr or dy < thr
    slack = min(dx, dy) - thr
    stated = (not ir) and dx >= lam / 2 and dy >= lam / 2
    q = [Fraction(v) for v in qxy(case)]
    M = [int(np.round(float(q[0] * nx))), int(np.round(float(q[1] * ny)))]      # np.round: half to even
    ss = sxy(case)

    def numax(d, m, s):
        dith = [Fraction(2 * j + 1, 2 * s) - Fraction(1, 2) for j in range(s)]
        lo = (Fraction(0) - m // 2 + dith[0]) / (d * m)
        hi = (Fraction(m - 1) - m // 2 + dith[-1]) / (d * m)
        return max(abs(lo), abs(hi))
    minrad = (n / lam) ** 2 - numax(dx, M[0], ss[0]) ** 2 - numax(dy, M[1], ss[1]) ** 2
    return {'thr': thr, 'ir': ir, 'slack': slack, 'stated': stated, 'M': M, 'minrad': minrad}


def gen_case(rng, big=False):
    kind = 'fresnel' if rng.random() < 0.6 else 'angular'
    nx, ny = DIMS[int(rng.integers(0, len(DIMS)))]
    if rng.random() < 0.3:
        hi = 13 if not big else 25
        nx, ny = int(rng.integers(2, hi)), int(rng.integers(2, hi))
    lam = [1 / 16, 1 / 8, 1 / 4, 1 / 2, 1.0, 3 / 16, 3 / 8][int(rng.integers(0, 7))]
    # pixel size in units of lambda: below lambda/2 (outside the stated regime), the evanescent-corner band
    # [1/2, 1/sqrt 2) for n = 1, and comfortably sampled
    ratio = [0.25, 0.375, 0.5, 0.5625, 0.625, 0.6875, 0.75, 1.0, 1.5, 2.0, 4.0, 8.0][int(rng.integers(0, 12))]
    if kind == 'fresnel' or rng.random() < 0.55:
        ratio = [0.75, 1.0, 1.5, 2.0, 4.0, 8.0, 0.5, 0.25][int(rng.integers(0, 8))]
    dx = ratio * lam
    dy = dx if rng.random() < 0.6 else dx * [0.5, 0.75, 1.25, 1.5, 2.0][int(rng.integers(0, 5))]
    n = [1.0, 1.0, 1.25, 1.5, 2.0, 0.75, 0.5, 0.875][int(rng.integers(0, 8))]      # n < 1: plasma / X-ray media; the regime is worded with the vacuum wavelength
    lmax = max(nx * dx, ny * dy)
    zmax = min(dx, dy) * lmax / lam           # |z| <= zmax  <=>  transfer-function branch
    r = rng.random()
    if r < 0.62:
        z = zmax * int(rng.integers(1, 65)) / 64.0
    elif r < 0.66:
        z = zmax                               # exactly on the boundary (slack 0)
    elif r < 0.69:
        z = 0.0
    else:
        z = zmax * (1 + int(rng.integers(1, 33)) / 8.0)
    if n < 1 and rng.random() < 0.5:
        # inside the stated regime (vacuum wavelength) but beyond the limit a medium-wavelength criterion would put at n*zmax
        z = zmax * (n + (1 - n) * int(rng.integers(1, 17)) / 16.0)
    if rng.random() < 0.5:
        z = -z
    if kind == 'fresnel':
        g = math.gcd(nx, ny)
        qs = [1.0, 1.0, 2.0, 2.0, 3.0] + [1.0 + j / g for j in range(1, g + 1)]
        q = qs[int(rng.integers(0, len(qs)))]
        if rng.random() < 0.1:
            q = _dy(rng, 1, 3, 2)
    else:
        q = 2.0
    s = [1, 1, 2, 2, 3][int(rng.integers(0, 5))]
    qspell = sspell = None
    r = rng.random()
    if kind == 'fresnel' and r < 0.30:
        # per-axis zero padding, including padding one axis only (x is the fastest axis: padding y only
        # leaves the cut-out contiguous in memory)
        q = [[1.0, 2.0], [2.0, 1.0], [1.0, 1.5], [1.5, 1.0], [1.0, 3.0], [2.0, 3.0], [1.0, 1.0]][int(rng.integers(0, 7))]
        if rng.random() < 0.4:
            q = [1.0, 1.0 + int(rng.integers(1, 2 * ny + 1)) / float(ny)]
        qspell = ['array', 'intarray', 'list', 'tuple'][int(rng.integers(0, 4))]
    elif kind == 'fresnel' and r < 0.42 and nx != ny:
        # a non-integer scalar that rounds to "no padding" on the short axis and pads the long one
        lo, hi = min(nx, ny), max(nx, ny)
        q = 1.0 + 0.75 / hi
        if not (round(q * lo) == lo and round(q * hi) == hi + 1):
            q = 1.0 + 1.0 / hi
        qspell = ['float', 'np', '0d'][int(rng.integers(0, 3))]
    elif kind == 'fresnel':
        qspell = ['float', 'float', 'int', 'np', '0d'][int(rng.integers(0, 5))]
    r = rng.random()
    if r < 0.2:
        s = [[1, 2], [2, 1], [3, 1], [2, 2], [1, 3]][int(rng.integers(0, 5))]
        sspell = ['array', 'list', 'tuple'][int(rng.integers(0, 3))]
    else:
        sspell = ['int', 'int', 'float', 'np', '0d'][int(rng.integers(0, 5))]
    if kind == 'fresnel' and rng.random() < 0.3:
        # the third clause: no padding, no oversampling, adequately sampled
        q, s = 1.0, 1
        z = math.copysign(zmax * int(rng.integers(1, 65)) / 64.0, z if z != 0 else 1.0)
    wf = ['scalar', 'scalar', 'jones', 'matrix', 'scalar-stokes'][int(rng.integers(0, 5))]
    stokes = None
    if wf in ('matrix', 'scalar-stokes'):
        stokes = [1.0, _dy(rng, -1 / 2, 1 / 2, 3), _dy(rng, -1 / 2, 1 / 2, 3), _dy(rng, -1 / 2, 1 / 2, 3)]
        if rng.random() < 0.12:
            # degree of polarisation > 1 (not a physical Stokes vector): Wavefront.I is then an indefinite form, passivity
            # is not claimed (stokes_power_unphysical_counterexample); only the I polynomial and the other clauses are checked
            stokes = [0.5, [1.0, -1.0][int(rng.integers(0, 2))], _dy(rng, -1 / 2, 1 / 2, 3), _dy(rng, -1, 1, 3)]
    zero = [-dx * (nx - 1) / 2, -dy * (ny - 1) / 2]
    if rng.random() < 0.2:
        zero = [_dy(rng, -1, 1, 4), _dy(rng, -1, 1, 4)]
    alias = False
    if dx == dy and rng.random() < 0.2:
        zero, alias = [dx, dy], True          # delta and zero: the same ndarray object
    # second distance for additivity: same sign, sum stays inside the transfer-function branch when possible
    z2 = z * [0.25, 0.5, 1.0][int(rng.integers(0, 3))]
    if abs(z) + abs(z2) > zmax and abs(z) < zmax:
        z2 = math.copysign(zmax - abs(z), z) if z != 0 else 0.0
    return {'alias': alias, 'kind': kind, 'dims': [nx, ny], 'delta': [dx, dy], 'zero': zero, 'lam': lam, 'z': z, 'z2': z2, 'n': n, 'q': q, 's': s, 'qspell': qspell, 'sspell': sspell,
            'wf': wf, 'stokes': stokes, 'fseed': int(rng.integers(0, 2 ** 31))}


def gen_small_fresnel(rng, budget=9000, ir=False):
    """A Fresnel propagator small enough for the exact propagation of the model (driver op `prop`), on either branch of the regime switch."""
    while True:
        case = gen_case(rng)
        nx, ny = [(2, 2), (3, 3), (2, 3), (3, 2), (4, 4), (4, 3), (2, 4), (5, 2), (3, 5), (5, 5), (6, 4), (4, 7), (8, 8), (7, 5), (6, 6), (9, 4)][int(rng.integers(0, 16))]
        dx, dy = case['delta']
        q = [1.0, 1.0, 1.5, 2.0, [1.0, 2.0], [2.0, 1.0], 4 / 3][int(rng.integers(0, 7))]
        s = [1, 1, 2, [1, 2], [2, 1], [3, 1], [1, 3]][int(rng.integers(0, 7))]
        zmax = min(dx, dy) * max(nx * dx, ny * dy) / case['lam']
        z = zmax * int(rng.integers(1, 65)) / 64.0 * (1 if rng.random() < 0.5 else -1)
        if ir or rng.random() < 0.35:
            z = z * (1 + int(rng.integers(1, 25)) / 8.0)          # beyond the sampling limit: impulse-response branch
        case.update({'kind': 'fresnel', 'dims': [nx, ny], 'q': q, 's': s, 'qspell': None, 'sspell': None, 'z': z, 'z2': z / 4, 'wf': 'scalar', 'stokes': None,
                     'zero': [-dx * (nx - 1) / 2, -dy * (ny - 1) / 2], 'alias': False, 'small': True})
        if prop_affordable(case, budget):
            case['prop_budget'] = budget
            return case


PROP_MM = 64           # largest internal size My*Mx for which the whole propagation is executed exactly (op `prop`)


def prop_cost(case):
    """Number of term products of the un-memoised exact pipeline: outputs x bins x (transform + transfer-function samples)."""
    reg = exact_regime(case)
    nx, ny = case['dims']
    mm, ss = reg['M'][0] * reg['M'][1], sxy(case)[0] * sxy(case)[1]
    # (on the impulse-response branch every transfer-function value is a sum of up to mm*ss distinct phases: the products are merged
    #  term by term, measured ~4x the cost of the count of products)
    return nx * ny * mm * (mm + (4 * mm * ss if reg['ir'] else ss)), mm


def prop_affordable(case, budget=12000):
    if case['kind'] != 'fresnel' or case['wf'] != 'scalar' or case['z'] == 0:
        return False
    cost, mm = prop_cost(case)
    return mm <= PROP_MM and cost <= budget


def gen_peraxis(rng):
    """Per-axis num_oversampling (sx != sy) on a non-square grid with unequal pixels and per-axis / one-axis padding: every place where the
    x and the y parameters could be exchanged is asymmetric.  Oracle: the transposed problem gives the transposed answer."""
    case = gen_case(rng)
    nx, ny = [(2, 3), (3, 2), (4, 6), (6, 4), (5, 8), (8, 5), (3, 7), (7, 4), (6, 11), (9, 5)][int(rng.integers(0, 10))]
    s = [[1, 2], [2, 1], [3, 1], [1, 3], [2, 3], [3, 2]][int(rng.integers(0, 6))]
    dx = case['delta'][0]
    dy = dx * [0.5, 0.75, 1.25, 1.5, 2.0, 1.0][int(rng.integers(0, 6))]
    kind = 'fresnel' if rng.random() < 0.7 else 'angular'
    q = [1.0, 2.0, 1.5, [1.0, 2.0], [2.0, 1.0], [1.5, 1.0], [2.0, 3.0]][int(rng.integers(0, 7))] if kind == 'fresnel' else 2.0
    zmax = min(dx, dy) * max(nx * dx, ny * dy) / case['lam']
    z = zmax * int(rng.integers(1, 65)) / 64.0 * (1 if rng.random() < 0.5 else -1)
    if rng.random() < 0.25:
        z = z * (1 + int(rng.integers(1, 17)) / 8.0)
    case.update({'kind': kind, 'dims': [nx, ny], 'delta': [dx, dy], 'q': q, 's': s, 'z': z, 'z2': z / 4, 'wf': ['scalar', 'scalar', 'jones'][int(rng.integers(0, 3))],
                 'stokes': None, 'qspell': 'array' if isinstance(q, list) else None, 'sspell': ['array', 'list', 'tuple'][int(rng.integers(0, 3))],
                 'zero': [-dx * (nx - 1) / 2, -dy * (ny - 1) / 2], 'alias': False, 'peraxis': True})
    return case


def transposed_case(case):
    sw = lambda v: [v[1], v[0]] if isinstance(v, list) else v
    return dict(case, dims=sw(case['dims']), delta=sw(case['delta']), zero=sw(case['zero']), q=sw(case['q']), s=sw(case['s']), alias=False)


def oracle_transpose(case, obs):
    """forward on the transposed grid (x and y exchanged in dims, delta, zero_padding, num_oversampling) of the transposed field is the
    transposed output."""
    bad = []
    tc = transposed_case(case)
    grid = build_grid(tc)
    nx, ny = case['dims']
    ex = np.asarray(obs['ex'])
    ts = ex.shape[:-1]
    xt = np.swapaxes(ex.reshape(ts + (ny, nx)), -1, -2).reshape(ts + (nx * ny,))
    import hcipy
    try:
        out = np.asarray(build_prop(tc, grid, tc['z']).forward(hcipy.Wavefront(hcipy.Field(xt, grid), tc['lam'])).electric_field)
    except Exception as e:
        return [('raises %s transposed' % type(e).__name__, 'propagation of the transposed problem raised %s: %s' % (type(e).__name__, e))]
    back = np.swapaxes(out.reshape(ts + (nx, ny)), -1, -2).reshape(ts + (nx * ny,))
    ref = np.asarray(obs['efx'])
    d = float(np.abs(back - ref).max())
    if not d <= TOL * max(1.0, float(np.abs(ref).max())):
        bad.append(('axis-exchange %s per-axis' % case['kind'], 'exchanging x and y everywhere (dims, delta, zero_padding %r, num_oversampling %r) '
                    'does not transpose the result: deviation %.3g' % (case['q'], case['s'], d)))
    return bad


def directed():
    cases = []
    base = {'zero': None, 'n': 1.0, 'wf': 'scalar', 'stokes': None, 'fseed': 3}
    for kind in ('fresnel', 'angular'):
        for dims, delta in (((8, 8), (0.25, 0.25)), ((7, 9), (0.25, 0.125)), ((6, 11), (0.125, 0.25))):
            for z in (0.5, -0.5, 40.0, -40.0):
                for q, s in ((1.0, 1), (2.0, 2), (1.5, 3)):
                    if kind == 'angular' and q != 2.0:
                        continue
                    c = dict(base, kind=kind, dims=list(dims), delta=list(delta), lam=1 / 16, z=z, z2=z / 2, q=q, s=s)
                    cases.append(c)
                if kind == 'fresnel':
                    cases.append(dict(base, kind=kind, dims=list(dims), delta=list(delta), lam=1 / 16, z=z, z2=z / 2, q=1.0, s=1, n=1.5,
                                      wf='matrix', stokes=[1.0, 0.5, -0.25, 0.125]))
    # angular spectrum, pixel in [lambda/2, lambda/sqrt2): corner frequencies are evanescent although the
    # stated regime holds (checkerboard-like content is in the random fields)
    for ratio in (0.5, 0.625, 0.6875):
        for z in (0.25, -0.25):
            cases.append(dict(base, kind='angular', dims=[8, 8], delta=[ratio, ratio], lam=1.0, z=z, z2=z, q=2.0, s=1))
    # per-axis / one-axis padding and argument spellings; y-only padding keeps the cut-out contiguous
    for q, qs in (([1.0, 2.0], 'array'), ([1.0, 2.0], 'intarray'), ([2.0, 1.0], 'array'), (1.03125, 'float'), (2.0, '0d'), (2.0, 'int'),
                  ([1.0, 1.5], 'tuple'), ([2.0, 2.0], 'list')):
        for s_, ss in ((1, 'int'), ([2, 1], 'array'), (2, 'float'), (2, '0d')):
            cases.append(dict(base, kind='fresnel', dims=[16, 24], delta=[0.25, 0.25], lam=1 / 16, z=0.5, z2=0.25, q=q, s=s_, qspell=qs, sspell=ss))
    for c in cases:
        if c['zero'] is None:
            c['zero'] = [-c['delta'][0] * (c['dims'][0] - 1) / 2, -c['delta'][1] * (c['dims'][1] - 1) / 2]
    return cases


# ---------------------------------------------------------------------------------------------
# the real objects

USER_ARRAYS = []     # (array handed to hcipy, pristine copy)


def build_grid(case):
    """Regular grid; with case['alias'] delta and zero are one and the same ndarray object."""
    import hcipy
    d = np.array(case['delta'], dtype=float)
    z = d if (case.get('alias') and list(case['zero']) == list(case['delta'])) else np.array(case['zero'], dtype=float)
    del USER_ARRAYS[:]
    USER_ARRAYS.extend([(d, d.copy()), (z, z.copy())])
    return hcipy.CartesianGrid(hcipy.RegularCoords(d, np.array(case['dims']), z))


def grid_unchanged(grid, snap):
    bad = []
    if not np.array_equal(np.array(grid.points, dtype=float), snap[0]) or not np.array_equal(np.array(grid.weights, dtype=float) * np.ones(grid.size), snap[1]):
        bad.append(('input-grid-modified', 'the grid the user supplied was changed by propagating'))
    if any(not np.array_equal(a, b) for a, b in USER_ARRAYS):
        bad.append(('input-array-modified', 'an ndarray the user built the grid from was changed by propagating'))
    return bad


def grid_snapshot(grid):
    return (np.array(grid.points, dtype=float).copy(), np.array(grid.weights, dtype=float) * np.ones(grid.size))


def build_prop(case, grid, z):
    import hcipy
    if case['kind'] == 'fresnel':
        return hcipy.FresnelPropagator(grid, z, num_oversampling=spell(case['s'], case.get('sspell'), integer=True),
                                       zero_padding=spell(case['q'], case.get('qspell')), refractive_index=case['n'])
    return hcipy.AngularSpectrumPropagator(grid, z, num_oversampling=spell(case['s'], case.get('sspell'), integer=True), refractive_index=case['n'])


def make_field(case, grid, salt):
    import hcipy
    rng = np.random.default_rng([case['fseed'], salt])
    ts = {'scalar': (), 'scalar-stokes': (), 'jones': (2,), 'matrix': (2, 2)}[case['wf']]
    re = rng.integers(-8, 9, size=ts + (grid.size,)) / 4.0
    im = rng.integers(-8, 9, size=ts + (grid.size,)) / 4.0
    f = re + 1j * im
    if salt == 0 and grid.size > 1:
        # put energy at the highest frequencies too (checkerboard component)
        ix = np.arange(grid.size) % int(grid.dims[0])
        iy = np.arange(grid.size) // int(grid.dims[0])
        f = f + 2.0 * (-1.0) ** (ix + iy)
    return hcipy.Field(f, grid)


def make_wavefront(case, field):
    import hcipy
    if case['stokes'] is not None:
        return hcipy.Wavefront(field, case['lam'], input_stokes_vector=np.array(case['stokes']))
    return hcipy.Wavefront(field, case['lam'])


def wf_field(case, field):
    """The electric field array a Wavefront built from `field` carries (scalar+Stokes is expanded to 2x2)."""
    return np.asarray(make_wavefront(case, field).electric_field)


def inner(a, b, w):
    return complex(np.sum(np.conj(a) * b) * w)


# ---------------------------------------------------------------------------------------------
# the property itself

def oracle_case(case, observe=None):
    bad = []
    grid = build_grid(case)
    gsnap = grid_snapshot(grid)
    reg = exact_regime(case)
    w = float(np.asarray(grid.weights).ravel()[0])
    kind = case['kind']
    z = case['z']
    tag = '%s/%s' % (kind, 'ir' if reg['ir'] else 'tf')
    near_boundary = abs(reg['slack']) <= Fraction(1, 10 ** 7) * max(Fraction(case['delta'][0]), Fraction(case['delta'][1]))
    x = make_field(case, grid, 0)
    y = make_field(case, grid, 1)
    prop = build_prop(case, grid, z)
    try:
        fx = prop.forward(make_wavefront(case, x.copy()))
        fy = prop.forward(make_wavefront(case, y.copy()))
        by = prop.backward(make_wavefront(case, y.copy()))
    except Exception as e:
        if case.get('qspell') in ('list', 'tuple') and isinstance(case['q'], list):
            bad.append(('zero_padding-sequence raises %s' % type(e).__name__,
                        'zero_padding given as a %s raised %s: %s' % (case['qspell'], type(e).__name__, e)))
        else:
            bad.append(('raises %s %s' % (type(e).__name__, tag), 'propagation raised %s: %s' % (type(e).__name__, e)))
        return bad
    ex, ey = wf_field(case, x), wf_field(case, y)
    efx, efy, eby = np.asarray(fx.electric_field), np.asarray(fy.electric_field), np.asarray(by.electric_field)
    scale = max(1.0, float(np.abs(efx).max()), float(np.abs(efy).max()))
    # linearity
    a, b = 0.5 - 1.25j, -2.0 + 0.75j
    comb = prop.forward(make_wavefront(case, (a * x + b * y)))
    # (a Stokes-carrying scalar field is expanded by Wavefront, which is itself linear)
    lin = float(np.abs(np.asarray(comb.electric_field) - (a * efx + b * efy)).max())
    if not lin <= TOL * 4 * scale:
        bad.append(('linear ' + tag, 'forward(a x + b y) differs from a forward(x) + b forward(y) by %.3g' % lin))
    # adjointness with the grid weights
    lhs, rhs = inner(ey, efx, w), inner(eby, ex, w)
    if not abs(lhs - rhs) <= TOL * max(1.0, abs(lhs), abs(rhs)):
        bad.append(('adjoint ' + tag, '<y, forward x> = %r but <backward y, x> = %r' % (lhs, rhs)))
    obs = {'grid': grid, 'prop': prop, 'reg': reg, 'near_boundary': near_boundary, 'ex': ex, 'efx': efx, 'ey': ey, 'eby': eby}
    if case['stokes'] is not None and ex.ndim == 3:
        # Stokes-I images of the input and of the propagated wavefront (for the `stokesI` correspondence)
        obs['stokes_I'] = [(ex, np.asarray(make_wavefront(case, x.copy()).I, dtype=float)), (efx, np.asarray(fx.I, dtype=float))]
    if reg['stated'] and not near_boundary:
        evan = kind == 'angular' and reg['minrad'] < 0
        pre = 'angular-evanescent-corner ' if evan else ''
        wfx = make_wavefront(case, x.copy())
        p_in, p_out = float(wfx.total_power), float(fx.total_power)
        sv = [Fraction(v) for v in case['stokes']] if case['stokes'] is not None else [1, 0, 0, 0]
        physical = sv[0] >= 0 and sv[1] ** 2 + sv[2] ** 2 + sv[3] ** 2 <= sv[0] ** 2
        if physical and not p_out <= p_in * (1 + TOL) + TOL:
            bad.append((pre + 'power-increase ' + tag, 'total power %r -> %r in the adequately sampled regime (z=%r)' % (p_in, p_out, z)))
        pm = build_prop(case, grid, -z)
        fm = np.asarray(pm.forward(make_wavefront(case, x.copy())).electric_field)
        bx = np.asarray(prop.backward(make_wavefront(case, x.copy())).electric_field)
        d = float(np.abs(fm - bx).max())
        if not d <= TOL * max(1.0, float(np.abs(bx).max())):
            bad.append((pre + 'neg-z ' + tag, 'forward(-z) differs from backward(+z) by %.3g (z=%r)' % (d, z)))
        if unpadded(case):
            if not abs(p_out - p_in) <= TOL * max(1.0, abs(p_in)):
                bad.append(('unitary ' + tag, 'power %r -> %r with zero_padding=1, num_oversampling=1' % (p_in, p_out)))
            back = np.asarray(prop.backward(fx).electric_field)
            d = float(np.abs(back - ex).max())
            if not d <= TOL * max(1.0, float(np.abs(ex).max())):
                bad.append(('inverse ' + tag, 'backward(forward(x)) differs from x by %.3g' % d))
            z2 = case['z2']
            c2 = dict(case, z=z + z2)
            if z * z2 >= 0 and not exact_regime(c2)['ir'] and not exact_regime(dict(case, z=z2))['ir']:
                p2 = build_prop(case, grid, z2)
                p12 = build_prop(case, grid, z + z2)
                two = np.asarray(p2.forward(fx).electric_field)
                one = np.asarray(p12.forward(make_wavefront(case, x.copy())).electric_field)
                d = float(np.abs(two - one).max())
                if not d <= TOL * max(1.0, float(np.abs(one).max())):
                    bad.append(('additive ' + tag, 'z1=%r then z2=%r differs from z1+z2 by %.3g' % (z, z2, d)))
                obs['additive'] = True
    bad += grid_unchanged(grid, gsnap)
    if observe is not None:
        observe.update(obs)
    return bad


# ---------------------------------------------------------------------------------------------
# correspondence with the Lean model

def _kv(resp):
    if not resp.startswith('ok'):
        raise MachineryError('model answered %r' % resp)
    return dict(t.split('=', 1) for t in resp.split()[1:])


def _close(a, b, tol=1e-11):
    return abs(a - b) <= tol * max(1.0, abs(a), abs(b))


def setup_line(case):
    return 'C04 setup %s %d %d %s %s %s %s %s %s %s' % (
        case['kind'], case['dims'][0], case['dims'][1], rat(case['delta'][0]), rat(case['delta'][1]), rat(case['lam']),
        rat(case['z']), rat(case['n']), _vtext(case['q']), _vtext(case['s'], integer=True))


def model_requests(case, obs, rng, head=None):
    M = obs['reg']['M']
    lines = list(head) if head is not None else [setup_line(case)]
    lines.append('C04 emb')
    # FFT-layout bins (qx, qy) of the array the filter multiplies with: DC, Nyquist corner, the bin next to it, ...
    pix = [(0, 0), (M[0] - 1, M[1] - 1), (M[0] // 2, M[1] // 2), (0, M[1] - 1), ((M[0] + 1) // 2, (M[1] + 1) // 2)]
    for _ in range(4):
        pix.append((int(rng.integers(0, M[0])), int(rng.integers(0, M[1]))))
    pix = sorted(set(pix))
    for qx, qy in pix:
        lines.append('C04 tfq %d %d' % (qx, qy))
    # Stokes-I of a Jones-matrix wavefront at a few pixels, input and output
    obs['stokes_req'] = []
    for E, img in obs.get('stokes_I', []):
        for k in sorted(set([0, E.shape[-1] - 1, int(rng.integers(0, E.shape[-1]))])):
            comps = [E[0, 0, k], E[0, 1, k], E[1, 0, k], E[1, 1, k]]
            vals = [v for c in comps for v in (float(c.real), float(c.imag))]
            lines.append('C04 stokesI [%s] [%s]' % (','.join(rat(float(v)) for v in case['stokes']), ','.join(rat(v) for v in vals)))
            obs['stokes_req'].append(float(img[k]))
    # impulse-response branch: the whole sampled impulse response (small internal grids only)
    # the whole propagation computed exactly by the model (small Fresnel cases on the transfer-function branch)
    obs['prop_req'] = []
    if prop_affordable(case, case.get('prop_budget', 12000)) and obs.get('ex') is not None and np.asarray(obs['ex']).ndim == 1:
        for back, e_in, e_out in ((0, obs['ex'], obs['efx']), (1, obs.get('ey'), obs.get('eby'))):
            if e_in is not None and all(float(v * 16).is_integer() for v in np.concatenate([np.asarray(e_in).real, np.asarray(e_in).imag])):
                lines.append('C04 prop %d %s %s' % (back, '[%s]' % ','.join(rat(float(v)) for v in np.asarray(e_in).real),
                                                   '[%s]' % ','.join(rat(float(v)) for v in np.asarray(e_in).imag)))
                obs['prop_req'].append((back, np.asarray(e_out)))
    obs['n_fixed'] = len(lines) - (len(head) if head is not None else 1)     # emb + tfq + stokesI + prop answers
    if obs['reg']['ir'] and case['z'] != 0 and M[0] * M[1] * sxy(case)[0] * sxy(case)[1] <= IR_BUDGET:
        for jy in range(M[1]):
            lines.append('C04 ir %d' % jy)
    # the transfer function of the Fresnel propagator *with the regime switch*, exactly (op `tfx`), at the sampled bins
    obs['tfx_req'] = []
    if case['kind'] == 'fresnel' and case['z'] != 0 and not obs['near_boundary']:
        per_bin = M[0] * M[1] * sxy(case)[0] * sxy(case)[1] if obs['reg']['ir'] else sxy(case)[0] * sxy(case)[1]
        if per_bin <= TFX_BUDGET:
            for qx, qy in (pix if per_bin <= 64 else pix[:3]):
                lines.append('C04 tfx %d %d' % (qx, qy))
                obs['tfx_req'].append((qx, qy))
    return lines, pix


def model_tf_value(case, kv):
    if case['kind'] == 'fresnel':
        ts = parse_rat_list(kv['turns'])
        return sum(complex(math.cos(2 * math.pi * float(t)), math.sin(2 * math.pi * float(t))) for t in ts) / len(ts)
    rs = parse_rat_list(kv['rad'])
    k2 = (Fraction(case['n']) / Fraction(case['lam'])) ** 2
    if any(abs(r) < k2 / 10 ** 6 for r in rs):
        return None         # sqrt is ill-conditioned at the evanescent boundary: float k^2 - k_perp^2 decides
    z = float(case['z'])
    evz = float(parse_rat(kv['evz']))
    acc = 0
    for r in rs:
        if r >= 0:
            t = z * math.sqrt(float(r))
            t -= math.floor(t)
            acc += complex(math.cos(2 * math.pi * t), math.sin(2 * math.pi * t))
        else:
            acc += math.exp(-2 * math.pi * evz * math.sqrt(float(-r)))
    return acc / len(rs)


def model_ir_transfer_function(case, M, rows):
    """D on the centred internal grid from the model's exact impulse-response data (see Model/NearField.lean)."""
    s2 = sxy(case)[0] * sxy(case)[1]
    H = np.zeros((M[1], M[0]), dtype=complex)
    lam, z, n = float(case['lam']), float(case['z']), float(case['n'])
    for jy, resp in enumerate(rows):
        kv = _kv(resp)
        if case['kind'] == 'fresnel':
            amp = float(parse_rat(kv['amp']))
            t = np.array([float(v) for v in parse_rat_list(kv['turns'])])
            h = amp * np.exp(2j * np.pi * t)
        else:
            r2 = np.array([float(v) for v in parse_rat_list(kv['r2'])])
            r = np.sqrt(r2)
            k = 2 * np.pi * n / lam
            h = (z / r) / (2 * np.pi) * np.exp(1j * k * r) * (1 / r2 - 1j * k / r)
        H[jy, :] = h.reshape(M[0], s2).mean(axis=1)
    w = float(case['delta'][0]) * float(case['delta'][1])
    return np.fft.fftshift(np.fft.fft2(np.fft.ifftshift(H))) * w


def compare_model(ctx, case, obs, pix, answers):
    reg, grid, prop = obs['reg'], obs['grid'], obs['prop']
    kv = _kv(answers[0])
    ff = prop.get_instance_data(grid, None, case['lam']).fourier_filter
    ctx.traces_validated += 1
    real_M = [int(d) for d in ff.internal_grid.dims]
    model_M = [int(v) for v in parse_rat_list(kv['M'])]
    if real_M != model_M:
        # int(N * (round(qN)/N)) recomputed in floats one short: finding D4 (owned by C01)
        expl = all(a == b or int(np.float64(n) * (np.round(q * n) / n)) == a for a, b, n, q in zip(real_M, model_M, case['dims'], qxy(case)))
        if expl:
            ctx.count('skipped:float-truncated-padded-size(D4)')
            ctx.boundary_skipped += 1
        else:
            ctx.disagree('C04 padded size', {'case': case, 'impl': real_M, 'model': model_M})
        return
    if ff.cutout is None:
        cut = 'none'
    else:
        cut = ':'.join('%d:%d' % (int(s.start), int(s.stop)) for s in ff.cutout)
    if cut != kv['cut']:
        ctx.disagree('C04 cutout', {'case': case, 'impl': cut, 'model': kv['cut']})
    nd = [2 * math.pi * float(v) for v in parse_rat_list(kv['nudelta'])]
    nz = [2 * math.pi * float(v) for v in parse_rat_list(kv['nuzero'])]
    if not all(_close(a, float(b)) for a, b in zip(nd, ff.internal_grid.delta)) or not all(_close(a, float(b), 1e-10) for a, b in zip(nz, ff.internal_grid.zero)):
        ctx.disagree('C04 internal grid', {'case': case, 'impl': [list(map(float, ff.internal_grid.delta)), list(map(float, ff.internal_grid.zero))], 'model': [nd, nz]})
    # the model's decisions against the harness' own exact arithmetic
    if (kv['branch'] == 'ir') != reg['ir'] or parse_rat(kv['slack']) != reg['slack'] or (kv['regime'] == '1') != reg['stated'] \
            or parse_rat(kv['minrad']) != reg['minrad'] or (kv['noevan'] == '1') != (reg['minrad'] >= 0):
        ctx.disagree('C04 regime arithmetic', {'case': case, 'model': answers[0], 'harness': {k: str(v) for k, v in reg.items()}})
    # the transfer function the real filter multiplies with
    tf = ff._transfer_function
    if tf is None:
        raise MachineryError('FourierFilter has no cached transfer function after forward()')
    D = np.fft.fftshift(np.asarray(tf))          # centred layout (My, Mx)
    raw = np.asarray(tf)                         # FFT layout, as multiplied
    worst = 0.0
    kemb = _kv(answers[1])
    tf_answers = answers[2:2 + len(pix)]
    npr = len(obs.get('prop_req', []))
    st_answers = answers[2 + len(pix):1 + obs['n_fixed'] - npr]
    pr_answers = answers[1 + obs['n_fixed'] - npr:1 + obs['n_fixed']]
    ntfx = len(obs.get('tfx_req', []))
    ir_rows = answers[1 + obs['n_fixed']:len(answers) - ntfx]
    tfx_answers = answers[len(answers) - ntfx:] if ntfx else []
    # the exact propagation of the model (formal phase sums, evaluated here) against forward() / backward() of the real propagator
    for resp, (back, real) in zip(pr_answers, obs.get('prop_req', [])):
        if not resp.startswith('ok'):
            raise MachineryError('C04 prop: driver answered %r for %r' % (resp, case))
        got = np.array([sum((float(parse_rat(c)) * np.exp(2j * np.pi * float(parse_rat(t))) for c, t in (term.split(':') for term in pix_.split(',') if term)), 0j)
                        for pix_ in resp.split('out=', 1)[1].split(';')])
        ctx.traces_validated += 1
        ctx.count('fresnel-propagation-executed(prop):' + ('backward' if back else 'forward') + ('/impulse-response' if reg['ir'] else '/transfer-function'))
        ctx.count('fresnel-propagation-executed(prop) My*Mx<=%d' % (16 if model_M[0] * model_M[1] <= 16 else 36 if model_M[0] * model_M[1] <= 36 else 64 if model_M[0] * model_M[1] <= 64 else 256))
        if got.shape != real.shape or not np.abs(got - real).max() <= 1e-10 * max(1.0, float(np.abs(real).max())):
            ctx.disagree('C04 executed Fresnel propagation', {'case': case, 'direction': 'backward' if back else 'forward',
                                                              'max_dev': float(np.abs(got - real).max()) if got.shape == real.shape else None})
    for (qx, qy), resp in zip(pix, tf_answers):
        ctx.traces_validated += 1
        kq = _kv(resp)
        at = [int(v) for v in parse_rat_list(kq['at'])]
        if at != [(qx + model_M[0] // 2) % model_M[0], (qy + model_M[1] // 2) % model_M[1]]:
            ctx.disagree('C04 ifftshift index', {'case': case, 'bin': [qx, qy], 'model': at})
        want = model_tf_value(case, kq)
        if want is None:
            ctx.count('skipped:pixel-on-evanescent-boundary')
            continue
        worst = max(worst, abs(complex(raw[qy, qx]) - want) / max(1.0, abs(want)))
    # the exactly evaluated transfer function with the regime switch (`fresnelTFSwitched`) against the array the real filter multiplies with
    for (qx, qy), resp in zip(obs.get('tfx_req', []), tfx_answers):
        if not resp.startswith('ok'):
            raise MachineryError('C04 tfx: driver answered %r for %r' % (resp, case))
        got = sum((float(parse_rat(c)) * np.exp(2j * np.pi * float(parse_rat(t))) for c, t in (term.split(':') for term in resp.split('out=', 1)[1].split(',') if term)), 0j)
        ctx.traces_validated += 1
        ctx.count('switched-transfer-function-executed(tfx):' + ('impulse-response' if reg['ir'] else 'transfer-function'))
        if not abs(got - complex(raw[qy, qx])) <= 1e-9 * max(1.0, abs(got)):
            ctx.disagree('C04 executed switched transfer function', {'case': case, 'bin': [qx, qy], 'model': [got.real, got.imag],
                         'impl': [float(raw[qy, qx].real), float(raw[qy, qx].imag)], 'branch': 'ir' if reg['ir'] else 'tf'})
    # Stokes-I polynomial of the model against Wavefront.I
    for resp, real_I in zip(st_answers, obs.get('stokes_req', [])):
        ks = _kv(resp)
        ctx.traces_validated += 1
        sv = [Fraction(v) for v in case['stokes']]
        phys = sv[0] >= 0 and sv[1] ** 2 + sv[2] ** 2 + sv[3] ** 2 <= sv[0] ** 2
        if (ks['phys'] == '1') != phys:
            ctx.disagree('C04 Stokes vector physical', {'case': case, 'model': ks['phys'], 'harness': phys})
        ctx.count('stokesI-compared' + ('' if phys else '(unphysical Stokes vector)'))
        mi = float(parse_rat(ks['I']))
        if not abs(mi - real_I) <= TOL * max(1.0, abs(mi)):
            ctx.disagree('C04 Stokes I', {'case': case, 'impl': real_I, 'model': mi})
    matches = worst <= TOL
    if obs['near_boundary']:
        ctx.boundary_skipped += 1
        ctx.count('skipped:branch-decision-on-boundary')
    elif kv['branch'] == 'tf' and not matches:
        evan_neg = case['kind'] == 'angular' and reg['minrad'] < 0 and case['z'] < 0
        ctx.disagree('C04 transfer function', {'case': case, 'max_rel_dev': worst, 'model_branch': 'tf'},
                     key='angular-evanescent-corner transfer-function' if evan_neg else None)
    elif kv['branch'] == 'ir' and ir_rows:
        want = model_ir_transfer_function(case, model_M, ir_rows)
        dev = float(np.abs(D - want).max()) / max(1.0, float(np.abs(want).max()))
        ctx.traces_validated += 1
        ctx.count('ir-transfer-function-recomputed')
        if not dev <= TOL:
            ctx.disagree('C04 impulse-response transfer function', {'case': case, 'max_rel_dev': dev,
                         'sampled_tf_matches_instead': bool(matches)})
    elif kv['branch'] == 'ir' and matches and case['z'] != 0:
        # (a discrete chirp can be its own transform, e.g. lambda |z| = M delta^2: recorded, not decided, on large grids)
        ctx.count('ir-branch-coincides-with-sampled-tf(large grid, not recomputed)')
    ctx.count('branch:' + kv['branch'])
    # the cut-out embedding (`cutoutEmb` = embRows x embCols) against the slices the real filter writes to / reads from
    nx, ny = case['dims']
    rows = [int(v) for v in parse_rat_list(kemb['rows'])]
    cols = [int(v) for v in parse_rat_list(kemb['cols'])]
    idx = np.arange(model_M[0] * model_M[1]).reshape(model_M[1], model_M[0])
    real_emb = idx if ff.cutout is None else idx[ff.cutout]
    ctx.traces_validated += 1
    if kemb['padok'] != '1' or len(rows) != ny or len(cols) != nx or real_emb.shape != (ny, nx) \
            or not np.array_equal(real_emb, idx[np.ix_(rows, cols)]):
        ctx.disagree('C04 cut-out embedding', {'case': case, 'model_rows': rows, 'model_cols': cols, 'impl_cutout': cut})
        return
    ctx.count('embedding:' + ('identity' if ff.cutout is None else 'padded'))
    # end to end: pad -> fftn -> multiply -> ifftn -> crop, recomputed with the model's sizes and embedding,
    # forward (D) and backward (conj D)
    sel = np.ix_(rows, cols)

    def pipeline(e_in, d):
        ts = e_in.shape[:-1]
        arr = e_in.reshape(ts + (ny, nx))
        padded = np.zeros(ts + (model_M[1], model_M[0]), dtype=complex)
        padded[(Ellipsis,) + sel] = arr
        out = np.fft.ifft2(np.fft.fft2(padded, axes=(-2, -1)) * d, axes=(-2, -1))
        return out[(Ellipsis,) + sel].reshape(ts + (nx * ny,))

    for name, e_in, e_out, d in (('forward', obs['ex'], obs['efx'], raw), ('backward', obs.get('ey'), obs.get('eby'), np.conj(raw))):
        if e_in is None:
            continue
        out = pipeline(e_in, d)
        ctx.traces_validated += 1
        ctx.count('pipeline-recomputed:' + name)
        dev = float(np.abs(out - e_out).max())
        if not dev <= TOL * max(1.0, float(np.abs(out).max())):
            ctx.disagree('C04 filter pipeline', {'case': case, 'direction': name, 'max_dev': dev,
                         'detail': '%s() differs from crop(ifftn(%s * fftn(pad(x)))) with the model embedding' % (name, 'D' if name == 'forward' else 'conj D')})


# ---------------------------------------------------------------------------------------------
# one propagator object used repeatedly: forward / backward in alternating precisions, several wavelengths,
# distance / refractive_index / num_oversampling / zero_padding re-assigned between calls (also across the
# sampling limit).  Every result must equal that of a fresh propagator built with the current parameters, and the
# regime clauses must hold on the reused object.

TOL64 = 2e-4
SETTERS = {'distance': 'z', 'refractive_index': 'n', 'num_oversampling': 's', 'zero_padding': 'q', 'wavelength': 'lam'}


def gen_session(rng, big=False):
    case = gen_case(rng, big)
    if case['kind'] == 'fresnel' and rng.random() < 0.4:
        case['q'], case['s'] = 1.0, 1
        case['qspell'] = case['sspell'] = None
    nx, ny = case['dims']
    dx, dy = case['delta']
    ops = []
    cur = dict(case)
    style = ['precision', 'setters', 'roundtrip', 'mixed'][int(rng.integers(0, 4))]
    n = int(rng.integers(3, 8))
    for i in range(n):
        if style in ('setters', 'mixed') and rng.random() < 0.55:
            names = ['distance', 'distance', 'refractive_index', 'num_oversampling', 'wavelength'] + (['zero_padding'] if case['kind'] == 'fresnel' else [])
            name = names[int(rng.integers(0, len(names)))]
            if name == 'distance':
                zmax = min(dx, dy) * max(nx * dx, ny * dy) / cur['lam']
                r = rng.random()
                v = zmax * int(rng.integers(1, 65)) / 64.0 if r < 0.55 else (zmax * (1 + int(rng.integers(1, 17)) / 8.0) if r < 0.9 else 0.0)
                v = -v if rng.random() < 0.5 else v
            elif name == 'refractive_index':
                v = [1.0, 1.25, 1.5, 2.0, 0.75, 0.5][int(rng.integers(0, 6))]
            elif name == 'num_oversampling':
                v = int(rng.integers(1, 4)) if rng.random() < 0.7 else [[1, 2], [2, 1], [3, 2]][int(rng.integers(0, 3))]
            elif name == 'zero_padding':
                g = math.gcd(nx, ny)
                v = [1.0, 2.0, 1.0 + 1.0 / g, 3.0, [1.0, 2.0], [2.0, 1.0], [1.0, 1.0 + 1.0 / ny]][int(rng.integers(0, 7))]
            else:
                v = [1 / 16, 1 / 8, 1 / 4, 1 / 2, 1.0][int(rng.integers(0, 5))]
            sp = ['array', 'list', 'tuple'][int(rng.integers(0, 3))] if isinstance(v, list) else ['float', 'np', '0d', 'int'][int(rng.integers(0, 4))]
            ops.append({'op': 'set', 'name': name, 'value': v, 'spell': sp})
            cur[SETTERS[name]] = v
        dt = 'c64' if style in ('precision', 'mixed') and rng.random() < 0.5 else 'c128'
        kind = 'fwd' if rng.random() < 0.65 else 'bwd'
        if style == 'roundtrip':
            kind = ['fwd', 'bwd'][i % 2]
        ops.append({'op': kind, 'dtype': dt, 'salt': i, 'chain': bool(rng.random() < 0.3)})
    ops.append({'op': 'fwd', 'dtype': 'c128', 'salt': 0})
    return {'case': case, 'ops': ops, 'style': style}


def directed_sessions():
    out = []
    for kind in ('fresnel', 'angular'):
        base = {'kind': kind, 'dims': [8, 6], 'delta': [0.25, 0.25], 'zero': [-0.875, -0.625], 'lam': 1 / 16, 'z': 0.5, 'z2': 0.25, 'n': 1.0,
                'q': 1.0 if kind == 'fresnel' else 2.0, 's': 1, 'wf': 'scalar', 'stokes': None, 'fseed': 5}
        out.append({'case': base, 'style': 'precision', 'ops': [
            {'op': 'fwd', 'dtype': 'c64', 'salt': 0}, {'op': 'fwd', 'dtype': 'c128', 'salt': 1}, {'op': 'bwd', 'dtype': 'c128', 'salt': 2},
            {'op': 'bwd', 'dtype': 'c64', 'salt': 3}, {'op': 'fwd', 'dtype': 'c128', 'salt': 0}]})
        out.append({'case': base, 'style': 'setters', 'ops': [
            {'op': 'fwd', 'dtype': 'c128', 'salt': 0}, {'op': 'set', 'name': 'distance', 'value': 40.0}, {'op': 'fwd', 'dtype': 'c128', 'salt': 1},
            {'op': 'set', 'name': 'distance', 'value': -1.0}, {'op': 'bwd', 'dtype': 'c128', 'salt': 2},
            {'op': 'set', 'name': 'refractive_index', 'value': 1.5}, {'op': 'fwd', 'dtype': 'c128', 'salt': 3},
            {'op': 'set', 'name': 'num_oversampling', 'value': 3}, {'op': 'fwd', 'dtype': 'c128', 'salt': 4},
            {'op': 'set', 'name': 'wavelength', 'value': 1 / 8}, {'op': 'fwd', 'dtype': 'c128', 'salt': 5},
            {'op': 'set', 'name': 'wavelength', 'value': 1 / 16}, {'op': 'fwd', 'dtype': 'c128', 'salt': 0}]})
    return out


def _typed_field(case, grid, salt, dtype):
    import hcipy
    f = make_field(case, grid, salt)
    return hcipy.Field(np.asarray(f).astype(dtype), grid)


def oracle_session(sess, observe=None):
    import hcipy
    bad = []
    case = sess['case']
    cur = dict(case)
    grid = build_grid(case)
    gsnap = grid_snapshot(grid)
    prop = build_prop(case, grid, case['z'])
    prev = 'fresh'
    last_fwd = None
    kept = []
    for op in sess['ops']:
        if op['op'] == 'set':
            name, v = op['name'], op['value']
            cur[SETTERS[name]] = v
            if name == 'zero_padding':
                cur['qspell'] = op.get('spell')
            if name == 'num_oversampling':
                cur['sspell'] = op.get('spell')
            if name != 'wavelength':
                try:
                    setattr(prop, name, spell(v, op.get('spell'), integer=(name == 'num_oversampling')) if name in ('zero_padding', 'num_oversampling') else v)
                except Exception as e:
                    bad.append(('reuse raises %s setter' % type(e).__name__, 'setting %s raised %s: %s' % (name, type(e).__name__, e)))
            prev += '>set-' + name
            continue
        dtype = np.complex64 if op['dtype'] == 'c64' else np.complex128
        tol = TOL64 if op['dtype'] == 'c64' else TOL
        x = _typed_field(cur, grid, op['salt'], dtype)
        fresh = build_prop(cur, grid, cur['z'])
        method = 'forward' if op['op'] == 'fwd' else 'backward'
        tag = '%s/%s' % (cur['kind'], 'ir' if exact_regime(cur)['ir'] else 'tf')
        try:
            got = getattr(prop, method)(make_wavefront(cur, x.copy()))
            want = getattr(fresh, method)(make_wavefront(cur, x.copy()))
        except Exception as e:
            if cur.get('qspell') in ('list', 'tuple') and isinstance(cur['q'], list):
                bad.append(('zero_padding-sequence raises %s' % type(e).__name__, 'zero_padding given as a %s raised %s: %s' % (cur['qspell'], type(e).__name__, e)))
            else:
                bad.append(('reuse raises %s %s' % (type(e).__name__, tag), '%s raised %s: %s (history %s)' % (method, type(e).__name__, e, prev)))
            prev += '>' + op['op']
            last_fwd = None
            continue
        g, w = np.asarray(got.electric_field), np.asarray(want.electric_field)
        # results are values: everything returned earlier is still what it was, and nothing returned shares memory
        # with an earlier result, with the input, or with the element's internal arrays
        bad += results_still_valid(kept, 'after %s (history %s)' % (method, prev), tag)
        bad += result_is_independent(prop, grid, cur, got, x, kept, tag, prev)
        kept.append((got, g.copy(), '%s #%d' % (method, len(kept))))
        dev = float(np.abs(g - w).max())
        scale = max(1.0, float(np.abs(w).max()))
        had64 = '(c64)' in prev
        if not dev <= tol * scale:
            last = prev.split('>')[-1]
            key = 'reuse-%s after-%s%s %s' % (method, last, '+earlier-c64' if had64 and op['dtype'] == 'c128' else '', tag)
            bad.append((key, '%s on a reused propagator (history %s) differs from a fresh propagator with the current parameters by %.3g (scale %.3g, %s)'
                        % (method, prev, dev, scale, op['dtype'])))
        reg = exact_regime(cur)
        near = abs(reg['slack']) <= Fraction(1, 10 ** 7) * max(Fraction(cur['delta'][0]), Fraction(cur['delta'][1]))
        if op['dtype'] == 'c128' and op['op'] == 'fwd' and reg['stated'] and not near and unpadded(cur):
            # the third clause on the reused object itself
            ex = wf_field(cur, x)
            back = np.asarray(prop.backward(got).electric_field)
            d = float(np.abs(back - ex).max())
            if not d <= TOL * max(1.0, float(np.abs(ex).max())):
                bad.append(('reuse-inverse%s %s' % ('+earlier-c64' if had64 else '', tag),
                            'backward(forward(x)) on a reused propagator (history %s) differs from x by %.3g' % (prev, d)))
            p_in, p_out = float(make_wavefront(cur, x.copy()).total_power), float(got.total_power)
            if not abs(p_out - p_in) <= TOL * max(1.0, p_in):
                bad.append(('reuse-unitary%s %s' % ('+earlier-c64' if had64 else '', tag), 'power %r -> %r on a reused propagator (history %s)' % (p_in, p_out, prev)))
        if op.get('chain'):
            # feed the result straight back into the same object
            try:
                got2 = getattr(prop, method)(got)
                want2 = getattr(build_prop(cur, grid, cur['z']), method)(want)
                g2, w2 = np.asarray(got2.electric_field), np.asarray(want2.electric_field)
                d2 = float(np.abs(g2 - w2).max())
                if not d2 <= tol * max(1.0, float(np.abs(w2).max())):
                    bad.append(('reuse-chained-%s %s' % (method, tag), '%s(%s(x)) on one propagator differs from fresh propagators by %.3g (history %s)' % (method, method, d2, prev)))
                bad += results_still_valid(kept, 'after chained %s (history %s)' % (method, prev), tag)
                bad += result_is_independent(prop, grid, cur, got2, x, kept, tag, prev)
                kept.append((got2, g2.copy(), 'chained %s #%d' % (method, len(kept))))
            except Exception as e:
                bad.append(('reuse raises %s %s' % (type(e).__name__, tag), 'chained %s raised %s: %s' % (method, type(e).__name__, e)))
        if op['op'] == 'fwd' and op['dtype'] == 'c128':
            last_fwd = (wf_field(cur, x), g.copy())
        prev += '>' + op['op'] + ('(c64)' if op['dtype'] == 'c64' else '')
    bad += grid_unchanged(grid, gsnap)
    if observe is not None and last_fwd is not None:
        reg = exact_regime(cur)
        near = abs(reg['slack']) <= Fraction(1, 10 ** 7) * max(Fraction(cur['delta'][0]), Fraction(cur['delta'][1]))
        observe.update({'grid': grid, 'prop': prop, 'reg': reg, 'near_boundary': near, 'ex': last_fwd[0], 'efx': last_fwd[1], 'cur': cur})
        try:
            yb = _typed_field(cur, grid, 1, np.complex128)
            observe.update({'ey': wf_field(cur, yb), 'eby': np.asarray(prop.backward(make_wavefront(cur, yb.copy())).electric_field)})
        except Exception:
            pass
    return bad


def results_still_valid(kept, when, tag):
    bad = []
    for wfres, snapshot, label in kept:
        now = np.asarray(wfres.electric_field)
        if now.shape != snapshot.shape or not np.array_equal(now, snapshot):
            bad.append(('result-overwritten ' + tag, 'the wavefront returned by %s changed %s' % (label, when)))
            break
    return bad


def result_is_independent(prop, grid, cur, got, x, kept, tag, prev):
    bad = []
    g = np.asarray(got.electric_field)
    if any(np.shares_memory(g, np.asarray(k[0].electric_field)) for k in kept):
        bad.append(('result-aliases-earlier-result ' + tag, 'a returned field shares memory with a field returned earlier (history %s)' % prev))
    if np.shares_memory(g, np.asarray(x)):
        bad.append(('result-aliases-input ' + tag, 'the returned field shares memory with the input field'))
    try:
        ff = prop.get_instance_data(grid, None, cur['lam']).fourier_filter
        internals = [v for v in vars(ff).values() if isinstance(v, np.ndarray)]
    except Exception:
        internals = []
    if any(np.shares_memory(g, v) for v in internals):
        bad.append(('result-aliases-internal-array ' + tag, 'the returned field is a view of an internal array of the propagator (history %s)' % prev))
    return bad


def session_head(sess):
    lines = [setup_line(sess['case'])]
    for op in sess['ops']:
        if op['op'] == 'set':
            v = op['value']
            lines.append('C04 set %s %s' % (op['name'], _vtext(v, integer=(op['name'] == 'num_oversampling'))))
    lines.append('C04 info')
    return lines

# ---------------------------------------------------------------------------------------------
# FourierFilter with a matrix-valued (tensor) transfer function: forward = field_dot(D, .), backward = field_dot(D^H, .)

def gen_mcase(rng):
    nx, ny = DIMS[int(rng.integers(0, 15))]
    q = [1.0, 2.0, 1.5, [1.0, 2.0], [2.0, 1.0], 3.0][int(rng.integers(0, 6))]
    return {'dims': [nx, ny], 'delta': [0.25, [0.25, 0.5][int(rng.integers(0, 2))]], 'q': q, 'n': [2, 2, 2, 3][int(rng.integers(0, 4))],
            'field': ['vector', 'vector', 'matrix'][int(rng.integers(0, 3))], 'tfkind': ['generator', 'field'][int(rng.integers(0, 2))],
            'fseed': int(rng.integers(0, 2 ** 31))}


def directed_mcases():
    return [{'dims': [4, 6], 'delta': [0.25, 0.25], 'q': q, 'n': n, 'field': f, 'tfkind': t, 'fseed': 11}
            for q in (1.0, 2.0, [1.0, 2.0]) for n, f in ((2, 'vector'), (2, 'matrix'), (3, 'vector')) for t in ('generator', 'field')]


def _dyadic_complex(rng, shape, bits=2):
    return rng.integers(-8, 9, size=shape) / float(1 << bits) + 1j * rng.integers(-8, 9, size=shape) / float(1 << bits)


def _mq(mc):
    return np.array(mc['q'], dtype=float) if isinstance(mc['q'], list) else mc['q']


def build_mfilter(mc, transform=None):
    """(grid, FourierFilter, D) with D the (n, n, My*Mx) dyadic transfer-function samples on the internal grid."""
    import hcipy
    grid = hcipy.CartesianGrid(hcipy.RegularCoords(np.array(mc['delta'], dtype=float), np.array(mc['dims']),
                                                   np.array([-d * (k - 1) / 2 for d, k in zip(mc['delta'], mc['dims'])])))
    n = mc['n']
    holder = {}

    def tfgen(internal_grid):
        D = _dyadic_complex(np.random.default_rng([mc['fseed'], 7]), (n, n, internal_grid.size))
        holder['D'] = D
        return hcipy.Field(D if transform is None else transform(D), internal_grid)
    if mc['tfkind'] == 'generator':
        ff = hcipy.FourierFilter(grid, tfgen, _mq(mc))
    else:
        probe = hcipy.FourierFilter(grid, tfgen, _mq(mc))
        ff = hcipy.FourierFilter(grid, tfgen(probe.internal_grid), _mq(mc))
    return grid, ff, holder


def _mfield(mc, grid, salt):
    import hcipy
    n = mc['n']
    ts = (n,) if mc['field'] == 'vector' else (n, n)
    return hcipy.Field(_dyadic_complex(np.random.default_rng([mc['fseed'], salt]), ts + (grid.size,)), grid)


def oracle_mcase(mc, observe=None):
    """<y, forward x> = <backward y, x>, linearity, and backward = forward of a fresh filter built from D^H."""
    import hcipy
    bad = []
    grid, ff, holder = build_mfilter(mc)
    x, y = _mfield(mc, grid, 0), _mfield(mc, grid, 1)
    tag = 'matrix-tf/%s' % mc['field']
    try:
        fx, fy, by = ff.forward(x.copy()), ff.forward(y.copy()), ff.backward(y.copy())
        a, b = 0.5 - 1.25j, -2.0 + 0.75j
        comb = ff.forward(hcipy.Field(a * np.asarray(x) + b * np.asarray(y), grid))
        _, ffh, _ = build_mfilter(mc, transform=lambda D: np.conj(np.swapaxes(D, 0, 1)))
        hy = ffh.forward(y.copy())
    except Exception as e:
        return [('raises %s %s' % (type(e).__name__, tag), 'FourierFilter with a tensor transfer function raised %s: %s' % (type(e).__name__, e))]
    fx, fy, by, comb, hy = (np.asarray(v) for v in (fx, fy, by, comb, hy))
    scale = max(1.0, float(np.abs(fx).max()), float(np.abs(fy).max()))
    lin = float(np.abs(comb - (a * fx + b * fy)).max())
    if not lin <= TOL * 4 * scale:
        bad.append(('linear ' + tag, 'forward(a x + b y) differs from a forward(x) + b forward(y) by %.3g' % lin))
    lhs, rhs = inner(np.asarray(y), fx, 1.0), inner(by, np.asarray(x), 1.0)
    if not abs(lhs - rhs) <= TOL * max(1.0, abs(lhs), abs(rhs)):
        bad.append(('adjoint ' + tag, '<y, forward x> = %r but <backward y, x> = %r (matrix-valued transfer function)' % (lhs, rhs)))
    d = float(np.abs(by - hy).max())
    if not d <= TOL * max(1.0, float(np.abs(hy).max())):
        bad.append(('backward-is-conjugate-transpose ' + tag, 'backward(y) differs from forward(y) of a filter built from the conjugate transpose by %.3g' % d))
    if observe is not None:
        observe.update({'grid': grid, 'ff': ff, 'D': holder['D'], 'x': np.asarray(x), 'y': np.asarray(y), 'fx': fx, 'by': by})
    return bad


def mcase_requests(mc, obs, rng):
    import hcipy
    ff, D, n = obs['ff'], obs['D'], mc['n']
    lines = ['C04 setup fresnel %d %d %s %s 1/16 1/2 1 %s 1' % (mc['dims'][0], mc['dims'][1], rat(mc['delta'][0]), rat(mc['delta'][1]), _vtext(mc['q'])),
             'C04 emb']
    # field_dot(tf, v) and field_dot(field_conjugate_transpose(tf), v) of the real code at three samples
    ig = ff.internal_grid
    v = _dyadic_complex(np.random.default_rng([mc['fseed'], 9]), (n, ig.size))
    tf = hcipy.Field(D, ig)
    r0 = np.asarray(hcipy.field_dot(tf, hcipy.Field(v, ig)))
    r1 = np.asarray(hcipy.field_dot(hcipy.field_conjugate_transpose(tf), hcipy.Field(v, ig)))
    obs['mdot'] = []
    for k in sorted(set([0, ig.size - 1, int(rng.integers(0, ig.size))])):
        for adj, r in ((0, r0), (1, r1)):
            Dk = D[:, :, k].reshape(-1)
            lines.append('C04 mdot %d %d [%s] [%s] [%s] [%s]' % (n, adj, ','.join(rat(float(t.real)) for t in Dk), ','.join(rat(float(t.imag)) for t in Dk),
                                                                  ','.join(rat(float(t.real)) for t in v[:, k]), ','.join(rat(float(t.imag)) for t in v[:, k])))
            obs['mdot'].append(r[:, k])
    return lines


def compare_mcase(ctx, mc, obs, answers):
    ff, D, n = obs['ff'], obs['D'], mc['n']
    kv, kemb = _kv(answers[0]), _kv(answers[1])
    M = [int(v) for v in parse_rat_list(kv['M'])]
    ctx.traces_validated += 1
    if [int(d) for d in ff.internal_grid.dims] != M:
        ctx.disagree('C04 padded size', {'mcase': mc, 'impl': [int(d) for d in ff.internal_grid.dims], 'model': M})
        return
    for resp, real in zip(answers[2:], obs['mdot']):
        k = _kv(resp)
        got = np.array([float(a) + 1j * float(b) for a, b in zip(parse_rat_list(k['re']), parse_rat_list(k['im']))])
        ctx.traces_validated += 1
        ctx.count('matrix-tf mdot-compared')
        if got.shape != real.shape or not np.abs(got - real).max() <= TOL * max(1.0, float(np.abs(real).max())):
            ctx.disagree('C04 matrix transfer function product', {'mcase': mc, 'impl': [str(c) for c in real], 'model': [str(c) for c in got]})
    nx, ny = mc['dims']
    rows = [int(v) for v in parse_rat_list(kemb['rows'])]
    cols = [int(v) for v in parse_rat_list(kemb['cols'])]
    sel = np.ix_(rows, cols)
    Dsh = np.fft.ifftshift(D.reshape(n, n, M[1], M[0]), axes=(-2, -1))
    sub = 'ij...,j...->i...' if mc['field'] == 'vector' else 'ij...,jk...->ik...'

    def pipeline(e_in, d):
        ts = e_in.shape[:-1]
        padded = np.zeros(ts + (M[1], M[0]), dtype=complex)
        padded[(Ellipsis,) + sel] = e_in.reshape(ts + (ny, nx))
        out = np.fft.ifft2(np.einsum(sub, d, np.fft.fft2(padded, axes=(-2, -1))), axes=(-2, -1))
        return out[(Ellipsis,) + sel].reshape(ts + (nx * ny,))

    for name, e_in, e_out, d in (('forward', obs['x'], obs['fx'], Dsh), ('backward', obs['y'], obs['by'], np.conj(np.swapaxes(Dsh, 0, 1)))):
        out = pipeline(e_in, d)
        ctx.traces_validated += 1
        ctx.count('matrix-tf pipeline-recomputed:' + name)
        dev = float(np.abs(out - e_out).max())
        if not dev <= TOL * max(1.0, float(np.abs(out).max())):
            ctx.disagree('C04 matrix filter pipeline', {'mcase': mc, 'direction': name, 'max_dev': dev})


# the matrix-valued pipeline executed by the Lean model (driver op `filtmp`), small grids

def gen_pmcase(rng):
    n = [2, 2, 3][int(rng.integers(0, 3))]
    while True:
        (nx, qx), (ny, qy) = PAXES[int(rng.integers(0, len(PAXES)))], PAXES[int(rng.integers(0, len(PAXES)))]
        mxx, myy = int(np.round(qx * nx)), int(np.round(qy * ny))
        if n * n * mxx * myy <= 256 and n * n * nx * ny * (mxx * myy) ** 2 <= 12000:
            break
    return {'dims': [nx, ny], 'delta': [0.25, [0.25, 0.5][int(rng.integers(0, 2))]], 'q': qx if (qx == qy and rng.random() < 0.7) else [qx, qy], 'n': n,
            'field': ['vector', 'vector', 'matrix'][int(rng.integers(0, 3))], 'tfkind': ['generator', 'field'][int(rng.integers(0, 2))],
            'fseed': int(rng.integers(0, 2 ** 31)), 'exec': True}


def directed_pmcases():
    return [{'dims': d, 'delta': [0.25, 0.25], 'q': q, 'n': n, 'field': f, 'tfkind': 'field', 'fseed': 12, 'exec': True}
            for d, q, n, f in (([3, 2], 1.0, 2, 'vector'), ([2, 2], 1.5, 2, 'matrix'), ([1, 3], [3.0, 1.0], 3, 'vector'), ([2, 1], [1.5, 3.0], 2, 'vector'))]


def pmcase_requests(mc, obs):
    D, n = obs['D'], mc['n']
    lines = []
    obs['expect'] = []
    for back, e_in, e_out in ((0, obs['x'], obs['fx']), (1, obs['y'], obs['by'])):
        cols = [(e_in, e_out)] if mc['field'] == 'vector' else [(e_in[:, l, :], e_out[:, l, :]) for l in range(n)]
        for v_in, v_out in cols:
            lines.append('C04 filtmp %d %d %s %s %s %s' % (n, back, _glist(D.real.reshape(-1)), _glist(D.imag.reshape(-1)),
                                                        _glist(v_in.real.reshape(-1)), _glist(v_in.imag.reshape(-1))))
            obs['expect'].append((back, v_out.reshape(-1)))
    return lines


def compare_pmcase(ctx, mc, obs, answers):
    for resp, (back, real) in zip(answers, obs['expect']):
        if not resp.startswith('ok'):
            raise MachineryError('C04 filtmp: driver answered %r for %r' % (resp, mc))
        got = np.array([sum((float(parse_rat(c)) * np.exp(2j * np.pi * float(parse_rat(t))) for c, t in (term.split(':') for term in pix.split(',') if term)), 0j)
                        for pix in resp.split('out=', 1)[1].split(';')])
        ctx.traces_validated += 1
        ctx.count('pipeline-executed(filtmp):' + ('backward' if back else 'forward'))
        if got.shape != real.shape or not np.abs(got - real).max() <= 1e-12 * max(1.0, float(np.abs(real).max())):
            ctx.disagree('C04 executed matrix pipeline', {'mcase': mc, 'direction': 'backward' if back else 'forward',
                                                          'impl': [str(c) for c in real], 'model': [str(c) for c in got]})


def run_mcases(ctx):
    n = ctx.scale(160, 2500)
    npm = ctx.scale(40, 600)
    mcases = directed_mcases() + [gen_mcase(ctx.rng) for _ in range(n)] + directed_pmcases() + [gen_pmcase(ctx.rng) for _ in range(npm)]
    lines, kept = [], []
    for mc in mcases:
        obs = {}
        for key, what in oracle_mcase(mc, observe=obs):
            ctx.violation(key, what, {'mcase': mc})
        ctx.count('matrix-tf:%s n=%d %s' % (mc['field'], mc['n'], mc['tfkind']))
        ctx.count('matrix-tf padding:' + ('none' if mc['q'] == 1.0 else ('per-axis' if isinstance(mc['q'], list) else 'both axes')))
        ctx.case(None, nontrivial_key=('mcase', tuple(mc['dims']), _vkey(mc['q']), mc['n'], mc['field'], mc['tfkind']))
        if 'ff' not in obs:
            continue
        req = mcase_requests(mc, obs, ctx.rng)
        extra = pmcase_requests(mc, obs) if mc.get('exec') else []
        if mc.get('exec'):
            ctx.count('matrix-tf executed pipeline: n=%d %s' % (mc['n'], mc['field']))
        kept.append((mc, obs, len(lines), len(req), len(extra)))
        lines += req + extra
    answers = ctx.model(lines)
    for mc, obs, a, k, ke in kept:
        compare_mcase(ctx, mc, obs, answers[a:a + k])
        if ke:
            compare_pmcase(ctx, mc, obs, answers[a + k:a + k + ke])


# ---------------------------------------------------------------------------------------------
# the pipeline itself: FourierFilter with internal sizes in {1, 2, 4}, where the DFT kernels are powers of i and the
# Lean pipeline (`filterP`, `filterPBackward`: the very definitions of the `filterP_*` theorems and, through
# `filter_dft2_eq_filterP`, of every theorem about `filter (dftPair2 ..) (cutoutEmb ..)`) runs exactly on Gaussian rationals

AXES4 = [(1, 1.0), (1, 2.0), (1, 4.0), (2, 1.0), (2, 2.0), (3, 4 / 3), (3, 1.5), (3, 1.25), (4, 1.0), (2, 1.75), (1, 1.5)]


def gen_fcase(rng):
    (nx, qx), (ny, qy) = AXES4[int(rng.integers(0, len(AXES4)))], AXES4[int(rng.integers(0, len(AXES4)))]
    q = qx if (qx == qy and rng.random() < 0.7) else [qx, qy]
    return {'dims': [nx, ny], 'delta': [0.25, [0.25, 0.5][int(rng.integers(0, 2))]], 'q': q,
            'field': ['scalar', 'scalar', 'vector'][int(rng.integers(0, 3))], 'tfkind': ['generator', 'field'][int(rng.integers(0, 2))],
            'fseed': int(rng.integers(0, 2 ** 31))}


PAXES = [(1, 1.0), (1, 3.0), (2, 1.0), (2, 1.5), (2, 2.5), (3, 1.0), (3, 5 / 3), (3, 2.0), (3, 7 / 3), (4, 1.0), (4, 1.25), (4, 1.5), (4, 2.0),
         (5, 1.0), (5, 1.2), (5, 1.4), (6, 1.0), (6, 7 / 6), (7, 1.0), (2, 3.5), (3, 3.0), (1, 5.0), (8, 1.0), (9, 1.0)]


def gen_pcase(rng):
    """A FourierFilter of any small internal size (odd sizes, where fftshift != ifftshift, included) for the driver op `filtp`."""
    while True:
        (nx, qx), (ny, qy) = PAXES[int(rng.integers(0, len(PAXES)))], PAXES[int(rng.integers(0, len(PAXES)))]
        mxx, myy = int(np.round(qx * nx)), int(np.round(qy * ny))
        if mxx * myy <= 64 and nx * ny * (mxx * myy) ** 2 <= 12000:
            break
    fc = gen_fcase(rng)
    fc.update({'dims': [nx, ny], 'q': qx if (qx == qy and rng.random() < 0.7) else [qx, qy], 'op': 'filtp'})
    return fc


def directed_pcases():
    out = []
    for (nx, qx), (ny, qy) in (((3, 1.0), (3, 1.0)), ((3, 5 / 3), (2, 2.5)), ((5, 1.0), (3, 1.0)), ((2, 1.5), (3, 7 / 3)), ((3, 1.0), (5, 1.4)),
                               ((6, 1.0), (1, 3.0)), ((1, 5.0), (5, 1.0)), ((3, 2.0), (3, 2.0))):
        for t in ('generator', 'field'):
            out.append({'dims': [nx, ny], 'delta': [0.25, 0.25], 'q': qx if qx == qy else [qx, qy], 'field': 'scalar', 'tfkind': t, 'fseed': 6, 'op': 'filtp'})
    return out


def directed_fcases():
    out = []
    for (nx, qx), (ny, qy) in (((2, 2.0), (3, 4 / 3)), ((4, 1.0), (4, 1.0)), ((1, 4.0), (1, 4.0)), ((3, 1.5), (2, 2.0)), ((2, 1.0), (1, 2.0)),
                               ((1, 1.0), (1, 1.0)), ((4, 1.0), (1, 4.0)), ((3, 1.25), (3, 1.25)), ((2, 2.0), (2, 2.0))):
        for t in ('generator', 'field'):
            out.append({'dims': [nx, ny], 'delta': [0.25, 0.25], 'q': qx if qx == qy else [qx, qy], 'field': 'scalar', 'tfkind': t, 'fseed': 5})
    return out


def build_ffilter(fc):
    import hcipy
    grid = hcipy.CartesianGrid(hcipy.RegularCoords(np.array(fc['delta'], dtype=float), np.array(fc['dims']),
                                                   np.array([-d * (k - 1) / 2 for d, k in zip(fc['delta'], fc['dims'])])))
    holder = {}

    def tfgen(internal_grid):
        holder['D'] = _dyadic_complex(np.random.default_rng([fc['fseed'], 7]), (internal_grid.size,))
        return hcipy.Field(holder['D'].copy(), internal_grid)
    q = _mq(fc)
    if fc['tfkind'] == 'generator':
        ff = hcipy.FourierFilter(grid, tfgen, q)
    else:
        probe = hcipy.FourierFilter(grid, tfgen, q)
        ff = hcipy.FourierFilter(grid, tfgen(probe.internal_grid), q)
    return grid, ff, holder


def oracle_fcase(fc, observe=None):
    """<y, forward x> = <backward y, x> on the real FourierFilter with a scalar transfer function."""
    import hcipy
    grid, ff, holder = build_ffilter(fc)
    ts = () if fc['field'] == 'scalar' else (2,)
    x = hcipy.Field(_dyadic_complex(np.random.default_rng([fc['fseed'], 0]), ts + (grid.size,)), grid)
    y = hcipy.Field(_dyadic_complex(np.random.default_rng([fc['fseed'], 1]), ts + (grid.size,)), grid)
    tag = 'small-filter/%s' % fc['field']
    try:
        fx, by = np.asarray(ff.forward(x.copy())), np.asarray(ff.backward(y.copy()))
    except Exception as e:
        return [('raises %s %s' % (type(e).__name__, tag), 'FourierFilter raised %s: %s' % (type(e).__name__, e))]
    bad = []
    lhs, rhs = inner(np.asarray(y), fx, 1.0), inner(by, np.asarray(x), 1.0)
    if not abs(lhs - rhs) <= TOL * max(1.0, abs(lhs), abs(rhs)):
        bad.append(('adjoint ' + tag, '<y, forward x> = %r but <backward y, x> = %r' % (lhs, rhs)))
    if observe is not None:
        observe.update({'grid': grid, 'ff': ff, 'D': holder['D'], 'x': np.asarray(x), 'y': np.asarray(y), 'fx': fx, 'by': by})
    return bad


def _glist(a):
    return '[%s]' % ','.join(rat(float(t)) for t in a)


def fcase_requests(fc, obs):
    D = obs['D']
    lines = ['C04 setup fresnel %d %d %s %s 1/16 1/2 1 %s 1' % (fc['dims'][0], fc['dims'][1], rat(fc['delta'][0]), rat(fc['delta'][1]), _vtext(fc['q']))]
    obs['expect'] = []
    for back, e_in, e_out in ((0, obs['x'], obs['fx']), (1, obs['y'], obs['by'])):
        for comp_in, comp_out in zip(np.atleast_2d(e_in), np.atleast_2d(e_out)):
            lines.append('C04 %s %d %s %s %s %s' % (fc.get('op', 'filt'), back, _glist(D.real), _glist(D.imag), _glist(comp_in.real), _glist(comp_in.imag)))
            obs['expect'].append((back, comp_out))
    return lines


def compare_fcase(ctx, fc, obs, answers):
    ff = obs['ff']
    kv = _kv(answers[0])
    M = [int(v) for v in parse_rat_list(kv['M'])]
    ctx.traces_validated += 1
    if [int(d) for d in ff.internal_grid.dims] != M:
        ctx.disagree('C04 padded size', {'fcase': fc, 'impl': [int(d) for d in ff.internal_grid.dims], 'model': M})
        return
    for resp, (back, real) in zip(answers[1:], obs['expect']):
        if not resp.startswith('ok'):
            raise MachineryError('C04 filt: driver answered %r for %r' % (resp, fc))
        op = fc.get('op', 'filt')
        if op == 'filt':
            k = _kv(resp)
            got = np.array([float(a) + 1j * float(b) for a, b in zip(parse_rat_list(k['re']), parse_rat_list(k['im']))])
        else:
            # one formal phase sum per output pixel: terms c*exp(2 pi i t) written c:t
            got = np.array([sum((float(parse_rat(c)) * np.exp(2j * np.pi * float(parse_rat(t))) for c, t in (term.split(':') for term in pix.split(',') if term)), 0j)
                            for pix in resp.split('out=', 1)[1].split(';')])
        ctx.traces_validated += 1
        ctx.count('pipeline-executed(%s):' % op + ('backward' if back else 'forward'))
        if got.shape != real.shape or not np.abs(got - real).max() <= 1e-12 * max(1.0, float(np.abs(real).max())):
            ctx.disagree('C04 executed pipeline', {'fcase': fc, 'direction': 'backward' if back else 'forward',
                                                   'impl': [str(c) for c in real], 'model': [str(c) for c in got]})


def run_fcases(ctx):
    n = ctx.scale(240, 3000)
    npc = ctx.scale(60, 1000)
    fcases = directed_fcases() + [gen_fcase(ctx.rng) for _ in range(n)] + directed_pcases() + [gen_pcase(ctx.rng) for _ in range(npc)]
    lines, kept = [], []
    for fc in fcases:
        obs = {}
        for key, what in oracle_fcase(fc, observe=obs):
            ctx.violation(key, what, {'fcase': fc})
        m = exact_regime({'kind': 'fresnel', 'dims': fc['dims'], 'delta': fc['delta'], 'lam': 1 / 16, 'z': 0.5, 'n': 1, 'q': fc['q'], 's': 1})['M']
        ctx.count('small-filter M=%dx%d' % (m[0], m[1]) if fc.get('op', 'filt') == 'filt' else 'phase-sum filter: internal size %s' % ('odd on some axis' if (m[0] % 2 or m[1] % 2) else 'even'))
        ctx.count('small-filter padding:' + ('none' if m == fc['dims'] else ('one axis' if (m[0] == fc['dims'][0] or m[1] == fc['dims'][1]) else 'both axes')))
        ctx.count('small-filter:%s %s' % (fc['field'], fc['tfkind']))
        ctx.case(None, nontrivial_key=('fcase', fc.get('op', 'filt'), tuple(fc['dims']), _vkey(fc['q']), fc['field'], fc['tfkind']))
        if 'ff' not in obs:
            continue
        req = fcase_requests(fc, obs)
        kept.append((fc, obs, len(lines), len(req)))
        lines += req
    answers = ctx.model(lines)
    for fc, obs, a, k in kept:
        compare_fcase(ctx, fc, obs, answers[a:a + k])


# ---------------------------------------------------------------------------------------------

# ---------------------------------------------------------------------------------------------
# one FourierFilter object, a history of calls with different dtypes and tensor shapes: the bookkeeping of
# `_compute_functions` (cached transfer function per dtype, scratch array per dtype / tensor shape) against the model's
# state machine (`callStep`, driver op `dtypes`), and history-independence of the results (fresh-object oracle)

DSHAPES = [(), (), (2,), (2, 2), (3,)]


def _shape_code(ts):
    return 0 if len(ts) == 0 else (ts[0] if len(ts) == 1 else ts[0] * 10 + ts[1])


def gen_dsession(rng):
    nx, ny = [(4, 3), (3, 3), (2, 5), (4, 4), (5, 2)][int(rng.integers(0, 5))]
    q = [1.0, 2.0, 1.5, [1.0, 2.0], [2.0, 1.0]][int(rng.integers(0, 5))]
    calls = [{'dt': ['c64', 'c128'][int(rng.integers(0, 2))], 'ts': list(DSHAPES[int(rng.integers(0, len(DSHAPES)))]),
              'back': bool(rng.integers(0, 2)), 'salt': int(rng.integers(0, 1000))} for _ in range(int(rng.integers(3, 8)))]
    return {'dims': [nx, ny], 'delta': [0.25, 0.25], 'q': q, 'tfkind': ['generator', 'field'][int(rng.integers(0, 2))],
            'fseed': int(rng.integers(0, 2 ** 31)), 'calls': calls}


def directed_dsessions():
    mk = lambda q, t, seq: {'dims': [4, 3], 'delta': [0.25, 0.25], 'q': q, 'tfkind': t, 'fseed': 5,
                            'calls': [{'dt': d, 'ts': list(ts), 'back': b, 'salt': i} for i, (d, ts, b) in enumerate(seq)]}
    return [mk(2.0, 'generator', [('c64', (), False), ('c128', (), False), ('c128', (), True)]),
            mk(1.0, 'field', [('c64', (), False), ('c128', (), False), ('c64', (2,), True), ('c128', (2,), False)]),
            mk([1.0, 2.0], 'generator', [('c128', (2, 2), False), ('c128', (), False), ('c128', (2,), True), ('c64', (2,), False), ('c128', (3,), False)]),
            mk(1.5, 'field', [('c128', (2,), False), ('c128', (2,), True), ('c128', (3,), False), ('c64', (3,), False), ('c64', (), False), ('c128', (), True)])]


def _dsession_filter(ds):
    import hcipy
    grid = hcipy.make_pupil_grid(ds['dims'], [ds['dims'][0] * ds['delta'][0], ds['dims'][1] * ds['delta'][1]])
    rng = np.random.default_rng(ds['fseed'])
    store = {}

    def tfgen(g):
        if g.size not in store:
            r = np.random.default_rng(ds['fseed'] + 1)
            # a transfer function that is NOT exactly representable in single precision (so that a re-cast is visible)
            store[g.size] = (r.standard_normal(g.size) + 1j * r.standard_normal(g.size)) / 3
        return hcipy.Field(store[g.size].copy(), g)
    q = ds['q']
    if ds['tfkind'] == 'generator':
        return grid, (lambda: hcipy.FourierFilter(grid, tfgen, q if not isinstance(q, list) else np.array(q)))
    probe = hcipy.FourierFilter(grid, tfgen, q if not isinstance(q, list) else np.array(q))
    tff = tfgen(probe.internal_grid)
    return grid, (lambda: hcipy.FourierFilter(grid, tff, q if not isinstance(q, list) else np.array(q)))


def oracle_dsession(ds, observe=None):
    import hcipy
    bad = []
    try:
        grid, mk = _dsession_filter(ds)
        ff = mk()
    except Exception as e:
        return [('filter-session raises %s' % type(e).__name__, 'building the FourierFilter raised %s: %s' % (type(e).__name__, e))]
    hist = ''
    trace = []
    prev_tf, prev_arr = None, None
    for c in ds['calls']:
        dtype = np.complex64 if c['dt'] == 'c64' else np.complex128
        tol = TOL64 if c['dt'] == 'c64' else TOL
        r = np.random.default_rng([ds['fseed'], c['salt']])
        shape = tuple(c['ts']) + (grid.size,)
        x = hcipy.Field((r.integers(-8, 9, size=shape) / 4.0 + 1j * r.integers(-8, 9, size=shape) / 4.0).astype(dtype), grid)
        method = 'backward' if c['back'] else 'forward'
        tag = '%s %s%s' % (method, c['dt'], list(c['ts']))
        try:
            got = np.asarray(getattr(ff, method)(x.copy()))
            fresh = mk()
            want = np.asarray(getattr(fresh, method)(x.copy()))
        except Exception as e:
            bad.append(('filter-session raises %s' % type(e).__name__, '%s raised %s: %s (history %s)' % (tag, type(e).__name__, e, hist)))
            break
        if got.shape != want.shape or got.dtype != want.dtype or not np.abs(got - want).max() <= tol * max(1.0, float(np.abs(want).max())):
            bad.append(('filter-reuse dtype-history %s' % c['dt'], '%s on a reused FourierFilter (history %s) differs from a fresh filter: shape %s/%s dtype %s/%s dev %.3g'
                        % (tag, hist, got.shape, want.shape, got.dtype, want.dtype, float(np.abs(got - want).max()) if got.shape == want.shape else float('nan'))))
        # the transfer function in use is bit for bit the one a fresh object computes for this dtype (never a re-cast copy)
        try:
            a, b = ff._transfer_function, fresh._transfer_function
            if a.dtype != b.dtype or a.shape != b.shape or not np.array_equal(a, b):
                bad.append(('filter-transfer-function dtype-history %s' % c['dt'], 'after %s (history %s) the cached transfer function (dtype %s) is not the one a fresh filter computes (dtype %s): max dev %.3g'
                            % (tag, hist, a.dtype, b.dtype, float(np.abs(a - b).max()) if a.shape == b.shape else float('nan'))))
            arr = ff.internal_array
            trace.append({'tf_re': a is not prev_tf, 'arr_re': arr is not prev_arr, 'tf_dt': str(a.dtype), 'arr_dt': str(arr.dtype),
                          'arr_ts': list(arr.shape[:arr.ndim - grid.ndim])})
            prev_tf, prev_arr = a, arr
        except Exception as e:
            trace.append({'error': '%s: %s' % (type(e).__name__, e)})
        hist += '>' + tag
    if observe is not None:
        observe['trace'] = trace
    return bad


def run_dsessions(ctx):
    n = ctx.scale(60, 800)
    dss = directed_dsessions() + [gen_dsession(ctx.rng) for _ in range(n)]
    lines, kept = [], []
    for ds in dss:
        obs = {}
        for key, what in oracle_dsession(ds, observe=obs):
            ctx.violation(key, what, {'dsession': ds})
        dts = [c['dt'] for c in ds['calls']]
        ctx.count('filter-session: dtype changes=%d' % sum(1 for a, b in zip(dts, dts[1:]) if a != b))
        ctx.count('filter-session: tensor-shape changes=%d' % sum(1 for a, b in zip(ds['calls'], ds['calls'][1:]) if a['ts'] != b['ts']))
        ctx.count('filter-session: c64 before c128' if any(a == 'c64' and 'c128' in dts[i + 1:] for i, a in enumerate(dts)) else 'filter-session: other order')
        ctx.case(None, nontrivial_key=('dsession', tuple((c['dt'], tuple(c['ts'])) for c in ds['calls'])))
        lines.append('C04 dtypes [%s] [%s]' % (','.join('0' if c['dt'] == 'c64' else '1' for c in ds['calls']),
                                               ','.join(str(_shape_code(c['ts'])) for c in ds['calls'])))
        kept.append((ds, obs))
    answers = ctx.model(lines)
    for (ds, obs), ans in zip(kept, answers):
        ctx.traces_validated += 1
        want = []
        if ans.startswith('ok '):
            for part in ans[3:].split(';'):
                t, a, d, e, sc = part.split(' ')
                sc = int(sc)
                want.append({'tf_re': t == '1', 'arr_re': a == '1', 'tf_dt': 'complex64' if d == '0' else 'complex128',
                             'arr_dt': 'complex64' if e == '0' else 'complex128', 'arr_ts': [] if sc == 0 else ([sc] if sc < 10 else [sc // 10, sc % 10])})
        got = obs.get('trace', [])
        if got != want[:len(got)] or (len(got) != len(want) and not any('error' in g for g in got) and len(got) != len(want)):
            k = next((i for i, (g, w) in enumerate(zip(got, want)) if g != w), min(len(got), len(want)))
            ctx.disagree('C04 dtype bookkeeping', {'dsession': ds, 'call': k, 'impl': got[k] if k < len(got) else None, 'model': want[k] if k < len(want) else ans})

# ---------------------------------------------------------------------------------------------
# absorbing medium: complex refractive index n + i kappa, kappa > 0 (oracle only: the model's index is rational)

def gen_ccase(rng):
    case = gen_case(rng)
    nx, ny = case['dims']
    dx, dy = case['delta']
    zmax = min(dx, dy) * max(nx * dx, ny * dy) / case['lam']
    z = zmax * int(rng.integers(1, 65)) / 64.0 * (1 if rng.random() < 0.5 else -1)
    case.update({'z': z, 'z2': z / 4, 'wf': 'scalar', 'stokes': None, 'alias': False, 'n_im': [1 / 256, 1 / 64, 1 / 32, 1 / 8][int(rng.integers(0, 4))]})
    return case


def oracle_ccase(case):
    import hcipy
    bad = []
    grid = build_grid(case)
    w = float(np.asarray(grid.weights).ravel()[0])
    reg = exact_regime(case)
    kind, z = case['kind'], case['z']
    cn = complex(case['n'], case['n_im'])

    def mk(zz):
        if kind == 'fresnel':
            return hcipy.FresnelPropagator(grid, zz, num_oversampling=spell(case['s'], case.get('sspell'), integer=True),
                                           zero_padding=spell(case['q'], case.get('qspell')), refractive_index=cn)
        return hcipy.AngularSpectrumPropagator(grid, zz, num_oversampling=spell(case['s'], case.get('sspell'), integer=True), refractive_index=cn)
    x, y = make_field(case, grid, 0), make_field(case, grid, 1)
    try:
        prop = mk(z)
        wfx = hcipy.Wavefront(x.copy(), case['lam'])
        fx = prop.forward(wfx)
        fy = prop.forward(hcipy.Wavefront(y.copy(), case['lam']))
        by = prop.backward(hcipy.Wavefront(y.copy(), case['lam']))
        bx = prop.backward(hcipy.Wavefront(x.copy(), case['lam']))
        fm = mk(-z).forward(hcipy.Wavefront(x.copy(), case['lam']))
        a, b = 0.5 - 1.25j, -2.0 + 0.75j
        comb = prop.forward(hcipy.Wavefront(a * x + b * y, case['lam']))
    except Exception as e:
        return [('raises %s complex-index %s' % (type(e).__name__, kind), 'propagation in an absorbing medium raised %s: %s' % (type(e).__name__, e))]
    efx, efy = np.asarray(fx.electric_field), np.asarray(fy.electric_field)
    scale = max(1.0, float(np.abs(efx).max()), float(np.abs(efy).max()))
    lin = float(np.abs(np.asarray(comb.electric_field) - (a * efx + b * efy)).max())
    if not lin <= TOL * 4 * scale:
        bad.append(('linear complex-index ' + kind, 'forward(a x + b y) differs from a forward(x) + b forward(y) by %.3g (n=%r)' % (lin, cn)))
    lhs, rhs = inner(np.asarray(y), efx, w), inner(np.asarray(by.electric_field), np.asarray(x), w)
    if not abs(lhs - rhs) <= TOL * max(1.0, abs(lhs), abs(rhs)):
        bad.append(('adjoint complex-index ' + kind, '<y, forward x> = %r but <backward y, x> = %r (n=%r)' % (lhs, rhs, cn)))
    if reg['stated'] and z != 0 and abs(reg['slack']) > Fraction(1, 10 ** 7) * max(Fraction(case['delta'][0]), Fraction(case['delta'][1])):
        # passive medium (Im n > 0): the regime clauses
        pre = 'complex-index-fresnel-negative-z ' if kind == 'fresnel' else 'complex-index '
        p_in, p_out = float(wfx.total_power), float(fx.total_power)
        if not p_out <= p_in * (1 + TOL) + TOL:
            bad.append(((pre if z < 0 else 'complex-index ') + 'power-increase ' + kind,
                        'total power %r -> %r in an absorbing medium n=%r, adequately sampled (z=%r)' % (p_in, p_out, cn, z)))
        d = float(np.abs(np.asarray(fm.electric_field) - np.asarray(bx.electric_field)).max())
        if not d <= TOL * max(1.0, float(np.abs(np.asarray(bx.electric_field)).max())):
            bad.append((pre + 'neg-z ' + kind, 'forward(-z) differs from backward(+z) by %.3g in an absorbing medium n=%r (z=%r)' % (d, cn, z)))
    return bad


def run_ccases(ctx):
    for _ in range(ctx.scale(40, 500)):
        case = gen_ccase(ctx.rng)
        for key, what in oracle_ccase(case):
            ctx.violation(key, what, case)
        ctx.count('complex-index:%s z%s' % (case['kind'], '+' if case['z'] > 0 else '-'))
        ctx.case({k: case[k] for k in ('kind', 'dims', 'delta', 'lam', 'z', 'n', 'n_im', 'q', 's')},
                 nontrivial_key=('complex-index', case['kind'], tuple(case['dims']), case['z'] > 0, case['n'], case['n_im'], _vkey(case['q']), _vkey(case['s'])))


def run(ctx):
    ctx.rule = ('Fresh FresnelPropagator / AngularSpectrumPropagator per case on regular grids 2..16 per axis (thorough ..24; odd, even, '
                'non-square, off-centre), pixel/lambda in {1/4 .. 8}, unequal pixel sizes, refractive index {1, 1.25, 1.5, 2}, z of either '
                'sign inside / exactly on / beyond the sampling limit and 0, zero_padding {1, 2, 3, 1+j/gcd, random}, num_oversampling '
                '{1,2,3}, scalar / Jones-vector / Jones-matrix(+Stokes) wavefronts with dyadic samples plus a checkerboard component. '
                'Non-trivial = z != 0; distinct by (kind, dims, branch, stated regime, q, s, wavefront kind, sign z, n).')
    ctx.assumptions += ['fftn/ifftn are the unnormalised DFT and its inverse',
                        'float-truncated padded sizes are finding D4 (owned by C01): counted and skipped when met',
                        'a fresh propagator is built per case (instance-cache reuse is finding D3, owned by C05)']
    n = ctx.scale(1400, 20000)
    cases = directed() + [gen_case(ctx.rng, big=(ctx.tier == 'thorough' and k % 4 == 0)) for k in range(n)]
    cases += [gen_small_fresnel(ctx.rng) for _ in range(ctx.scale(40, 500))]
    cases += [gen_small_fresnel(ctx.rng, budget=b) for b in [36000] * ctx.scale(6, 20) + [300000] * ctx.scale(2, 4)]       # up to My*Mx = 64
    cases += [gen_small_fresnel(ctx.rng, budget=36000, ir=True) for _ in range(ctx.scale(12, 40))]
    cases += [gen_peraxis(ctx.rng) for _ in range(ctx.scale(60, 800))]
    all_lines, spans, kept = [], [], []
    with warnings.catch_warnings():
        warnings.simplefilter('ignore')
        for case in cases:
            obs = {}
            bad = oracle_case(case, observe=obs)
            for key, what in bad:
                ctx.violation(key, what, case)
            reg = exact_regime(case)
            ctx.count('kind:' + case['kind'])
            if case.get('alias'):
                ctx.count('aliased-delta-zero')
            ctx.count('regime:' + ('impulse-response' if reg['ir'] else ('stated' if reg['stated'] else 'tf-but-pixel<lambda/2')))
            ctx.count('wf:' + case['wf'])
            ctx.count('q=1,s=1' if unpadded(case) else 'padded-or-oversampled')
            ctx.count('zero_padding-spelling:%s%s' % (case.get('qspell') or 'float', '/per-axis' if isinstance(case['q'], list) else ''))
            ctx.count('num_oversampling-spelling:%s%s' % (case.get('sspell') or 'int', '/per-axis' if isinstance(case['s'], list) else ''))
            mm = exact_regime(case)['M']
            if mm[0] == case['dims'][0] and mm[1] != case['dims'][1]:
                ctx.count('padding:y-only(contiguous crop)')
            elif mm[0] != case['dims'][0] and mm[1] == case['dims'][1]:
                ctx.count('padding:x-only')
            ctx.count('z:' + ('0' if case['z'] == 0 else ('+' if case['z'] > 0 else '-')))
            if case['kind'] == 'angular' and reg['minrad'] < 0:
                ctx.count('angular:evanescent-sampled' + ('-in-stated-regime' if reg['stated'] else ''))
            if obs.get('additive'):
                ctx.count('additivity-checked')
            sig = (case['kind'], tuple(case['dims']), reg['ir'], reg['stated'], _vkey(case['q']), _vkey(case['s']), case['wf'], case['z'] > 0, case['n'])
            ctx.case({k: case[k] for k in ('kind', 'dims', 'delta', 'lam', 'z', 'n', 'q', 's', 'wf')} if case['z'] != 0 else None,
                     nontrivial_key=sig if case['z'] != 0 else None)
            ctx.count('refractive-index:' + ('n<1' if case['n'] < 1 else 'n=1' if case['n'] == 1 else 'n>1') +
                      ('/in-band(n*zmax,zmax]' if case['n'] < 1 and not reg['ir'] and exact_regime(dict(case, lam=case['lam'] / case['n']))['ir'] else ''))
            if 'prop' not in obs:
                continue
            if case.get('peraxis'):
                ctx.count('per-axis-oversampling non-square:%s s=%s%s' % (case['kind'], 'sx<sy' if case['s'][0] < case['s'][1] else 'sx>sy',
                                                                      '/per-axis-q' if isinstance(case['q'], list) else ''))
                for key, what in oracle_transpose(case, obs):
                    ctx.violation(key, what, case)
            lines, pix = model_requests(case, obs, ctx.rng)
            spans.append((len(all_lines), len(lines)))
            all_lines += lines
            kept.append((case, obs, pix))
        answers = ctx.model(all_lines)
        for (case, obs, pix), (a, k) in zip(kept, spans):
            compare_model(ctx, case, obs, pix, answers[a:a + k])
        # reuse of one object
        ns = ctx.scale(220, 3000)
        sessions = directed_sessions() + [gen_session(ctx.rng, big=(ctx.tier == 'thorough' and k % 4 == 0)) for k in range(ns)]
        s_lines, s_kept = [], []
        for sess in sessions:
            obs = {}
            bad = oracle_session(sess, observe=obs)
            for key, what in bad:
                ctx.violation(key, what, {'session': sess})
            kinds = [(o['op'] + ('64' if o.get('dtype') == 'c64' else '')) if o['op'] != 'set' else 'set-' + o['name'] for o in sess['ops']]
            ctx.count('session:' + sess['style'])
            for a, b in zip(kinds, kinds[1:]):
                ctx.count('session-transition:%s>%s' % (a, b))
            branches = set()
            cur = dict(sess['case'])
            for o in sess['ops']:
                if o['op'] == 'set':
                    cur[SETTERS[o['name']]] = o['value']
                else:
                    branches.add(exact_regime(cur)['ir'])
            if len(branches) == 2:
                ctx.count('session:crosses-sampling-limit')
            ctx.case(None, nontrivial_key=('session', sess['style'], tuple(kinds), sess['case']['kind'], tuple(sess['case']['dims'])))
            if 'prop' not in obs:
                continue
            head = session_head(sess)
            lines, pix = model_requests(obs['cur'], obs, ctx.rng, head=head)
            s_kept.append((obs['cur'], obs, pix, len(s_lines), len(lines), len(head)))
            s_lines += lines
        s_answers = ctx.model(s_lines)
        for cur, obs, pix, a, k, nh in s_kept:
            compare_model(ctx, cur, obs, pix, s_answers[a + nh - 1:a + k])
        run_mcases(ctx)
        run_fcases(ctx)
        run_dsessions(ctx)
        run_ccases(ctx)
    if ctx.boundary_skipped > 0.10 * max(1, ctx.evaluations):
        raise MachineryError('too many boundary-skipped cases (%d of %d)' % (ctx.boundary_skipped, ctx.evaluations))


def replay(ctx, case):
    with warnings.catch_warnings():
        warnings.simplefilter('ignore')
        bad = oracle_ccase(case) if 'n_im' in case else oracle_session(case['session']) if 'session' in case else oracle_dsession(case['dsession']) if 'dsession' in case else (oracle_mcase(case['mcase']) if 'mcase' in case else (oracle_fcase(case['fcase']) if 'fcase' in case else oracle_case(case)))
        if isinstance(case, dict) and case.get('peraxis') and 'n_im' not in case:
            obs = {}
            bad = oracle_case(case, observe=obs)
            if 'prop' in obs:
                bad = bad + oracle_transpose(case, obs)
    for key, what in bad:
        print('  fails:', key, '-', what)
    return not bad
