"""C17 — detectors: correspondence with the Lean detector model + direct oracle of the property.

A *case* is a detector (grid shape, pixel size, subsampling, kind) and a history of operations

    ('int', input-kind, data, dt, weight)   detector.integrate(...)
    ('read',)                               detector.read_out()
    ('call', input-kind, data, dt, weight)  detector(...)  (= integrate + read_out)
    ('scribble', k, value)                  the caller overwrites the k-th image it got back
    ('reuse', j, data)                      the caller overwrites the buffer it passed to the j-th integrate
    ('bad', variant, data, dt, weight)      detector.integrate(<power of the wrong size>): must raise and leave the state alone

The oracle keeps its own exact (Fraction) account of what every read-out must be: brute-force
index loops for the binning, sum over the integrations since the last read-out, independent of the
Lean model.  After every operation every image returned so far (and every input buffer) is
compared bit for bit with a snapshot taken when it was returned (aliasing on the real objects).
"""
import itertools
import zlib

import numpy as np

from harness.common import rat, rat_list, Fraction, parse_rat_list, dyadic, MachineryError

TOL = 1e-9

INPUT_KINDS = ['field', 'wavefront', 'plain', 'intfield', 'boolfield', 'list', 'foreignfield', 'f32field']
BAD_VARIANTS = ['plain', 'list', 'field', 'scalar']


# ---------------------------------------------------------------------------------------------
# generation

def gen_case(rng, big):
    r = rng.random()
    ndim = 1 if r < 0.15 else (3 if r > 0.92 else 2)
    hi = 6 if big else 4
    dims = [int(rng.integers(1, hi + 1)) for _ in range(ndim)]          # (x, y, ...) order
    if ndim == 3:
        dims = [int(rng.integers(1, 3)) for _ in range(3)]
    delta = [float(rng.choice([0.25, 0.5, 1.0, 2.0, 0.75])) for _ in range(ndim)]
    s = int(rng.choice([1, 1, 2, 2, 3, 4])) if ndim < 3 else int(rng.choice([1, 2]))
    kind = str(rng.choice(['noiseless', 'noiseless', 'noisy-off', 'noisy-det', 'noisy-set', 'noisy-set']))
    npix = int(np.prod(dims))
    nin = npix * s ** ndim
    case = {'dims': dims, 'delta': delta, 's': s, 'kind': kind}
    if rng.random() < 0.15 and min(dims) >= 2:      # (the weights of a separated grid need two points per axis)
        # a detector grid with separated, non-regular coordinates (subsampling 1: a supersampled input grid only exists
        # for regular grids); NoisyDetector then goes through the non-regular branch of subsample_field
        s = case['s'] = 1
        nin = npix
        case['axes'] = [np.cumsum([0.0] + [float(rng.choice([0.25, 0.5, 1.0, 1.5])) for _ in range(d - 1)]).tolist() for d in dims]
    if 'axes' not in case and rng.random() < 0.2:
        # one subsampling factor per axis (D181), in one of the spellings the docstring allows
        ss = [int(rng.integers(1, 4)) for _ in range(ndim)] if ndim < 3 else [int(rng.integers(1, 3)) for _ in range(3)]
        case['ss'] = ss
        case['spell'] = str(rng.choice(['array', 'array', 'list', 'float-array']))
        case['s'] = s = max(ss)
        nin = int(np.prod([d * f for d, f in zip(dims, ss)]))
    if kind == 'noisy-det':
        case['dark'] = dyadic(rng, 0, 4, 3)
        case['flat'] = [dyadic(rng, 0.5, 1.5, 4) for _ in range(npix)]
    style = str(rng.choice(['mixed', 'mixed', 'reads', 'long', 'calls']))
    nops = int(rng.integers(0, 9 if not big else 20))
    ops = []
    nints = 0
    nimgs = 0
    seen32 = False
    for _ in range(nops):
        u = rng.random()
        if style == 'reads':
            pr = 0.5
        elif style == 'long':
            pr = 0.1
        else:
            pr = 0.3
        if u < pr:
            ops.append(['read'])
            nimgs += 1
        elif u < pr + 0.06 and nimgs > 0:
            ops.append(['scribble', int(rng.integers(0, nimgs)), dyadic(rng, -8, 8, 2)])
        elif u < pr + 0.12 and nints > 0:
            ops.append(['reuse', int(rng.integers(0, nints)), [dyadic(rng, 0, 16, 3) for _ in range(nin)]])
        else:
            if rng.random() < 0.07:
                ops.append(gen_bad(rng, npix, nin))
                continue
            ik = str(rng.choice(INPUT_KINDS, p=[0.27, 0.24, 0.14, 0.1, 0.05, 0.1, 0.05, 0.05]))
            if ik == 'wavefront':
                data = [[dyadic(rng, -2, 2, 3) for _ in range(nin)], [dyadic(rng, -2, 2, 3) for _ in range(nin)]]
            elif ik == 'intfield':
                data = [int(rng.integers(0, 9)) for _ in range(nin)]
            elif ik == 'boolfield':
                data = [bool(rng.integers(0, 2)) for _ in range(nin)]
            else:
                data = [dyadic(rng, 0, 16, 4) for _ in range(nin)]
                if rng.random() < 0.15:
                    data = [0.0] * nin
            dt = float(rng.choice([dyadic(rng, 0, 4, 4), 1.0, float(rng.integers(1, 4)), 0.0], p=[0.55, 0.2, 0.2, 0.05]))
            w = float(rng.choice([1.0, dyadic(rng, -2, 2, 4), float(rng.integers(1, 3))], p=[0.4, 0.4, 0.2]))
            # integer dt / weight are passed as Python ints half of the time (the dtype of the
            # accumulator then depends on the first power array)
            asint = bool(rng.random() < 0.5)
            if ik == 'f32field':
                # a single-precision power array (exactly representable values, power-of-two dt and weight: the exposure is
                # exact in float32 too); what follows in the life of the detector must not inherit the precision
                data = [float(rng.integers(0, 64)) / 4 for _ in range(nin)]
                dt, w = float(rng.choice([0.5, 1.0, 2.0])), float(rng.choice([1.0, 0.5, 2.0]))
                seen32 = True
            elif ik in ('field', 'plain') and seen32:
                data = [x + float(rng.integers(1, 8)) * 2.0 ** -27 for x in data]     # needs more than single precision
            which = 'call' if (style == 'calls' and rng.random() < 0.6) or rng.random() < 0.08 else 'int'
            ops.append([which, ik, data, dt, w, asint])
            nints += 1
            if which == 'call':
                nimgs += 1
    if rng.random() < 0.7:
        ops.append(['read'])
    case['ops'] = ops
    case['style'] = style
    if kind == 'noisy-set':
        add_setters(rng, case, npix)
    return case


def gen_bad(rng, npix, nin):
    """an integration whose power has not the size of the input grid (wrong-size array, Field on a grid of another
    size, a bare scalar)"""
    sizes = sorted({n for n in (nin - 1, nin + 1, 2 * nin, npix, 1, nin + npix, 0) if n >= 0 and n != nin})
    variant = str(rng.choice(BAD_VARIANTS, p=[0.4, 0.15, 0.35, 0.1]))
    if variant == 'scalar' and nin == 1:
        variant = 'plain'
    n = 1 if variant == 'scalar' else int(rng.choice([k for k in sizes if k > 0 or variant != 'field']))
    data = [dyadic(rng, 0, 16, 3) for _ in range(n)]
    return ['bad', variant, data, dyadic(rng, 0.25, 4, 2), float(rng.choice([1.0, 0.5, 2.0]))]


FIELD_SPECS = ['field', 'field-equal', 'field-other']
PARAMS = ['flat_field', 'dark_current_rate', 'read_noise', 'include_photon_noise']


def gen_param(rng, param, npix, off):
    """a value for a public noise parameter of NoisyDetector, in one of its spellings"""
    sp = str(rng.choice(['scalar', 'scalar', 'array', 'field']))
    if sp == 'field':
        # a map given as a Field: on the detector grid object itself, on an equal grid that is another object (with other weights),
        # or on a different grid with the same number of points (C17-11: Field arithmetic takes the grid of its first operand)
        sp = str(rng.choice(FIELD_SPECS))
    if param == 'include_photon_noise':
        return ['bool', not off]
    if param == 'flat_field':
        if sp == 'scalar':
            return ['scalar', 0 if off else float(rng.choice([0.0625, 0.125]))]
        return [sp, [1.0] * npix if off else [dyadic(rng, 0.5, 1.5, 4) for _ in range(npix)]]
    if param == 'dark_current_rate':
        if sp == 'scalar':
            return ['scalar', (0 if rng.random() < 0.5 else 0.0) if off else dyadic(rng, 0.125, 4, 3)]
        return [sp, [0.0] * npix if off else [dyadic(rng, 0, 4, 3) for _ in range(npix)]]
    if sp == 'scalar':
        return ['scalar', 0 if off else dyadic(rng, 0.125, 2, 3)]
    return [sp, [0.0] * npix if off else [dyadic(rng, 0.125, 2, 3) for _ in range(npix)]]


def is_off(param, spec):
    if param == 'include_photon_noise':
        return not spec[1]
    if param == 'flat_field':
        return spec[1] == 0 if spec[0] == 'scalar' else all(x == 1 for x in spec[1])
    return spec[1] == 0 if spec[0] == 'scalar' else all(x == 0 for x in spec[1])


def add_setters(rng, case, npix):
    """constructor arguments in every spelling + parameter assignments between the operations"""
    ctor = {}
    for prm in PARAMS:
        ctor[prm] = gen_param(rng, prm, npix, off=bool(rng.random() < 0.55))
    case['ctor'] = ctor
    cur = {prm: is_off(prm, ctor[prm]) for prm in PARAMS}
    new = []
    started = False
    neg = any(op[0] in ('int', 'call') and op[4] < 0 for op in case['ops'])

    def emit(prm, off):
        spec = gen_param(rng, prm, npix, off)
        new.append(['set', prm, spec])
        cur[prm] = is_off(prm, spec)

    for op in case['ops']:
        if op[0] in ('int', 'call') and not started:
            mode = str(rng.choice(['off', 'off', 'any', 'keep']))
            if mode == 'off':
                for prm in [PARAMS[i] for i in rng.permutation(4)]:
                    if not cur[prm] or rng.random() < 0.5:      # also re-assign values that are already off
                        emit(prm, True)
            elif mode == 'any':
                for _ in range(int(rng.integers(1, 4))):
                    emit(PARAMS[int(rng.integers(0, 4))], bool(rng.random() < 0.5))
            started = True
        elif op[0] in ('int', 'read') and rng.random() < 0.15:
            emit(PARAMS[int(rng.integers(0, 4))], bool(rng.random() < 0.5))
        if op[0] in ('read', 'call'):
            # (a Poisson draw of a negative charge raises: with negative weights photon noise is always switched off first)
            if rng.random() < 0.85 or neg:
                for prm in ('read_noise', 'include_photon_noise'):
                    if not cur[prm]:
                        emit(prm, True)
            if rng.random() < 0.3 and not cur['flat_field']:
                emit('flat_field', True)
            started = False
        new.append(op)
    case['ops'] = new


def factors(case):
    """the subsampling factors per axis, (x, y, ..) order"""
    return list(case['ss']) if 'ss' in case else [case['s']] * len(case['dims'])


def sub_arg(case):
    """the `subsampling` argument the detector is constructed with"""
    if 'ss' not in case:
        return case['s']
    ss = case['ss']
    return {'array': lambda: np.array(ss), 'list': lambda: list(ss), 'float-array': lambda: np.array(ss, dtype=float)}[case.get('spell', 'array')]()


def model_sub(case):
    """the factor(s) as the driver wants them: one number, or the per-axis list slowest axis first"""
    return ('[' + ','.join(str(f) for f in case['ss'][::-1]) + ']') if 'ss' in case else str(case['s'])


def D(kind, dims, s, ops, delta=None, **kw):
    c = {'dims': dims, 'delta': delta or [1.0] * len(dims), 's': s, 'kind': kind, 'ops': ops, 'style': 'directed'}
    c.update(kw)
    return c


def _ones(n, v=1.0):
    return [v] * n


DIRECTED = [
    # exposures of different dtype in the life of one detector: single precision first, then double precision that needs it
    D('noiseless', [2, 2], 1, [['int', 'f32field', [1.0, 2.25, 3.5, 4.0], 1.0, 1.0, False], ['read'],
                               ['int', 'field', [1.0 + 2.0 ** -26, 2.0, 3.0 + 2.0 ** -25, 4.0 + 2.0 ** -40], 1.0, 1.0, False], ['read'], ['read']]),
    D('noisy-off', [2, 1], 2, [['int', 'f32field', [float(i) / 4 for i in range(8)], 0.5, 2.0, False], ['read'],
                               ['int', 'field', [1.0 + 2.0 ** -26] * 8, 1.0, 1.0, False], ['read']]),
    # one subsampling factor per axis: full histories (several integrations, empty read-outs, scribbles) on both detector classes
    D('noiseless', [2, 1], 3, [['int', 'field', [float(i) for i in range(12)], 0.5, 2.0, False], ['int', 'plain', [1.0] * 12, 1.0, 1.0, False], ['read'], ['read'],
                               ['scribble', 0, 7.0], ['call', 'field', [float(i % 5) for i in range(12)], 2.0, 1.0, False]], ss=[2, 3], spell='array'),
    D('noisy-off', [1, 2], 3, [['int', 'field', [float(i) for i in range(12)], 1.0, 1.0, True], ['read'], ['read']], ss=[3, 2], spell='list'),
    D('noisy-det', [2, 2], 2, [['int', 'field', [float(i) for i in range(8)], 0.5, 1.0, False], ['read'], ['read']],
      dark=1.5, flat=[1.0, 0.5, 1.25, 1.0], ss=[1, 2], spell='float-array'),
    # detector grids with non-regular separated coordinates (subsampling 1)
    D('noisy-off', [3, 2], 1, [['int', 'field', [1.0, 2, 3, 4, 5, 6], 0.5, 2.0, False], ['int', 'plain', [1.0, 0, 1, 0, 1, 0], 1.0, 1.0, False], ['read'], ['read']],
      axes=[[0.0, 0.5, 2.0], [0.0, 1.5]]),
    D('noiseless', [2, 2], 1, [['int', 'foreignfield', [1.0, 2, 3, 4], 1.0, 1.0, False], ['read'], ['call', 'field', [4.0, 3, 2, 1], 2.0, 1.0, False]],
      axes=[[0.0, 0.25], [1.0, 3.0]]),
    # parameter setters: scalar 0 (constructor default) -> explicit map -> the same scalar again, then everything off
    D('noisy-set', [2, 2], 1, [['int', 'field', [1.0, 2, 3, 4], 1.0, 1.0, False], ['read'],
                               ['set', 'flat_field', ['array', [2.0, 0.5, 1.5, 1.0]]], ['int', 'field', [1.0, 2, 3, 4], 1.0, 1.0, False], ['read'],
                               ['set', 'flat_field', ['scalar', 0]], ['int', 'field', [1.0, 2, 3, 4], 2.0, 1.0, False], ['read']],
      ctor={'flat_field': ['scalar', 0], 'dark_current_rate': ['scalar', 0], 'read_noise': ['scalar', 0], 'include_photon_noise': ['bool', False]}),
    D('noisy-set', [2, 1], 2, [['set', 'dark_current_rate', ['array', [1.0, 0.5]]], ['int', 'field', [float(i) for i in range(8)], 0.5, 2.0, False],
                               ['set', 'dark_current_rate', ['scalar', 0]], ['set', 'include_photon_noise', ['bool', False]], ['read'],
                               ['int', 'field', [float(i) for i in range(8)], 1.0, 1.0, False], ['set', 'read_noise', ['scalar', 0]], ['read']],
      ctor={'flat_field': ['field', [1.0, 1.0]], 'dark_current_rate': ['scalar', 2.0], 'read_noise': ['scalar', 0.5], 'include_photon_noise': ['bool', True]}),
    D('noiseless', [2, 2], 1, [['read']]),
    D('noisy-off', [2, 2], 1, [['read']]),
    # powers of the wrong size: every detector kind must refuse them and stay as it was
    D('noiseless', [2, 2], 1, [['int', 'field', [1.0, 2, 3, 4], 1.0, 1.0, False], ['bad', 'plain', [1.0, 2, 3, 4, 5, 6], 1.0, 1.0], ['read'],
                               ['bad', 'scalar', [3.0], 1.0, 1.0], ['read']]),
    D('noiseless', [2, 2], 1, [['bad', 'field', [float(i) for i in range(9)], 1.0, 1.0], ['read']]),
    D('noiseless', [2, 1], 2, [['bad', 'plain', [1.0, 2.0], 1.0, 1.0], ['int', 'field', [1.0, 2, 3, 4, 5, 6, 7, 8], 1.0, 1.0, False], ['read']]),
    D('noisy-off', [2, 2], 1, [['int', 'field', [1.0, 2, 3, 4], 1.0, 1.0, False], ['bad', 'list', [1.0, 2, 3], 1.0, 1.0], ['read']]),
    D('noisy-det', [2, 1], 1, [['bad', 'field', [1.0, 2, 3], 1.0, 1.0], ['read'], ['int', 'field', [1.0, 2], 1.0, 1.0, False], ['read']],
      dark=1.5, flat=[1.0, 0.5]),
    # a Field of the right size that lives on some other grid: the image is still on the detector grid
    D('noiseless', [2, 2], 1, [['int', 'foreignfield', [1.0, 2, 3, 4], 1.0, 1.0, False], ['read']]),
    D('noiseless', [2, 2], 2, [['int', 'foreignfield', [float(i) for i in range(16)], 1.0, 1.0, False], ['read']]),
    D('noisy-off', [2, 2], 1, [['int', 'foreignfield', [1.0, 2, 3, 4], 1.0, 1.0, False], ['read']]),
    D('noiseless', [3, 2], 1, [['int', 'field', [1.0, 2, 3, 4, 5, 6], 1.0, 1.0, True], ['read'], ['read'],
                               ['int', 'field', [1.0, 2, 3, 4, 5, 6], 0.5, 3.0, False], ['read']]),
    D('noiseless', [2, 1], 2, [['int', 'field', [1.0, 2, 3, 4, 5, 6, 7, 8], 1.0, 1.0, True], ['read']]),
    D('noisy-off', [2, 1], 2, [['int', 'field', [1.0, 2, 3, 4, 5, 6, 7, 8], 1.0, 1.0, True], ['read']]),
    D('noiseless', [2, 3], 3, [['int', 'field', [float(i) for i in range(54)], 0.5, 1.0, False],
                               ['int', 'field', [float(i * i % 7) for i in range(54)], 2.0, 0.25, False], ['read']], delta=[0.5, 2.0]),
    D('noiseless', [2, 2], 1, [['int', 'plain', [1.0, 2, 3, 4], 2.0, 1.0, False], ['read']]),
    D('noisy-off', [2, 2], 1, [['int', 'plain', [1.0, 2, 3, 4], 2.0, 1.0, False], ['read']]),
    D('noiseless', [2, 2], 1, [['int', 'list', [1.0, 2, 3, 4], 2.0, 1.0, False], ['read']]),
    D('noiseless', [2, 2], 1, [['int', 'intfield', [1, 0, 1, 1], 1.0, 1.0, True],
                               ['int', 'intfield', [1, 0, 1, 1], 0.5, 1.0, False], ['read']]),
    D('noisy-off', [2, 2], 1, [['int', 'boolfield', [True, False, True, True], 1.0, 1.0, True],
                               ['int', 'field', [1.0, 2, 3, 4], 0.5, 1.0, False], ['read']]),
    D('noiseless', [2, 2], 1, [['int', 'field', [1.0, 2, 3, 4], 1.0, 1.0, True], ['reuse', 0, [9.0, 9, 9, 9]], ['read'],
                               ['scribble', 0, 7.0], ['int', 'field', [1.0, 1, 1, 1], 1.0, 1.0, True], ['read'], ['read']]),
    D('noisy-det', [2, 2], 2, [['int', 'field', [float(i) for i in range(16)], 0.5, 1.0, False], ['read'], ['read']],
      dark=1.5, flat=[1.0, 0.5, 1.25, 1.0]),
    D('noiseless', [3], 2, [['call', 'wavefront', [[1.0, 2, 0, 1, 0.5, 0], [0.0, 1, 1, 0, 0.5, 2]], 2.0, 0.5, False], ['read']]),
    D('noiseless', [1, 2, 2], 2, [['int', 'field', [float(i) for i in range(32)], 1.0, 1.0, True], ['read']]),
]


# ---------------------------------------------------------------------------------------------
# the real code

def make_detector(case):
    import hcipy
    dims = case['dims']
    extent = [d * n for d, n in zip(case['delta'], dims)]
    grid = hcipy.make_uniform_grid(dims, extent)
    if 'axes' in case:
        grid = hcipy.CartesianGrid(hcipy.SeparatedCoords([np.array(a, dtype=float) for a in case['axes']]))
    s = sub_arg(case)
    if case['kind'] == 'noiseless':
        det = hcipy.NoiselessDetector(grid, s)
    elif case['kind'] == 'noisy-off':
        np.random.seed(12345)
        det = hcipy.NoisyDetector(grid, dark_current_rate=0, read_noise=0, flat_field=0, include_photon_noise=False, subsampling=s)
    elif case['kind'] == 'noisy-det':
        np.random.seed(12345)
        det = hcipy.NoisyDetector(grid, dark_current_rate=case['dark'], read_noise=0, flat_field=np.array(case['flat']),
                                  include_photon_noise=False, subsampling=s)
    else:
        np.random.seed(12345)
        c = case['ctor']
        det = hcipy.NoisyDetector(grid, dark_current_rate=param_value(c['dark_current_rate'], grid), read_noise=param_value(c['read_noise'], grid),
                                  flat_field=param_value(c['flat_field'], grid), include_photon_noise=param_value(c['include_photon_noise'], grid),
                                  subsampling=s)
    return grid, det


def param_value(spec, grid):
    import hcipy
    if spec[0] in ('scalar', 'bool'):
        return spec[1]
    if spec[0] == 'field':
        return hcipy.Field(np.array(spec[1], dtype=float), grid)
    if spec[0] == 'field-equal':
        return hcipy.Field(np.array(spec[1], dtype=float), equal_grid(grid))
    if spec[0] == 'field-other':
        return hcipy.Field(np.array(spec[1], dtype=float), grid.scaled(3.0).shifted(np.ones(grid.ndim)))
    return np.array(spec[1], dtype=float)


def equal_grid(grid):
    """a grid that compares equal to `grid` (same coordinates) but is another object with other weights"""
    g2 = grid.copy()
    g2.weights = np.asarray(grid.weights, dtype=float) * 2.0 + np.zeros(grid.size)
    return g2


def on_det_grid(gr, grid):
    """'the image lives on the detector grid': the grid object itself, or one that cannot be told from it (coordinates and weights)"""
    if gr is grid:
        return True
    try:
        return bool(gr == grid) and np.array_equal(np.asarray(gr.weights, dtype=float) + np.zeros(grid.size), np.asarray(grid.weights, dtype=float) + np.zeros(grid.size))
    except Exception:  # noqa
        return False


def make_input(det, ik, data):
    """Returns (object handed to integrate, the buffer whose content must stay intact, power as floats)."""
    import hcipy
    g = det.input_grid
    if ik == 'wavefront':
        e = hcipy.Field(np.array(data[0]) + 1j * np.array(data[1]), g)
        wf = hcipy.Wavefront(e)
        return wf, wf.electric_field, np.array(wf.power, dtype=float)
    if ik == 'plain':
        a = np.array(data, dtype=float)
        return a, a, a.copy()
    if ik == 'list':
        return list(data), None, np.array(data, dtype=float)
    if ik == 'intfield':
        a = hcipy.Field(np.array(data, dtype=int), g)
        return a, a, np.array(data, dtype=float)
    if ik == 'boolfield':
        a = hcipy.Field(np.array(data, dtype=bool), g)
        return a, a, np.array(data, dtype=float)
    if ik == 'f32field':
        a = hcipy.Field(np.array(data, dtype=np.float32), g)
        return a, a, np.array(data, dtype=float)
    if ik == 'foreignfield':
        # the right number of samples, on a grid object that is not (and does not equal) the input grid
        a = hcipy.Field(np.array(data, dtype=float), g.scaled(3.0).shifted(np.ones(g.ndim)))
        return a, a, a.copy()
    a = hcipy.Field(np.array(data, dtype=float), g)
    return a, a, a.copy()


def make_bad_input(variant, data):
    import hcipy
    if variant == 'scalar':
        return float(data[0])
    if variant == 'list':
        return list(data)
    if variant == 'field':
        return hcipy.Field(np.array(data, dtype=float), hcipy.make_uniform_grid([len(data)], [float(len(data))]))
    return np.array(data, dtype=float)


def fr(x):
    return Fraction(*float(x).as_integer_ratio())


def brute_bin(p, dims, s):
    """sum-binning by explicit index loops; p is the flat fine array (x fastest), dims = (x, y, ..)."""
    nd = len(dims)
    out = [Fraction(0)] * int(np.prod(dims))
    fine = [d * s for d in dims]
    for idx in itertools.product(*[range(f) for f in fine[::-1]]):      # slowest first
        flat = 0
        cflat = 0
        for k, i in enumerate(idx):
            flat = flat * fine[nd - 1 - k] + i
            cflat = cflat * dims[nd - 1 - k] + i // s
        out[cflat] += p[flat]
    return out


def run_real(case):
    """Execute the history; returns a list of observation dicts (one per op)."""
    try:
        grid, det = make_detector(case)
    except Exception as e:  # noqa
        return [{'op': 'ctor', 'status': 'raises:' + type(e).__name__,
                 'bad': [('constructor-raises', 'constructing the %s detector raised %s: %s' % (case['kind'], type(e).__name__, str(e)[:100]))]}], ['C17 reset']
    npix = grid.size
    s, dims = case['s'], case['dims']
    cfg = {'dark': [fr(case.get('dark', 0.0))] * npix, 'flat': [fr(x) for x in case.get('flat', [1.0] * npix)],
           'sigma_zero': True, 'photon': False, 'explicit_flats': [], 'clean': True}
    obs = []
    ikinds_state = {'l': []}
    images = []       # (object, snapshot)
    inputs = []       # (buffer or None, snapshot)
    expected = [Fraction(0)] * npix      # what the next read-out must be (before flat field)
    total_in = Fraction(0)               # sum over the pending integrations of total(power)*dt*w
    pending = 0
    model = ['C17 reset']
    kind = {'noiseless': 'noiseless', 'noisy-off': 'noisy', 'noisy-det': 'noisy', 'noisy-set': 'noisy'}[case['kind']]
    if kind == 'noisy':
        model.append('C17 new noisy %s %s %s %s' % (model_sub(case), '[' + ','.join(str(d) for d in dims[::-1]) + ']', rat(case.get('dark', 0.0)),
                                                   rat_list(case['flat']) if 'flat' in case else '-'))
    else:
        model.append('C17 new noiseless %s %s' % (model_sub(case), '[' + ','.join(str(d) for d in dims[::-1]) + ']'))

    def note_param(prm, spec, o):
        """book-keeping (and model line) for a parameter that has just been given to the detector"""
        if prm != 'include_photon_noise':
            # the grid the map carries (model `ntStep`): none for scalars / arrays, the detector grid object, another grid object
            model.append('C17 ntset %s %s' % ({'read_noise': 'sigma', 'dark_current_rate': 'dark', 'flat_field': 'flat'}[prm],
                                              {'field': 'detector', 'field-equal': 'foreign', 'field-other': 'foreign'}.get(spec[0], 'none')))
        if prm == 'include_photon_noise':
            cfg['photon'] = bool(spec[1])
            model.append('C17 set photon %d' % (1 if spec[1] else 0))
        elif prm == 'read_noise':
            vals = [float(spec[1])] * npix if spec[0] == 'scalar' else [float(x) for x in spec[1]]
            cfg['sigma_zero'] = all(x == 0 for x in vals)
            model.append('C17 set sigma %s' % rat_list(vals))
        elif prm == 'dark_current_rate':
            vals = [float(spec[1])] * npix if spec[0] == 'scalar' else [float(x) for x in spec[1]]
            cfg['dark'] = [fr(x) for x in vals]
            model.append('C17 set dark %s' % rat_list(vals))
        else:
            if spec[0] == 'scalar' and spec[1] == 0:
                vals = [1.0] * npix                 # N(1, 0): the unit map, whatever was there before
            elif spec[0] == 'scalar':
                m = np.asarray(det.flat_field, dtype=float)
                if m.shape != (npix,):
                    o['bad'].append(('flat-field-map-shape', 'flat_field = %r left a map of shape %r' % (spec[1], m.shape)))
                    return
                for old in cfg['explicit_flats']:
                    if np.array_equal(m, old):
                        o['bad'].append(('flat-field-stale-map', 'flat_field = %r (a standard deviation) left an explicitly assigned map in force' % (spec[1],)))
                        return
                vals = [float(x) for x in m]
            else:
                vals = [float(x) for x in spec[1]]
                cfg['explicit_flats'].append(np.array(vals))
            cfg['flat'] = [fr(x) for x in vals]
            model.append('C17 set flat %s' % rat_list(vals))

    if case['kind'] == 'noisy-set':
        o0 = {'bad': []}
        for prm in PARAMS:
            note_param(prm, case['ctor'][prm], o0)
        if o0['bad']:
            return [dict(op='ctor', status='ok', **o0)], model

    # reference-level model (noiseless detector): the arrays the caller holds, in the order they were handed out
    refm = case['kind'] == 'noiseless'
    handles = []          # real object or None (no array object on the caller's side: list, Wavefront, wrong-size input)
    img_handle = []       # handle of the k-th image
    inp_handle = []       # handle of the buffer of the j-th successful integration

    def rline(o, line, kind, payload=None):
        model.append(line)
        o.setdefault('rchecks', []).append((len(model) - 1, kind, payload))

    def grid_label(im):
        gr = getattr(im, 'grid', None)
        if gr is not None and on_det_grid(gr, grid):
            return 'detector'
        if gr is not None and (gr is det.input_grid or gr == det.input_grid):
            return 'input'
        return 'foreign'

    def rdump(o):
        real = [None if h is None else np.array(np.asarray(h), dtype=float).ravel().tolist() for h in handles]
        share = [(a, b) for a in range(len(handles)) for b in range(a + 1, len(handles))
                 if handles[a] is not None and handles[b] is not None and np.shares_memory(np.asarray(handles[a]), np.asarray(handles[b]))]
        rline(o, 'C17 rdump', 'dump', (real, share))

    def check_alias(o):
        for k, (im, snap) in enumerate(images):
            if im is not None and not (np.array_equal(np.asarray(im), snap)):
                o['bad'].append(('returned-image-changed', 'image %d returned earlier was changed by a later operation' % k))
        for k, (buf, snap) in enumerate(inputs):
            if buf is not None and not np.array_equal(np.asarray(buf), snap):
                o['bad'].append(('input-changed', 'the array passed to integration %d was changed by the detector' % k))

    def do_read(o):
        nonlocal expected, total_in, pending
        try:
            im = det.read_out()
        except Exception as e:  # noqa
            o['status'] = 'raises:' + type(e).__name__
            key = ('integer-power-accumulate' if type(e).__name__ == 'UFuncTypeError' else
                   'readout-empty-raises' if pending == 0 else 'readout-raises')
            o['bad'].append((key, 'read_out() after %d integrations raised %s: %s' % (pending, type(e).__name__, e)))
            return
        o['status'] = 'ok'
        flat = cfg['flat']
        o['random'] = cfg['photon'] or not cfg['sigma_zero']
        o['off'] = (not o['random']) and cfg['clean'] and all(f == 1 for f in flat)
        cfg['clean'] = True
        want = [a * f for a, f in zip(expected, flat)]
        o['want'] = want
        o['pending'] = pending
        arr = np.asarray(im)
        o['got'] = [float(x) for x in arr.ravel()] if arr.dtype != object else None
        ikinds = o['ikinds'] = list(ikinds_state['l'])
        plain = any(k in ('plain', 'list') for k in ikinds)
        gr = getattr(im, 'grid', None)
        if arr.shape != (npix,):
            key = 'noiseless-subsampling-grid' if (case['kind'] == 'noiseless' and s > 1) else 'readout-shape'
            o['bad'].append((key, 'read-out image has shape %r, the detector grid has %d pixels (subsampling %d)' % (arr.shape, npix, s)))
        elif gr is None or not on_det_grid(gr, grid):
            key = 'plain-array-power' if (plain and gr is None) else 'readout-grid'
            o['bad'].append((key, 'read-out image does not live on the detector grid (grid attribute: %s)' % (type(gr).__name__,)))
        else:
            scale = max([1.0] + [abs(float(x)) for x in want])
            err = max(abs(float(a) - float(b)) for a, b in zip(arr, want)) if npix else 0.0
            o['exact'] = all(fr(a) == b for a, b in zip(arr, want))
            if o['random']:
                pass                # photon or read noise is on for this read-out: the values are random
            elif not err <= TOL * scale:
                if case['kind'] == 'noisy-set' and o['off']:
                    o['bad'].append(('noisy-off-after-setters', 'every noise source is off now, yet the read-out after %d integrations differs from the noiseless image by %g' % (pending, err)))
                else:
                    o['bad'].append(('readout-value', 'read-out after %d integrations differs from the sum of power*dt*weight by %g' % (pending, err)))
            if case['kind'] not in ('noisy-det', 'noisy-set') or (o['off'] and not o['bad']):
                tot = float(np.sum(arr))
                if not abs(tot - float(total_in)) <= TOL * max(1.0, abs(float(total_in)), scale * npix):
                    o['bad'].append(('counts-not-conserved', 'total counts %r, integrated power*dt*weight %r' % (tot, float(total_in))))
        images.append((im, np.array(arr, copy=True)))
        expected = [Fraction(0)] * npix
        total_in = Fraction(0)
        pending = 0
        ikinds_state['l'] = []

    def do_int(o, ik, data, dt, w, asint):
        nonlocal expected, total_in, pending
        obj, buf, power = make_input(det, ik, data)
        dtv = int(dt) if (asint and float(dt).is_integer()) else float(dt)
        wv = int(w) if (asint and float(w).is_integer()) else float(w)
        o['power'] = [float(x) for x in power]
        snap = None if buf is None else np.array(np.asarray(buf), copy=True)
        try:
            det.integrate(obj, dtv, wv)
        except Exception as e:  # noqa
            o['status'] = 'raises:' + type(e).__name__
            if ik in ('plain', 'list'):
                key = 'plain-array-power'
            elif type(e).__name__ == 'UFuncTypeError':
                key = 'integer-power-accumulate'
            else:
                key = 'integrate-raises'
            o['bad'].append((key, 'integrate(%s, dt=%r, weight=%r) raised %s: %s' % (ik, dtv, wv, type(e).__name__, str(e)[:120])))
            return
        o['status'] = 'ok'
        inputs.append((buf, snap))
        ikinds_state['l'].append(ik)
        pf = [fr(x) for x in power]
        b = brute_bins(pf, dims, factors(case)) if 'ss' in case else brute_bin(pf, dims, s)
        f = fr(dt) * fr(w)
        expected = [a + x * f + d * f for a, x, d in zip(expected, b, cfg['dark'])]
        if any(d != 0 for d in cfg['dark']):
            cfg['clean'] = False
        total_in += sum(pf) * f
        pending += 1

    for op in case['ops']:
        o = {'op': op[0], 'bad': [], 'status': 'ok'}
        if op[0] == 'read':
            model.append('C17 read')
            o['model_idx'] = len(model) - 1
            do_read(o)
            if 'got' in o and not o['bad']:
                rline(o, 'C17 tread', 'exact', 'ok ' + grid_label(images[-1][0]))
                if case['kind'] != 'noiseless':
                    rline(o, 'C17 ntread', 'exact', 'ok ' + grid_label(images[-1][0]))
            if refm and 'got' in o and not o['bad']:
                rline(o, 'C17 rread', 'read', o['got'])
                img_handle.append(len(handles))
                handles.append(images[-1][0])
        elif op[0] in ('int', 'call'):
            _, ik, data, dt, w, asint = op
            do_int(o, ik, data, dt, w, asint)
            if 'power' in o:
                model.append('C17 int %s %s %s' % (rat_list(o['power']), rat(dt), rat(w)))
                o['model_int_idx'] = len(model) - 1
            if 'power' in o and o['status'] == 'ok':
                rline(o, 'C17 tint %s' % ('foreign' if ik == 'foreignfield' else 'plain' if ik in ('plain', 'list') else 'input'), 'ok')
                if case['kind'] != 'noiseless':
                    rline(o, 'C17 ntint %s' % ('foreign' if ik == 'foreignfield' else 'plain' if ik in ('plain', 'list') else 'input'), 'ok')
            if refm and 'power' in o and o['status'] == 'ok':
                rline(o, 'C17 ralloc %s' % rat_list(o['power']), 'ok')
                rline(o, 'C17 rint %d %s %s' % (len(handles), rat(dt), rat(w)), 'ok')
                inp_handle.append(len(handles))
                handles.append(inputs[-1][0] if ik in ('field', 'plain', 'foreignfield', 'intfield', 'boolfield', 'f32field') else None)
            if op[0] == 'call' and not o['bad']:
                model.append('C17 read')
                o['model_idx'] = len(model) - 1
                do_read(o)
                if 'got' in o and not o['bad']:
                    rline(o, 'C17 tread', 'exact', 'ok ' + grid_label(images[-1][0]))
                    if case['kind'] != 'noiseless':
                        rline(o, 'C17 ntread', 'exact', 'ok ' + grid_label(images[-1][0]))
                if refm and 'got' in o and not o['bad']:
                    rline(o, 'C17 rread', 'read', o['got'])
                    img_handle.append(len(handles))
                    handles.append(images[-1][0])
        elif op[0] == 'bad':
            _, variant, data, dt, w = op
            obj = make_bad_input(variant, data)
            model.append('C17 int %s %s %s' % (rat_list(data), rat(dt), rat(w)))
            o['model_bad_idx'] = len(model) - 1
            o['bad_variant'] = variant
            try:
                det.integrate(obj, dt, w)
                o['status'] = 'ok'
                acc = getattr(det, 'accumulated_charge', None)
                o['bad'].append(('wrong-size-accepted', 'integrate(<%s with %d values>) on a detector whose input grid has %d points did not raise '
                                 '(accumulated charge now has shape %r)' % (variant, len(data), det.input_grid.size, np.shape(acc))))
            except Exception as e:  # noqa
                o['status'] = 'raises:' + type(e).__name__
            if refm and o['status'].startswith('raises'):
                rline(o, 'C17 ralloc %s' % rat_list(data), 'ok')
                rline(o, 'C17 rint %d %s %s' % (len(handles), rat(dt), rat(w)), 'err value')
                handles.append(None)
        elif op[0] == 'set':
            prm, spec = op[1], op[2]
            if prm == 'flat_field':
                np.random.seed(zlib.crc32(repr(spec).encode()) % (2 ** 31))
            try:
                setattr(det, prm, param_value(spec, grid))
            except Exception as e:  # noqa
                o['bad'].append(('setter-raises', '%s = <%s> raised %s: %s' % (prm, spec[0], type(e).__name__, str(e)[:100])))
            if not o['bad']:
                note_param(prm, spec, o)
        elif op[0] == 'scribble':
            k = op[1]
            if k < len(images) and images[k][0] is not None:
                im = images[k][0]
                try:
                    im[...] = op[2]
                    images[k] = (im, np.array(np.asarray(im), copy=True))
                    if refm and k < len(img_handle):
                        rline(o, 'C17 rwrite %d %s' % (img_handle[k], rat_list([float(x) for x in np.asarray(im, dtype=float).ravel()])), 'ok')
                except Exception:  # noqa  (read-only image: nothing to scribble on)
                    pass
        elif op[0] == 'reuse':
            j = op[1]
            if j < len(inputs) and inputs[j][0] is not None:
                buf = inputs[j][0]
                vals = np.array(op[2])
                try:
                    if np.iscomplexobj(buf):
                        buf[...] = vals
                    else:
                        buf[...] = vals.astype(buf.dtype)
                    inputs[j] = (buf, np.array(np.asarray(buf), copy=True))
                    if refm and j < len(inp_handle) and handles[inp_handle[j]] is not None:
                        rline(o, 'C17 rwrite %d %s' % (inp_handle[j], rat_list([float(x) for x in np.asarray(buf, dtype=float).ravel()])), 'ok')
                except Exception:  # noqa
                    pass
        else:
            raise MachineryError('unknown op %r' % (op,))
        if not o['bad']:
            check_alias(o)
        if refm and not o['bad']:
            rdump(o)
        obs.append(o)
        if o['bad']:
            break
    # the images of the whole history at once (`images` of the observation list; noisy kinds also `reads … (strip history)`)
    model.append('C17 imgs')
    if kind == 'noisy':
        model.append('C17 twin')
    return obs, model


def twin_check(case):
    """noisy-with-noise-off = noiseless: run the same history on the other kind, compare images."""
    if case['kind'] == 'noisy-det':
        return []
    other = dict(case)
    if case['kind'] == 'noisy-set':
        # the noiseless detector sees the same history without the parameter assignments; compared are the read-outs
        # made while every noise source is off (current values) and no dark current entered the exposure
        other['kind'] = 'noiseless'
        other['ops'] = [op for op in case['ops'] if op[0] != 'set']
        a, _ = run_real(case)
        b, _ = run_real(other)
        ra = [o for o in a if 'got' in o]
        rb = [o for o in b if 'got' in o]
        if any(o['bad'] for o in a) or any(o['bad'] for o in b):
            return []
        bad = []
        for k, (x, y) in enumerate(zip(ra, rb)):
            if not x.get('off'):
                continue
            gx, gy = x.get('got'), y.get('got')
            scale = max([1.0] + [abs(v) for v in (gy or [])])
            if gx is None or gy is None or len(gx) != len(gy) or max([abs(u - v) for u, v in zip(gx, gy)] + [0.0]) > TOL * scale:
                bad.append(('noisy-off-after-setters', 'read-out %d: all noise parameters are off now, but the image differs from the NoiselessDetector image' % k))
                break
        return bad
    other['kind'] = 'noisy-off' if case['kind'] == 'noiseless' else 'noiseless'
    other['ops'] = [op for op in case['ops']]
    a, _ = run_real(case)
    b, _ = run_real(other)
    bad = []
    for k, (x, y) in enumerate(zip(a, b)):
        if x['bad'] or y['bad']:
            break
        if x.get('got') is None and y.get('got') is None:
            continue
        gx, gy = x.get('got'), y.get('got')
        if gx is None or gy is None or len(gx) != len(gy):
            bad.append(('noisy-off-differs', 'op %d: noiseless and noise-free noisy detector return different shapes' % k))
            break
        scale = max([1.0] + [abs(v) for v in gx])
        if max([abs(u - v) for u, v in zip(gx, gy)] + [0.0]) > TOL * scale:
            bad.append(('noisy-off-differs', 'op %d: noiseless and noise-free noisy detector return different images' % k))
            break
    return bad


# ---------------------------------------------------------------------------------------------
# per-axis subsampling factors (D181): `subsamping` given as an array / list, documented for every detector class

def brute_bins(p, dims, ss):
    """sum-binning with one factor per axis; p flat (x fastest), dims and ss in (x, y, ..) order"""
    nd = len(dims)
    out = [Fraction(0)] * int(np.prod(dims))
    fine = [d * f for d, f in zip(dims, ss)]
    for idx in itertools.product(*[range(f) for f in fine[::-1]]):      # slowest first
        flat = 0
        cflat = 0
        for k, i in enumerate(idx):
            flat = flat * fine[nd - 1 - k] + i
            cflat = cflat * dims[nd - 1 - k] + i // ss[nd - 1 - k]
        out[cflat] += p[flat]
    return out


def gen_per_axis(rng, big):
    ndim = 1 if rng.random() < 0.15 else 2
    dims = [int(rng.integers(1, 4 if not big else 5)) for _ in range(ndim)]
    ss = [int(rng.integers(1, 4)) for _ in range(ndim)]
    nfine = int(np.prod([d * f for d, f in zip(dims, ss)]))
    nint = int(rng.integers(1, 4))
    return {'fam': 'per-axis', 'dims': dims, 'ss': ss, 'delta': [float(rng.choice([0.5, 1.0, 2.0])) for _ in range(ndim)],
            'cls': str(rng.choice(['noiseless', 'noisy-off'])), 'spell': str(rng.choice(['array', 'array', 'list', 'float-array'])),
            'input': str(rng.choice(['field', 'plain'])),
            'ints': [[[dyadic(rng, 0, 16, 3) for _ in range(nfine)], dyadic(rng, 0.25, 4, 2), float(rng.choice([1.0, 0.5, 2.0]))] for _ in range(nint)]}


def run_per_axis(case):
    """returns (bad, model lines, comparisons)"""
    import hcipy
    bad, lines, cmps = [], [], []
    dims, ss = case['dims'], case['ss']
    grid = hcipy.make_uniform_grid(dims, [d * n for d, n in zip(case['delta'], dims)])
    arg = {'array': lambda: np.array(ss), 'list': lambda: list(ss), 'float-array': lambda: np.array(ss, dtype=float)}[case['spell']]()
    try:
        if case['cls'] == 'noiseless':
            det = hcipy.NoiselessDetector(grid, arg)
        else:
            np.random.seed(12345)
            det = hcipy.NoisyDetector(grid, dark_current_rate=0, read_noise=0, flat_field=0, include_photon_noise=False, subsampling=arg)
    except Exception as e:  # noqa
        bad.append(('per-axis-subsampling-raises', '%s(grid %r, subsampling=%r (%s)) raised %s: %s (the docstring promises "if this is an array, the '
                    'subsampling factor will be different for each dimension")' % (case['cls'], dims, ss, case['spell'], type(e).__name__, str(e)[:80])))
        return bad, lines, cmps
    fine = [d * f for d, f in zip(dims, ss)]
    if [int(d) for d in det.input_grid.dims] != fine:
        bad.append(('per-axis-input-grid', 'input grid has dims %r, expected %r' % ([int(d) for d in det.input_grid.dims], fine)))
        return bad, lines, cmps
    npix = int(np.prod(dims))
    want = [Fraction(0)] * npix
    try:
        for vals, dt, w in case['ints']:
            a = np.array(vals, dtype=float)
            det.integrate(hcipy.Field(a, det.input_grid) if case['input'] == 'field' else a, dt, w)
            b = brute_bins([fr(x) for x in vals], dims, ss)
            want = [x + y * fr(dt) * fr(w) for x, y in zip(want, b)]
        im = det.read_out()
        singles = [det(hcipy.Field(np.array(vals, dtype=float), det.input_grid), 1.0, 1.0) for vals, _, _ in case['ints']]
        empty = det.read_out()
    except Exception as e:  # noqa
        bad.append(('per-axis-subsampling-raises', 'a history on a %s detector with subsampling %r raised %s: %s' % (case['cls'], ss, type(e).__name__, str(e)[:100])))
        return bad, lines, cmps
    for name, img, ref in [('read-out', im, want), ('read-out with nothing integrated', empty, [Fraction(0)] * npix)]:
        arr = np.asarray(img, dtype=float)
        gr = getattr(img, 'grid', None)
        if arr.shape != (npix,) or gr is None or not on_det_grid(gr, grid):
            bad.append(('readout-grid', '%s of a detector with subsampling %r has shape %r / does not live on the detector grid' % (name, ss, arr.shape)))
        elif max([abs(float(x) - float(y)) for x, y in zip(arr, ref)] + [0.0]) > TOL * max([1.0] + [abs(float(y)) for y in ref]):
            bad.append(('readout-value', '%s of a detector with per-axis subsampling %r differs from the sum of power*dt*weight over the %r boxes' % (name, ss, ss)))
    rs, rd = '[' + ','.join(str(f) for f in ss[::-1]) + ']', '[' + ','.join(str(d) for d in dims[::-1]) + ']'
    for (vals, _, _), img in zip(case['ints'], singles):
        lines.append('C18 bins sum %s %s %s' % (rs, rd, rat_list(vals)))
        cmps.append([float(x) for x in np.asarray(img, dtype=float).ravel()])
    return bad, lines, cmps


# ---------------------------------------------------------------------------------------------
# noise sources ON, with a recording stand-in for `np.random` (family `rng`)
#
# NoisyDetector draws from the legacy global generator (`np.random.normal`, `np.random.poisson` inside `large_poisson`).
# For the duration of every call into the detector these two functions are replaced by a stand-in that records its
# arguments and returns `loc + scale*z` / `lam + d` for dyadic `z`, `d` drawn from a generator seeded by the case.  That
# makes the whole pipeline (dark current -> photon noise -> flat field -> read noise -> reset) a deterministic function:
# the oracle recomputes it in Fractions and also checks *what the real code asked the generator for* (order of the
# calls, the expectation handed to the Poisson stage, loc/scale/size of the normal draws); the Lean model
# (`pReadOutRng`, op `readrng`) recomputes image and Poisson expectation.  A second pass re-runs the history with the
# real generator seeded twice: same seed => bit-identical images.

class FakeRandom:
    def __init__(self, seed):
        self.rng = np.random.default_rng(seed)
        self.calls = []

    def _draw(self, n, lo, hi, bits):
        return np.array([dyadic(self.rng, lo, hi, bits) for _ in range(n)], dtype=float)

    def normal(self, loc=0.0, scale=1.0, size=None):
        n = int(np.prod(size)) if size is not None else int(np.size(np.broadcast_arrays(loc, scale)[0]))
        z = self._draw(n, -2, 2, 2)
        if n:
            self.calls.append({'fn': 'normal', 'loc': np.array(loc, dtype=float).ravel().tolist(), 'scale': np.array(scale, dtype=float).ravel().tolist(),
                               'size': None if size is None else int(np.prod(size)), 'z': z.tolist()})
        return np.asarray(loc, dtype=float) + np.asarray(scale, dtype=float) * z

    def poisson(self, lam=1.0, size=None):
        lam = np.array(lam, dtype=float)
        d = np.array([float(self.rng.integers(-2, 4)) for _ in range(lam.size)])
        if lam.size:
            self.calls.append({'fn': 'poisson', 'lam': lam.ravel().tolist(), 'size': None if size is None else int(np.prod(size)), 'd': d.tolist()})
        return lam + d.reshape(lam.shape)


class patched_random:
    """`with patched_random(fake):` — np.random.normal / poisson are the stand-in's inside the block"""
    def __init__(self, fake):
        self.fake = fake

    def __enter__(self):
        self.saved = (np.random.normal, np.random.poisson)
        np.random.normal, np.random.poisson = self.fake.normal, self.fake.poisson
        return self.fake

    def __exit__(self, *a):
        np.random.normal, np.random.poisson = self.saved
        return False


def gen_rng_case(rng, big):
    ndim = 1 if rng.random() < 0.2 else 2
    dims = [int(rng.integers(1, 4 if not big else 5)) for _ in range(ndim)]
    case = {'fam': 'rng', 'dims': dims, 'delta': [float(rng.choice([0.5, 1.0, 2.0])) for _ in range(ndim)], 'zseed': int(rng.integers(0, 2 ** 31))}
    if rng.random() < 0.4:
        case['ss'] = [int(rng.integers(1, 4)) for _ in range(ndim)]
        case['spell'] = str(rng.choice(['array', 'list']))
        case['s'] = max(case['ss'])
    else:
        case['s'] = int(rng.choice([1, 1, 2, 3]))
    npix = int(np.prod(dims))
    nin = int(np.prod([d * f for d, f in zip(dims, factors(case))]))
    case['ctor'] = {prm: gen_param(rng, prm, npix, off=bool(rng.random() < 0.3)) for prm in PARAMS}
    ops = []
    for _ in range(int(rng.integers(1, 8 if not big else 14))):
        u = rng.random()
        if u < 0.35:
            ops.append(['read'])
        elif u < 0.5:
            prm = PARAMS[int(rng.integers(0, 4))]
            ops.append(['set', prm, gen_param(rng, prm, npix, off=bool(rng.random() < 0.3))])
        else:
            data = [dyadic(rng, 0, 16, 3) for _ in range(nin)]
            ops.append(['call' if rng.random() < 0.15 else 'int', 'plain' if rng.random() < 0.2 else 'field', data,
                        float(rng.choice([dyadic(rng, 0, 4, 3), 1.0, 2.0])), float(rng.choice([1.0, dyadic(rng, 0, 2, 3), 2.0])), False])
    ops.append(['read'])
    if rng.random() < 0.5:
        ops.append(['read'])
    case['ops'] = ops
    return case


def run_rng_case(case):
    """returns (bad, model lines, checks) — checks = [(index into the model lines, image, lam or None)]"""
    import hcipy
    bad, lines, checks = [], ['C17 reset'], []
    dims = case['dims']
    npix = int(np.prod(dims))
    fake = FakeRandom(case['zseed'])
    grid = hcipy.make_uniform_grid(dims, [d * n for d, n in zip(case['delta'], dims)])
    st = {'dark': None, 'sigma': None, 'flat': None, 'photon': None}

    def calls_since(k):
        return fake.calls[k:]

    def note(prm, spec, k0):
        """oracle + book-keeping for a parameter given to the detector; the only draw allowed is the flat-field map"""
        cs = calls_since(k0)
        if prm == 'flat_field' and spec[0] == 'scalar':
            if len(cs) != 1 or cs[0]['fn'] != 'normal' or cs[0]['loc'] != [1.0] or cs[0]['scale'] != [float(spec[1])] or cs[0]['size'] != npix:
                bad.append(('flat-field-map-draw', 'flat_field = %r (a standard deviation) must draw one normal(1, %r, %d) map; the generator was asked for %r'
                            % (spec[1], spec[1], npix, [(c['fn'], c.get('loc'), c.get('scale'), c.get('size')) for c in cs])))
                return
            want = [Fraction(1) + fr(spec[1]) * fr(z) for z in cs[0]['z']]
            m = np.asarray(det.flat_field, dtype=float).ravel()
            if m.shape != (npix,) or any(fr(a) != b for a, b in zip(m, want)):
                bad.append(('flat-field-map-draw', 'flat_field = %r: the map in force is not 1 + %r*z for the deviates z that were drawn' % (spec[1], spec[1])))
                return
            st['flat'] = want
        elif cs:
            bad.append(('rng-consumed-by-setter', '%s = <%s> consumed random numbers: %r' % (prm, spec[0], [c['fn'] for c in cs])))
            return
        elif prm == 'flat_field':
            st['flat'] = [fr(x) for x in spec[1]]
        elif prm == 'include_photon_noise':
            st['photon'] = bool(spec[1])
        else:
            vals = [fr(spec[1])] * npix if spec[0] == 'scalar' else [fr(x) for x in spec[1]]
            st['dark' if prm == 'dark_current_rate' else 'sigma'] = vals
        if prm == 'include_photon_noise':
            lines.append('C17 set photon %d' % (1 if spec[1] else 0))
        else:
            lines.append('C17 set %s %s' % ({'flat_field': 'flat', 'dark_current_rate': 'dark', 'read_noise': 'sigma'}[prm],
                                            '[' + ','.join(rat(v) for v in st[{'flat_field': 'flat', 'dark_current_rate': 'dark', 'read_noise': 'sigma'}[prm]]) + ']'))

    c = case['ctor']
    try:
        with patched_random(fake):
            det = hcipy.NoisyDetector(grid, dark_current_rate=param_value(c['dark_current_rate'], grid), read_noise=param_value(c['read_noise'], grid),
                                      flat_field=param_value(c['flat_field'], grid), include_photon_noise=param_value(c['include_photon_noise'], grid),
                                      subsampling=sub_arg(case))
    except Exception as e:  # noqa
        return [('constructor-raises', 'constructing the NoisyDetector raised %s: %s' % (type(e).__name__, str(e)[:100]))], lines, checks
    lines.append('C17 new noisy %s %s 0 -' % (model_sub(case), '[' + ','.join(str(d) for d in dims[::-1]) + ']'))
    k0 = 0
    for prm in ('dark_current_rate', 'read_noise', 'flat_field', 'include_photon_noise'):      # the order of the assignments in __init__
        note(prm, c[prm], k0 if prm == 'flat_field' else len(fake.calls))
        if bad:
            return bad, lines, checks
    charge = [Fraction(0)] * npix
    for op in case['ops']:
        k0 = len(fake.calls)
        if op[0] == 'set':
            try:
                with patched_random(fake):
                    setattr(det, op[1], param_value(op[2], grid))
            except Exception as e:  # noqa
                bad.append(('setter-raises', '%s = <%s> raised %s: %s' % (op[1], op[2][0], type(e).__name__, str(e)[:100])))
                break
            note(op[1], op[2], k0)
        if op[0] in ('int', 'call'):
            _, ik, data, dt, w, _ = op
            a = np.array(data, dtype=float)
            try:
                with patched_random(fake):
                    det.integrate(hcipy.Field(a, det.input_grid) if ik == 'field' else a, dt, w)
            except Exception as e:  # noqa
                bad.append(('integrate-raises', 'integrate raised %s: %s' % (type(e).__name__, str(e)[:100])))
                break
            if calls_since(k0):
                bad.append(('rng-consumed-by-integrate', 'integrate() consumed random numbers: %r' % [c_['fn'] for c_ in calls_since(k0)]))
                break
            f = fr(dt) * fr(w)
            b = brute_bins([fr(x) for x in data], dims, factors(case))
            charge = [q + x * f + d * f for q, x, d in zip(charge, b, st['dark'])]
            lines.append('C17 int %s %s %s' % (rat_list(data), rat(dt), rat(w)))
        if op[0] in ('read', 'call'):
            k0 = len(fake.calls)
            try:
                with patched_random(fake):
                    im = det.read_out()
            except Exception as e:  # noqa
                bad.append(('readout-raises', 'read_out() with noise sources on raised %s: %s' % (type(e).__name__, str(e)[:100])))
                break
            cs = calls_since(k0)
            seq = [c_['fn'] for c_ in cs]
            wantseq = (['poisson'] if st['photon'] else []) + ['normal']
            if seq != wantseq:
                bad.append(('noise-call-order', 'read_out() with include_photon_noise=%r asked the generator for %r, expected %r' % (st['photon'], seq, wantseq)))
                break
            delta = [Fraction(0)] * npix
            if st['photon']:
                pc = cs[0]
                if len(pc['lam']) != npix or any(abs(a - float(b)) > TOL * max(1.0, abs(float(b))) for a, b in zip(pc['lam'], charge)):
                    bad.append(('photon-noise-expectation', 'the Poisson stage was handed %r; the accumulated charge (binned power*dt*w + dark*dt*w, before '
                                'flat field and read noise) is %r' % (pc['lam'][:6], [float(x) for x in charge[:6]])))
                    break
                delta = [fr(x) for x in pc['d']]
            nc = cs[-1]
            sig = [float(x) for x in st['sigma']]
            if nc['loc'] != [0.0] or nc['size'] != npix or (nc['scale'] != sig and not (len(set(sig)) == 1 and nc['scale'] == sig[:1])):
                bad.append(('read-noise-draw', 'read noise must be one normal(0, read_noise, %d) draw; the generator was asked for loc=%r scale=%r size=%r'
                            % (npix, nc['loc'], nc['scale'][:6], nc['size'])))
                break
            z = [fr(x) for x in nc['z']]
            want = [(q + (dl if st['photon'] else 0)) * fl + sg * zz for q, dl, fl, sg, zz in zip(charge, delta, st['flat'], st['sigma'], z)]
            arr = np.asarray(im, dtype=float)
            gr = getattr(im, 'grid', None)
            scale = max([1.0] + [abs(float(x)) for x in want])
            if arr.shape != (npix,) or gr is None or not on_det_grid(gr, grid):
                bad.append(('readout-grid', 'noisy read-out has shape %r / does not live on the detector grid' % (arr.shape,)))
                break
            if max([abs(float(a) - float(b)) for a, b in zip(arr, want)] + [0.0]) > TOL * scale:
                bad.append(('noise-pipeline-value', 'read-out differs from ((charge + photon deviation) * flat_field + read_noise * z) by %g (photon noise %s)'
                            % (max(abs(float(a) - float(b)) for a, b in zip(arr, want)), 'on' if st['photon'] else 'off')))
                break
            lines.append('C17 readrng %s %s' % ('[' + ','.join(rat(x) for x in delta) + ']', '[' + ','.join(rat(x) for x in z) + ']'))
            checks.append((len(lines) - 1, [float(x) for x in arr], [float(x) for x in charge] if st['photon'] else None, want))
            charge = [Fraction(0)] * npix
        if bad:
            break
    return bad, lines, checks


def rng_repro(case):
    """same seed of the *real* global generator => bit-identical images (every noise source as the case says)"""
    import hcipy
    dims = case['dims']
    grid = hcipy.make_uniform_grid(dims, [d * n for d, n in zip(case['delta'], dims)])
    c = case['ctor']
    runs = []
    state = np.random.get_state()
    try:
        for _ in range(2):
            np.random.seed(case['zseed'] % (2 ** 31))
            det = hcipy.NoisyDetector(grid, dark_current_rate=param_value(c['dark_current_rate'], grid), read_noise=param_value(c['read_noise'], grid),
                                      flat_field=param_value(c['flat_field'], grid), include_photon_noise=param_value(c['include_photon_noise'], grid),
                                      subsampling=sub_arg(case))
            imgs = []
            for op in case['ops']:
                if op[0] == 'set':
                    setattr(det, op[1], param_value(op[2], grid))
                if op[0] in ('int', 'call'):
                    a = np.array(op[2], dtype=float)
                    det.integrate(hcipy.Field(a, det.input_grid) if op[1] == 'field' else a, op[3], op[4])
                if op[0] in ('read', 'call'):
                    imgs.append(np.array(det.read_out(), dtype=float))
            runs.append(imgs)
    except Exception as e:  # noqa
        return [('noisy-history-raises', 'a history on a NoisyDetector with noise sources on raised %s: %s' % (type(e).__name__, str(e)[:100]))]
    finally:
        np.random.set_state(state)
    for k, (a, b) in enumerate(zip(*runs)):
        if a.shape != b.shape or not np.array_equal(a, b, equal_nan=True):
            return [('rng-not-reproducible', 'read-out %d differs between two runs of the same history after np.random.seed(%d)' % (k, case['zseed'] % (2 ** 31)))]
    return []


# ---------------------------------------------------------------------------------------------
# exposures of different tensor shape in the life of one detector (family `polar`): a polarised (Jones-vector)
# wavefront has a power of shape (2, N); its image is the tensor field of the two binned components, the noise-free
# NoisyDetector must agree with the NoiselessDetector on it, and whatever is integrated *afterwards* (scalar light,
# nothing at all) must be read out as if the detector were new.

def gen_polar(rng, big):
    ndim = 1 if rng.random() < 0.2 else 2
    dims = [int(rng.integers(1, 4)) for _ in range(ndim)]
    case = {'fam': 'polar', 'dims': dims, 'delta': [float(rng.choice([0.5, 1.0, 2.0])) for _ in range(ndim)],
            'cls': str(rng.choice(['noiseless', 'noisy-off']))}
    if rng.random() < 0.3:
        case['ss'] = [int(rng.integers(1, 4)) for _ in range(ndim)]
        case['spell'] = 'array'
        case['s'] = max(case['ss'])
    else:
        case['s'] = int(rng.choice([1, 1, 2, 3]))
    nin = int(np.prod([d * f for d, f in zip(dims, factors(case))]))
    ops = []
    for _ in range(int(rng.integers(2, 7))):
        u = rng.random()
        dt, w = dyadic(rng, 0.25, 4, 2), float(rng.choice([1.0, 0.5, 2.0, -1.0]))
        if u < 0.25:
            ops.append(['read'])
        elif u < 0.6:
            ops.append(['pol', [[[dyadic(rng, -2, 2, 2) for _ in range(nin)] for _ in range(2)] for _ in range(2)], dt, w])
        else:
            ops.append(['int', [dyadic(rng, 0, 16, 3) for _ in range(nin)], dt, w])
    if not any(op[0] == 'pol' for op in ops):
        ops.insert(0, ['pol', [[[dyadic(rng, -2, 2, 2) for _ in range(nin)] for _ in range(2)] for _ in range(2)], 1.0, 1.0])
    ops += [['read'], ['read']]
    case['ops'] = ops
    return case


def run_polar(case):
    """returns (bad, model lines, comparisons [(index of the model's read line, real row)])"""
    import hcipy
    bad, lines, cmps = [], [], []
    dims = case['dims']
    npix = int(np.prod(dims))
    grid = hcipy.make_uniform_grid(dims, [d * n for d, n in zip(case['delta'], dims)])
    try:
        if case['cls'] == 'noiseless':
            det = hcipy.NoiselessDetector(grid, sub_arg(case))
        else:
            np.random.seed(12345)
            det = hcipy.NoisyDetector(grid, dark_current_rate=0, read_noise=0, flat_field=0, include_photon_noise=False, subsampling=sub_arg(case))
    except Exception as e:  # noqa
        return [('constructor-raises', 'constructing the %s detector raised %s' % (case['cls'], type(e).__name__))], lines, cmps
    rd = '[' + ','.join(str(d) for d in dims[::-1]) + ']'
    # per tensor component one model detector: rows[c] = pending integrations (power row, dt, w); None = not part of the exposure
    pending = []          # list of (rows (1 or 2 lists of floats), dt, w)
    for k, op in enumerate(case['ops']):
        if op[0] == 'read':
            try:
                im = det.read_out()
            except Exception as e:  # noqa
                key = 'tensor-power-readout-raises' if any(len(r) == 2 for r, _, _ in pending) else 'readout-raises'
                bad.append((key, 'read_out() of a %s detector after %d integrations (%d of a polarised wavefront, power of shape (2, N)) raised %s: %s'
                            % (case['cls'], len(pending), sum(1 for r, _, _ in pending if len(r) == 2), type(e).__name__, str(e)[:100])))
                break
            ncomp = 2 if any(len(r) == 2 for r, _, _ in pending) else 1
            want = []
            for c in range(ncomp):
                acc = [Fraction(0)] * npix
                for rows, dt, w in pending:
                    row = rows[c] if len(rows) == 2 else rows[0]        # scalar light is broadcast over the components
                    b = brute_bins([fr(x) for x in row], dims, factors(case))
                    acc = [a + x * fr(dt) * fr(w) for a, x in zip(acc, b)]
                want.append(acc)
            arr = np.asarray(im, dtype=float)
            gr = getattr(im, 'grid', None)
            shape = (2, npix) if ncomp == 2 else (npix,)
            if arr.shape != shape:
                bad.append(('readout-shape-after-tensor-exposure' if ncomp == 1 else 'readout-shape',
                            'read-out %d has shape %r, expected %r (%d pending integrations; polarised exposures earlier in the life of the detector: %d)'
                            % (k, arr.shape, shape, len(pending), sum(1 for o in case['ops'][:k] if o[0] == 'pol'))))
                break
            if gr is None or not on_det_grid(gr, grid):
                bad.append(('readout-grid', 'read-out %d does not live on the detector grid' % k))
                break
            got = arr.reshape(ncomp, npix)
            scale = max([1.0] + [abs(float(x)) for r in want for x in r])
            if max([abs(float(a) - float(b)) for rg, rw in zip(got, want) for a, b in zip(rg, rw)] + [0.0]) > TOL * scale:
                bad.append(('readout-value', 'read-out %d (tensor components: %d) differs from the sum of power*dt*weight' % (k, ncomp)))
                break
            for c in range(ncomp):
                lines.append('C17 new noiseless %s %s' % (model_sub(case), rd))
                for rows, dt, w in pending:
                    lines.append('C17 int %s %s %s' % (rat_list(rows[c] if len(rows) == 2 else rows[0]), rat(dt), rat(w)))
                lines.append('C17 read')
                cmps.append((len(lines) - 1, [float(x) for x in got[c]]))
            pending = []
        else:
            try:
                if op[0] == 'pol':
                    e = hcipy.Field(np.array([np.array(op[1][0][0]) + 1j * np.array(op[1][0][1]), np.array(op[1][1][0]) + 1j * np.array(op[1][1][1])]), det.input_grid)
                    wf = hcipy.Wavefront(e)
                    p = np.array(wf.power, dtype=float)
                    if p.shape != (2, det.input_grid.size):
                        raise MachineryError('power of a Jones-vector wavefront has shape %r' % (p.shape,))
                    det.integrate(wf, op[2], op[3])
                    pending.append(([p[0].tolist(), p[1].tolist()], op[2], op[3]))
                else:
                    det.integrate(hcipy.Field(np.array(op[1], dtype=float), det.input_grid), op[2], op[3])
                    pending.append(([list(op[1])], op[2], op[3]))
            except MachineryError:
                raise
            except Exception as e:  # noqa
                bad.append(('integrate-raises', 'integrate(%s) raised %s: %s' % ('polarised wavefront' if op[0] == 'pol' else 'scalar power', type(e).__name__, str(e)[:100])))
                break
    return bad, lines, cmps


# ---------------------------------------------------------------------------------------------
# family `reint` (C17-10): one and the same Wavefront object integrated, edited IN PLACE, integrated again.  The expected
# charge is recomputed from the current contents of the object (|E|^2 * grid.weights in Fractions), never from wf.power.

EDIT_KINDS = ['item', 'mask', 'imag', 'buffer', 'weights', 'setgrid', 'imul', 'setfield', 'total_power', 'real', 'slice']
IN_PLACE_EDITS = ('item', 'mask', 'imag', 'buffer', 'weights', 'setgrid', 'real', 'slice')     # do not go through the electric_field setter


def gen_reint(rng, big):
    ndim = 1 if rng.random() < 0.25 else 2
    dims = [int(rng.integers(1, 4)) for _ in range(ndim)]
    case = {'fam': 'reint', 'dims': dims, 'delta': [float(rng.choice([0.5, 1.0, 2.0])) for _ in range(ndim)],
            'cls': str(rng.choice(['noiseless', 'noisy-off'])), 'twin': bool(rng.random() < 0.4)}
    if rng.random() < 0.3:
        case['ss'] = [int(rng.integers(1, 4)) for _ in range(ndim)]
        case['spell'] = 'array'
        case['s'] = max(case['ss'])
    else:
        case['s'] = int(rng.choice([1, 1, 2, 3]))
    nin = int(np.prod([d * f for d, f in zip(dims, factors(case))]))
    nwf = 1 if rng.random() < 0.6 else 2

    def cvals():
        return [[dyadic(rng, -2, 2, 2) for _ in range(nin)] for _ in range(2)]

    def wts():
        return [dyadic(rng, 0.25, 4, 2) for _ in range(nin)]
    case['wfs'] = [{'e': cvals(), 'own': bool(rng.random() < 0.6), 'c64': bool(rng.random() < 0.15),
                    'grid': str(rng.choice(['copy', 'copy', 'input']))} for _ in range(nwf)]

    def edit(j):
        kinds = [k for k in EDIT_KINDS if case['wfs'][j]['grid'] == 'copy' or k not in ('weights', 'setgrid')]
        kind = str(rng.choice(kinds))
        idx = sorted(set(int(i) for i in rng.integers(0, nin, size=int(rng.integers(1, nin + 1)))))
        if kind in ('item', 'buffer'):
            return ['edit', j, kind, idx, [[dyadic(rng, -2, 2, 2) for _ in idx] for _ in range(2)]]
        if kind == 'mask':
            return ['edit', j, kind, idx]
        if kind in ('imag', 'real'):
            return ['edit', j, kind, [dyadic(rng, -2, 2, 2) for _ in range(nin)]]
        if kind == 'slice':
            return ['edit', j, kind, int(rng.integers(0, nin)), [dyadic(rng, -2, 2, 2), dyadic(rng, -2, 2, 2)]]
        if kind in ('weights', 'setgrid'):
            return ['edit', j, kind, wts()]
        if kind == 'imul':
            return ['edit', j, kind, float(rng.choice([0.5, 2.0, -1.0, 1.5, 0.0]))]
        if kind == 'setfield':
            return ['edit', j, kind, cvals()]
        return ['edit', j, kind, dyadic(rng, 0.25, 8, 2)]

    def integ(j):
        return ['int', j, dyadic(rng, 0.25, 4, 2), float(rng.choice([1.0, 1.0, 0.5, 2.0, -1.0]))]

    def some(n):
        out = []
        for _ in range(n):
            j = int(rng.integers(0, nwf))
            u = rng.random()
            out.append(integ(j) if u < 0.4 else (['peek', j] if u < 0.5 else (edit(j) if u < 0.85 else ['read'])))
        return out
    j = int(rng.integers(0, nwf))
    core = [integ(j) if rng.random() < 0.7 else ['peek', j]]
    if rng.random() < 0.25:
        core.append(['read'])
    core += [edit(j) for _ in range(int(rng.integers(1, 3)))] + [integ(j)]
    case['ops'] = some(int(rng.integers(0, 3))) + core + some(int(rng.integers(0, 4))) + [['read'], ['read']]
    return case


def run_reint(case):
    """returns (bad, model lines, comparisons [(index of the model's read line, real image)], counters)"""
    import hcipy
    bad, lines, cmps, cnt = [], [], [], []
    dims = case['dims']
    npix = int(np.prod(dims))
    grid = hcipy.make_uniform_grid(dims, [d * n for d, n in zip(case['delta'], dims)])

    def mkdet(cls):
        if cls == 'noiseless':
            return hcipy.NoiselessDetector(grid, sub_arg(case))
        np.random.seed(12345)
        return hcipy.NoisyDetector(grid, dark_current_rate=0, read_noise=0, flat_field=0, include_photon_noise=False, subsampling=sub_arg(case))
    try:
        dets = [mkdet(case['cls'])] + ([mkdet('noisy-off' if case['cls'] == 'noiseless' else 'noiseless')] if case['twin'] else [])
    except Exception as e:  # noqa
        return [('constructor-raises', 'constructing the %s detector raised %s' % (case['cls'], type(e).__name__))], lines, cmps, cnt
    det = dets[0]
    nin = det.input_grid.size
    rd = '[' + ','.join(str(d) for d in dims[::-1]) + ']'

    def cfield(e, g, c64):
        return hcipy.Field((np.array(e[0]) + 1j * np.array(e[1])).astype(np.complex64 if c64 else np.complex128), g)
    wfs, bufs, state = [], [], []
    own = [w['own'] for w in case['wfs']]
    try:
        for w in case['wfs']:
            g = det.input_grid.copy() if w['grid'] == 'copy' else det.input_grid
            if w['own']:
                buf = cfield(w['e'], g, w['c64'])          # the wavefront wraps this array without copying it
            else:
                buf = hcipy.Field(np.array(w['e'][0], dtype=np.float32 if w['c64'] else float), g)     # real amplitude: the wavefront holds a complex copy
            wfs.append(hcipy.Wavefront(buf))
            bufs.append(buf)
            state.append({'evaluated': False, 'stale': None})
    except Exception as e:  # noqa
        return [('wavefront-raises', 'constructing a Wavefront raised %s: %s' % (type(e).__name__, str(e)[:100]))], lines, cmps, cnt

    def power_now(wf):
        """|E|^2 * weights of the CURRENT contents, exact; independent of wf.power"""
        e = np.array(wf.electric_field).ravel()
        w = np.asarray(wf.electric_field.grid.weights, dtype=float) + np.zeros(e.size)
        if e.size != nin:
            raise MachineryError('wavefront of %d samples on an input grid of %d' % (e.size, nin))
        return [(fr(z.real) ** 2 + fr(z.imag) ** 2) * fr(x) for z, x in zip(e, w)]
    def contents(wf):
        e = np.array(wf.electric_field).ravel()
        w = np.asarray(wf.electric_field.grid.weights, dtype=float) + np.zeros(e.size)
        return rat_list([float(z.real) for z in e]), rat_list([float(z.imag) for z in e]), rat_list([float(x) for x in w])
    # the model is given the CONTENTS of the wavefront objects (ops wcreate / wfield / wweights) and computes |E|^2 * weights itself (`Wf.power`)
    lines.append('C17 new noiseless %s %s' % (model_sub(case), rd))
    for wf in wfs:
        lines.append('C17 wcreate %s %s %s' % contents(wf))
    pending = []      # (power (Fractions), dt, w, label of the edit the wavefront went through since its power was last evaluated)
    for k, op in enumerate(case['ops']):
        try:
            if op[0] == 'read':
                want = [Fraction(0)] * npix
                for pw, dt, w, _ in pending:
                    b = brute_bins(pw, dims, factors(case))
                    want = [a + x * fr(dt) * fr(w) for a, x in zip(want, b)]
                stale = [lab for _, _, _, lab in pending if lab]
                for di, d in enumerate(dets):
                    im = d.read_out()
                    arr = np.asarray(im, dtype=float)
                    gr = getattr(im, 'grid', None)
                    name = type(d).__name__
                    if arr.shape != (npix,):
                        bad.append(('readout-shape', 'read-out %d of the %s has shape %r, expected (%d,)' % (k, name, arr.shape, npix)))
                    elif gr is None or not on_det_grid(gr, grid):
                        bad.append(('readout-grid', 'read-out %d of the %s does not live on the detector grid' % (k, name)))
                    else:
                        scale = max([1.0] + [abs(float(x)) for x in want])
                        err = max([abs(float(a) - float(b)) for a, b in zip(arr, want)] + [0.0])
                        if not err <= TOL * scale:
                            if stale:
                                bad.append(('reintegrated-wavefront-after-in-place-edit',
                                            'read-out %d of the %s differs by %g from sum(|E|^2 * grid.weights * dt * weight) of what the wavefronts held when they were '
                                            'integrated; %d of the %d integrations were of a Wavefront object whose power had been evaluated before and that was then '
                                            'edited in place (%s)' % (k, name, err, len(stale), len(pending), ', '.join(sorted(set(stale))))))
                            else:
                                bad.append(('readout-value', 'read-out %d of the %s differs by %g from sum(|E|^2 * grid.weights * dt * weight) of the integrated wavefronts'
                                            % (k, name, err)))
                    if bad:
                        break
                    if di == 0:
                        lines.append('C17 wread')
                        cmps.append((len(lines) - 1, [float(x) for x in arr]))
                if bad:
                    break
                pending = []
            elif op[0] == 'peek':
                float(wfs[op[1]].total_power)
                state[op[1]] = {'evaluated': True, 'stale': None}
            elif op[0] == 'int':
                j = op[1]
                pw = power_now(wfs[j])
                for d in dets:
                    d.integrate(wfs[j], op[2], op[3])
                pending.append((pw, op[2], op[3], state[j]['stale']))
                lines.append('C17 wint %d %s %s' % (j, rat(op[2]), rat(op[3])))
                cnt.append('reint:integrate:' + ('same-object-after-' + state[j]['stale'] if state[j]['stale']
                                                 else ('same-object-unchanged' if state[j]['evaluated'] else 'first-use')))
                state[j] = {'evaluated': True, 'stale': None}
            else:
                j, kind = op[1], op[2]
                wf = wfs[j]
                if kind == 'item':
                    wf.electric_field[np.array(op[3])] = np.array(op[4][0]) + 1j * np.array(op[4][1])
                elif kind == 'mask':
                    m = np.zeros(nin, dtype=bool)
                    m[np.array(op[3])] = True
                    wf.electric_field[m] = 0
                elif kind == 'imag':
                    wf.electric_field.imag = np.array(op[3])
                elif kind == 'real':
                    wf.electric_field.real[:] = np.array(op[3])
                elif kind == 'slice':
                    wf.electric_field[op[3]:] = complex(op[4][0], op[4][1])
                elif kind == 'buffer':
                    if own[j]:
                        bufs[j][np.array(op[3])] = np.array(op[4][0]) + 1j * np.array(op[4][1])
                    else:
                        bufs[j][np.array(op[3])] = np.array(op[4][0])      # the caller's real array: the wavefront has its own copy
                elif kind == 'weights':
                    wf.grid.weights = np.array(op[3], dtype=float)
                elif kind == 'setgrid':
                    g2 = det.input_grid.copy()
                    g2.weights = np.array(op[3], dtype=float)
                    wf.electric_field.grid = g2
                elif kind == 'imul':
                    wf.electric_field *= op[3]
                elif kind == 'setfield':
                    wf.electric_field = cfield(op[3], wf.grid, case['wfs'][j]['c64'])
                    bufs[j] = wf.electric_field
                    own[j] = True
                else:
                    if sum(power_now(wf)) > 0:
                        wf.total_power = op[3]
                        state[j]['evaluated'] = True
                    else:
                        kind = 'total_power(skipped: dark wavefront)'
                re_, im_, wt_ = contents(wf)
                lines.append('C17 wfield %d %s %s' % (j, re_, im_))
                lines.append('C17 wweights %d %s' % (j, wt_))
                cnt.append('reint:edit:' + kind)
                if kind in IN_PLACE_EDITS and state[j]['evaluated']:
                    state[j]['stale'] = kind if not state[j]['stale'] else state[j]['stale']
                elif kind in ('imul', 'setfield', 'total_power') and state[j]['stale']:
                    pass        # an in-place edit is still not seen by anything but a recomputation
        except MachineryError:
            raise
        except Exception as e:  # noqa
            bad.append(('reint-raises', 'operation %d %r on a re-used wavefront raised %s: %s' % (k, op[:3], type(e).__name__, str(e)[:100])))
            break
    return bad, lines, cmps, cnt


def all_bad(obs):
    return [b for o in obs for b in o['bad']]


# ---------------------------------------------------------------------------------------------

def check_case(ctx, case, lines, index):
    obs, model = run_real(case)
    bad = all_bad(obs)
    if not bad:
        bad = twin_check(case)
    for key, what in bad:
        ctx.violation(key, what, case)
    nread = sum(1 for o in obs if 'got' in o)
    nint = sum(1 for o in obs if 'power' in o and o['status'] == 'ok')
    multi = sum(1 for o in obs if o.get('pending', 0) > 1)
    empty = sum(1 for o in obs if 'got' in o and o.get('pending', 0) == 0)
    ctx.count('kind:' + case['kind'])
    ctx.count('ndim:%d' % len(case['dims']))
    ctx.count('subsampling:%s' % ('per-axis:' + case['spell'] + (':different' if len(set(case['ss'])) > 1 else ':equal') if 'ss' in case else case['s']))
    ctx.count('detector-grid:' + ('separated-non-regular' if 'axes' in case else 'regular'))
    ctx.count('style:' + case['style'])
    ctx.count('readouts', nread)
    ctx.count('integrations', nint)
    ctx.count('readouts_after_several_integrations', multi)
    ctx.count('readouts_with_nothing_integrated', empty)
    ctx.count('readouts_bitwise_exact', sum(1 for o in obs if o.get('exact')))
    if case['kind'] == 'noisy-set':
        ctx.count('setter-readouts:all-off', sum(1 for o in obs if o.get('off')))
        ctx.count('setter-readouts:random(noise on)', sum(1 for o in obs if o.get('random')))
        ctx.count('setter-readouts:deterministic-noise', sum(1 for o in obs if 'got' in o and not o.get('random') and not o.get('off')))
        for prm in PARAMS:
            ctx.count('ctor:%s:%s' % (prm, case['ctor'][prm][0] + ('-off' if is_off(prm, case['ctor'][prm]) else '-on')))
    for op in case['ops']:
        if op[0] == 'set':
            ctx.count('set:%s:%s' % (op[1], op[2][0] + ('-off' if is_off(op[1], op[2]) else '-on')))
        if op[0] in ('int', 'call'):
            ctx.count('input:' + op[1])
        if op[0] in ('scribble', 'reuse'):
            ctx.count('caller-' + op[0])
        if op[0] == 'bad':
            ctx.count('wrong-size-input:' + op[1])
    sig = (case['kind'], tuple(case['dims']), tuple(factors(case)), nread, nint, multi > 0, empty > 0)
    ctx.case({'kind': case['kind'], 'dims': case['dims'], 's': case['s'], 'ops': [op[0] for op in case['ops']]} if nread > 1 else None,
             nontrivial_key=sig if nread >= 1 else None)
    base = len(lines)
    lines += model
    index.append((case, obs, base, len(model)))


def parse_lists(resp):
    if not resp.startswith('ok '):
        return None
    body = resp[3:]
    return [] if body == '-' else [parse_rat_list(c) for c in body.split(';')]


def close_lists(m, got):
    return len(m) == len(got) and all(abs(float(a) - b) <= TOL * max([1.0] + [abs(float(x)) for x in m]) for a, b in zip(m, got))


def compare_history(ctx, out, case, obs, base, nlines):
    """ops `imgs` / `twin`, the last lines of the case"""
    if any(o['bad'] for o in obs):
        return
    reads = [o for o in obs if 'got' in o]
    noisy = case['kind'] != 'noiseless'
    resp = out[base + nlines - (2 if noisy else 1)]
    m = parse_lists(resp)
    want = [o['got'] for o in reads if not o.get('random')]
    ctx.traces_validated += 1
    if m is None or len(m) != len(want) or not all(close_lists(a, b) for a, b in zip(m, want)):
        ctx.disagree('C17 imgs', {'case': case, 'model': resp, 'impl': want})
        return
    if noisy:
        resp = out[base + nlines - 1]
        m = parse_lists(resp)
        ctx.traces_validated += 1
        # the model's noiseless detector on the history without the setters, against the real NoisyDetector wherever every
        # noise source was off for the whole exposure
        if m is None or len(m) != len(reads) or not all(close_lists(a, o['got']) for a, o in zip(m, reads) if o.get('off') and not o.get('random')):
            ctx.disagree('C17 twin', {'case': case, 'model': resp, 'impl': [o['got'] for o in reads]})
        ctx.count('twin-readouts-compared', sum(1 for o in reads if o.get('off') and not o.get('random')))


def compare_model(ctx, out, case, obs, base):
    for o in obs:
        if o['bad']:
            return      # already reported as a violation of the property itself
        if 'model_int_idx' in o:
            ctx.traces_validated += 1
            if out[base + o['model_int_idx']] != 'ok':
                ctx.disagree('C17 int', {'case': case, 'model': out[base + o['model_int_idx']], 'impl': o['status']})
                return
        if 'model_bad_idx' in o:
            ctx.traces_validated += 1
            resp = out[base + o['model_bad_idx']]
            ctx.count('wrong-size:' + ('refused-by-both' if (resp == 'err value' and o['status'].startswith('raises')) else 'differs'))
            if not (resp == 'err value' and o['status'].startswith('raises')):
                ctx.disagree('C17 int wrong-size', {'case': case, 'model': resp, 'impl': o['status']})
                return
        for idx, kind, payload in o.get('rchecks', []):
            resp = out[base + idx]
            ctx.traces_validated += 1
            ctx.count('ref-model:' + kind)
            if kind in ('ok', 'err value'):
                good = resp == kind
            elif kind == 'exact':
                good = resp == payload
            elif kind == 'read':
                m = parse_rat_list(resp[3:]) if resp.startswith('ok [') else None
                good = m is not None and len(m) == len(payload) and all(abs(float(a) - b) <= TOL * max(1.0, abs(float(a))) for a, b in zip(m, payload))
            else:
                real, share = payload
                parts = resp.split(' ')
                good = len(parts) == 3 and parts[0] == 'ok'
                if good:
                    refs = [int(x) for x in parts[1][1:-1].split(',')] if parts[1] != '[]' else []
                    conts = [] if parts[2] == '-' else [parse_rat_list(c) for c in parts[2].split(';')]
                    good = len(refs) == len(real) == len(conts)
                    if good:
                        # arrays the caller holds: same contents now, and two of them share memory iff the model says they are the same array
                        for h, (mc, rc) in enumerate(zip(conts, real)):
                            if rc is not None and (len(mc) != len(rc) or any(abs(float(a) - b) > TOL * max(1.0, abs(float(a))) for a, b in zip(mc, rc))):
                                good = False
                        mshare = [(a, b) for a in range(len(refs)) for b in range(a + 1, len(refs))
                                  if refs[a] == refs[b] and real[a] is not None and real[b] is not None]
                        if mshare != [tuple(x) for x in share]:
                            good = False
            if not good:
                ctx.disagree('C17 ref-model ' + kind, {'case': case, 'model': resp, 'impl': payload})
                return
        if 'model_idx' in o and 'got' in o:
            ctx.traces_validated += 1
            resp = out[base + o['model_idx']]
            if case['kind'] != 'noiseless':
                # the noisy model also prints its "every noise source is off" flag (PSt.off): compare with the
                # harness' own account of the parameters the real object has been given
                resp, _, flag = resp.rpartition(' ')
                if flag not in ('off', 'on'):
                    raise MachineryError('noisy read-out without flag: %r' % out[base + o['model_idx']])
                ctx.count('off-flag:%s' % flag)
                if (flag == 'off') != bool(o.get('off')):
                    ctx.disagree('C17 off-flag', {'case': case, 'model': flag, 'impl_off': o.get('off')})
                    return
            if o.get('random') or resp == 'ok random':
                if not (o.get('random') and resp == 'ok random'):
                    ctx.disagree('C17 read', {'case': case, 'model': resp, 'impl_random': o.get('random')})
                    return
                continue
            if not resp.startswith('ok ['):
                ctx.disagree('C17 read', {'case': case, 'model': resp, 'impl': o['status']})
                return
            m = parse_rat_list(resp[3:])
            got = o['got']
            scale = max([1.0] + [abs(float(x)) for x in m])
            if got is None or len(m) != len(got) or any(abs(float(a) - b) > TOL * scale for a, b in zip(m, got)):
                ctx.disagree('C17 read', {'case': case, 'model': resp, 'impl': got})
                return
            if m != o['want']:
                raise MachineryError('Lean model and the Python reference disagree on %r: %s vs %s' % (case, resp, o['want']))


def run(ctx):
    ctx.rule = ('histories of integrate / read_out / __call__ on NoiselessDetector and NoisyDetector (all noise off, or '
                'deterministic dark current + flat-field map) over regular 1-, 2- and 3-D detector grids with subsampling 1-4 and (12%) '
                'separated non-regular detector grids with subsampling 1; '
                'power given as Field, Wavefront, plain ndarray, list, integer or boolean Field; dt and weight dyadic (also Python '
                'ints); the caller also overwrites images it got back and buffers it passed in. Every read-out is compared '
                'with an exact Fraction reference (brute-force binning), with the Lean model, with the twin detector kind, for '
                'its grid, and all earlier images / inputs are re-read after every operation. Non-trivial = at least one '
                'read-out; distinct by (kind, dims, subsampling, #read-outs, #integrations, multi-integration seen, empty read-out seen).')
    ctx.assumptions += ['NumPy elementwise arithmetic and reshape/sum follow their specification',
                        'wavefront.power is taken from the real object (how power derives from the field is not part of C17)',
                        'a power array of the wrong size must be refused (any exception) and leave the detector unchanged; '
                        'arrays with the right number of samples but another shape (e.g. 2-D) are not sent']
    n = ctx.scale(2500, 40000)
    cases = list(DIRECTED)
    for k in range(n):
        cases.append(gen_case(ctx.rng, big=(ctx.tier == 'thorough' and k % 4 == 0)))
    lines, index = [], []
    for case in cases:
        check_case(ctx, case, lines, index)
    pa = []
    for k in range(ctx.scale(200, 2000)):
        case = gen_per_axis(ctx.rng, big=(ctx.tier == 'thorough' and k % 4 == 0))
        bad, plines, cmps = run_per_axis(case)
        for key, what in bad:
            ctx.violation(key, what, case)
        ctx.count('per-axis:%s' % case['cls'])
        ctx.count('per-axis:spelling:' + case['spell'])
        ctx.count('per-axis:' + ('different-factors' if len(set(case['ss'])) > 1 else 'equal-factors'))
        ctx.case(None, nontrivial_key=('per-axis', tuple(case['dims']), tuple(case['ss']), case['cls'], len(case['ints'])))
        if not bad:
            pa.append((case, len(lines), cmps))
            lines += plines
    rg = []
    for k in range(ctx.scale(300, 4000)):
        case = gen_rng_case(ctx.rng, big=(ctx.tier == 'thorough' and k % 4 == 0))
        bad, rlines, checks = run_rng_case(case)
        if not bad:
            bad = rng_repro(case)
        for key, what in bad:
            ctx.violation(key, what, case)
        nr = sum(1 for op in case['ops'] if op[0] in ('read', 'call'))
        ctx.count('rng:cases')
        ctx.count('rng:readouts', nr)
        ctx.count('rng:readouts-photon-noise-on', sum(1 for c_ in checks if c_[2] is not None))
        ctx.count('rng:subsampling:' + ('per-axis' if 'ss' in case else str(case['s'])))
        for prm in PARAMS:
            ctx.count('rng:ctor:%s:%s' % (prm, case['ctor'][prm][0] + ('-off' if is_off(prm, case['ctor'][prm]) else '-on')))
        ctx.count('rng:setters', sum(1 for op in case['ops'] if op[0] == 'set'))
        ctx.case(None, nontrivial_key=('rng', tuple(case['dims']), tuple(factors(case)), nr, tuple(is_off(p_, case['ctor'][p_]) for p_ in PARAMS)))
        if not bad:
            rg.append((case, len(lines), checks))
            lines += rlines
    pol = []
    for k in range(ctx.scale(150, 2000)):
        case = gen_polar(ctx.rng, big=False)
        bad, plines, cmps = run_polar(case)
        for key, what in bad:
            ctx.violation(key, what, case)
        ctx.count('polar:' + case['cls'])
        ctx.count('polar:subsampling:' + ('per-axis' if 'ss' in case else str(case['s'])))
        ctx.count('polar:polarised-exposures', sum(1 for op in case['ops'] if op[0] == 'pol'))
        ctx.count('polar:scalar-exposures-after-a-polarised-one', sum(1 for i, op in enumerate(case['ops']) if op[0] == 'int' and any(o[0] == 'pol' for o in case['ops'][:i])))
        ctx.case(None, nontrivial_key=('polar', tuple(case['dims']), tuple(factors(case)), case['cls'], tuple(op[0] for op in case['ops'])))
        if not bad:
            pol.append((case, len(lines), cmps))
            lines += plines
    ri = []
    for k in range(ctx.scale(250, 3000)):
        case = gen_reint(ctx.rng, big=False)
        bad, plines, cmps, cnt = run_reint(case)
        for key, what in bad:
            ctx.violation(key, what, case)
        for c_ in cnt:
            ctx.count(c_)
        ctx.count('reint:' + case['cls'] + ('+twin' if case['twin'] else ''))
        ctx.count('reint:wavefront-objects:%d' % len(case['wfs']))
        ctx.case(None, nontrivial_key=('reint', tuple(case['dims']), tuple(factors(case)), case['cls'], tuple(tuple(op[:3]) if op[0] == 'edit' else op[0] for op in case['ops'])))
        if not bad:
            ri.append((case, len(lines), cmps))
            lines += plines
    out = ctx.model(lines)
    for case, base, cmps in ri:
        for idx, got in cmps:
            ctx.traces_validated += 1
            resp = out[base + idx]
            m = parse_rat_list(resp[3:]) if resp.startswith('ok [') else None
            if m is None or not close_lists(m, got):
                ctx.disagree('C17 reint read', {'case': case, 'model': resp, 'impl': got})
                break
            ctx.count('reint:readouts-compared-with-model-wread')
    for case, base, cmps in pol:
        for idx, got in cmps:
            ctx.traces_validated += 1
            resp = out[base + idx]
            m = parse_rat_list(resp[3:]) if resp.startswith('ok [') else None
            if m is None or not close_lists(m, got):
                ctx.disagree('C17 polar component', {'case': case, 'model': resp, 'impl': got})
                break
    for case, base, checks in rg:
        for idx, img, lam, want in checks:
            ctx.traces_validated += 1
            resp = out[base + idx].split(' ')
            good = len(resp) == 4 and resp[0] == 'ok'
            if good and resp[3] != '-':
                # the closed form of the accumulated charge (spec side of `noisy_charge_is_sum_plus_dark`) against what the real
                # code handed to its Poisson stage
                ctx.count('rng:closed-form-charge-compared' + ('' if lam is not None else ':photon-off(skipped)'))
                if lam is not None:
                    sp = parse_rat_list(resp[3])
                    good = len(sp) == len(lam) and all(abs(float(a) - b) <= TOL * max(1.0, abs(float(a))) for a, b in zip(sp, lam))
            if good:
                m = parse_rat_list(resp[1])
                good = m == want and len(m) == len(img) and all(abs(float(a) - b) <= TOL * max(1.0, abs(float(a))) for a, b in zip(m, img))
                if good and (lam is None) != (resp[2] == '-'):
                    good = False
                if good and lam is not None:
                    ml = parse_rat_list(resp[2])
                    good = len(ml) == len(lam) and all(abs(float(a) - b) <= TOL * max(1.0, abs(float(a))) for a, b in zip(ml, lam))
            if not good:
                ctx.disagree('C17 readrng', {'case': case, 'model': out[base + idx], 'impl': img, 'lam': lam})
                break
    for case, obs, base, nlines in index:
        compare_model(ctx, out, case, obs, base)
        compare_history(ctx, out, case, obs, base, nlines)
    for case, base, cmps in pa:
        # the images of single integrations (dt = weight = 1) against the per-axis binning model `binNDs` (C18 op `bins`)
        for k, got in enumerate(cmps):
            ctx.traces_validated += 1
            resp = out[base + k]
            m = parse_rat_list(resp[3:]) if resp.startswith('ok [') else None
            if m is None or len(m) != len(got) or any(abs(float(a) - b) > TOL * max(1.0, abs(float(a))) for a, b in zip(m, got)):
                ctx.disagree('C17 per-axis bins', {'case': case, 'model': resp, 'impl': got})
                break


def replay(ctx, case):
    if case.get('fam') == 'reint':
        bad = run_reint(case)[0]
        for key, what in bad:
            print('  fails:', key, '-', what)
        return not bad
    if case.get('fam') == 'polar':
        bad = run_polar(case)[0]
        for key, what in bad:
            print('  fails:', key, '-', what)
        return not bad
    if case.get('fam') == 'rng':
        bad = run_rng_case(case)[0] or rng_repro(case)
        for key, what in bad:
            print('  fails:', key, '-', what)
        return not bad
    if case.get('fam') == 'per-axis':
        bad = run_per_axis(case)[0]
        for key, what in bad:
            print('  fails:', key, '-', what)
        return not bad
    obs, _ = run_real(case)
    bad = all_bad(obs)
    if not bad:
        bad = twin_check(case)
    for key, what in bad:
        print('  fails:', key, '-', what)
    return not bad
