"""C18 — interpolation and binning: correspondence with the Lean models + direct oracle.

Case families (field `fam` of a case):

  sep   linear + nearest interpolators on regular / separated source grids (1-3 D, non-square,
        irregular knots), evaluated on unstructured / separated / regular evaluation grids
  uns   the same on scattered (unstructured) 2-D source grids
  bin   subsample_field, statistic sum / mean, scalar and tensor fields, regular and separated grids
  ss    evaluate_supersampled of affine / quadratic generators on regular and separated grids

The oracle evaluates the clauses of the property on what the real code returns, with exact
Fraction references that do not involve the Lean model (affine function evaluated directly,
brute-force closest point, brute-force index loops for the bins).
"""
import itertools
import warnings

import numpy as np

from harness.common import rat, rat_list, rat_lists, Fraction, dyadic, MachineryError

TOL = 1e-9
warnings.filterwarnings('ignore', message='No automatic weights')


def fr(x):
    return Fraction(*float(x).as_integer_ratio())


def frl(xs):
    return [fr(x) for x in xs]


# ---------------------------------------------------------------------------------------------
# generation helpers

def gen_knots(rng, n, bits=3):
    """strictly increasing dyadic knots"""
    x = dyadic(rng, -4, 4, bits)
    out = [x]
    for _ in range(n - 1):
        x = x + float(rng.integers(1, 17)) / float(1 << bits)
        out.append(x)
    return out


def gen_axes(rng, big):
    r = rng.random()
    ndim = 1 if r < 0.15 else (3 if r > 0.9 else 2)
    hi = (7 if big else 5) if ndim < 3 else 3
    regular = bool(rng.random() < 0.3)
    axes = []
    for _ in range(ndim):
        n = int(rng.integers(2, hi + 1))
        if regular:
            d = float(rng.choice([0.25, 0.5, 1.0, 1.5, 2.0]))
            z = dyadic(rng, -3, 3, 2)
            axes.append([z + d * i for i in range(n)])
        else:
            axes.append(gen_knots(rng, n))
    if ndim == 2 and rng.random() < 0.25:
        # square grid with *different* axes (the silent-error class of D11)
        n = len(axes[0])
        axes[1] = gen_knots(rng, n)
        regular = False
    # per-axis monotonic direction is an input dimension: all ascending, all descending (Chebyshev-like,
    # reversed(), scaled(-1)) or an independent coin per axis (mixed directions, scaled([1, -2]))
    u = rng.random()
    if u < 0.3:
        down = [False] * ndim
    elif u < 0.45:
        down = [True] * ndim
    else:
        down = [bool(rng.random() < 0.5) for _ in range(ndim)]
    axes = [a[::-1] if d else a for a, d in zip(axes, down)]
    return regular, axes


def dirs_of(axes):
    return ''.join('d' if (len(a) > 1 and a[0] > a[-1]) else 'u' for a in axes)


def pick_via(rng, axes):
    """how the source grid object is built: directly from its coordinates, or from an all-ascending grid through
    scaled(per-axis signed factors) / reversed()"""
    d = dirs_of(axes)
    u = rng.random()
    if u < 0.5:
        return ['direct']
    if u < 0.65 and set(d) == {'d'}:
        return ['reversed']
    f = [float(rng.choice([1.0, 2.0, 0.5])) * (-1.0 if c == 'd' else 1.0) for c in d]
    if len(set(f)) == 1 and rng.random() < 0.5:
        return ['scaled-scalar', f[0]]
    return ['scaled', f]


def affine_coeffs(rng, ndim):
    return dyadic(rng, -4, 4, 2), [dyadic(rng, -3, 3, 2) for _ in range(ndim)]


def gen_sep(rng, big):
    regular, axes = gen_axes(rng, big)
    ndim = len(axes)
    npts = int(np.prod([len(a) for a in axes]))
    affine = bool(rng.random() < 0.6)
    case = {'fam': 'sep', 'regular': regular, 'axes': axes}
    if affine:
        c0, c = affine_coeffs(rng, ndim)
        case['affine'] = [c0, c]
    else:
        case['vals'] = [dyadic(rng, -8, 8, 3) for _ in range(npts)]
    ek = str(rng.choice(['points', 'points', 'self', 'separated', 'regular']))
    case['eval_kind'] = ek
    if ek == 'points':
        m = int(rng.integers(1, 9))
        pts = []
        for _ in range(m):
            p = []
            for ax0 in axes:
                ax = sorted(ax0)
                u = rng.random()
                if u < 0.15:
                    p.append(float(rng.choice(ax)))                      # on a knot
                elif u < 0.25:
                    i = int(rng.integers(0, len(ax) - 1))
                    p.append((ax[i] + ax[i + 1]) / 2)                    # a midpoint (nearest: tie)
                elif u < 0.32:
                    p.append(float(rng.choice([ax[0] - dyadic(rng, 0.125, 2, 3), ax[-1] + dyadic(rng, 0.125, 2, 3)])))  # outside
                else:
                    p.append(dyadic(rng, ax[0], ax[-1], 6))
            pts.append(p)
        case['pts'] = pts
    elif ek == 'separated':
        case['eaxes'] = [sorted(set(dyadic(rng, min(ax), max(ax), 5) for _ in range(int(rng.integers(1, 4)))), reverse=bool(rng.random() < 0.4)) for ax in axes]
    elif ek == 'regular':
        ea = []
        for ax0 in axes:
            ax = sorted(ax0)
            n = int(rng.integers(1, 4))
            d = (ax[-1] - ax[0]) / 8.0
            z = ax[0] + d * int(rng.integers(0, 3))
            e = [z + d * i for i in range(n)]
            ea.append(e[::-1] if rng.random() < 0.4 else e)
        case['eaxes'] = ea
    case['route'] = str(rng.choice(['dispatch', 'separated-default', 'separated-fill0']))
    case['via'] = pick_via(rng, axes)
    return case


CLOUD_STYLES = ['scattered', 'scattered', 'scattered', 'lattice', 'lattice', 'lattice', 'partial-lattice',
                'lines', 'shared-coords', 'collinear', 'scattered3d', 'scattered3d']
LATTICE_ORDERS = ['native', 'y-fastest', 'rows-reversed', 'columns-reversed', 'both-reversed', 'shuffled', 'y-fastest-reversed']


def _rank2(pts):
    a = np.array(pts, dtype=float)
    return len(pts) >= 3 and np.linalg.matrix_rank(a[1:] - a[0]) == 2


def gen_cloud(rng, big, style):
    """Point clouds stored as UNSTRUCTURED grids.  Besides generic scattered points: full lattices in every storage
    order, lattices with holes, points on a few lines, points sharing coordinates per axis, fully collinear clouds."""
    info = {}
    if style == 'scattered3d':
        # 3-D scattered cloud (LinearNDInterpolator / Delaunay in 3-D: tetrahedra), some points sharing coordinates
        n = int(rng.integers(5, 15 if big else 11))
        while True:
            pts = sorted(set((dyadic(rng, -2, 2, 2), dyadic(rng, -2, 2, 2), dyadic(rng, -2, 2, 1)) for _ in range(n)))
            pts = [list(q) for q in pts]
            a = np.array(pts, dtype=float)
            if len(pts) >= 5 and np.linalg.matrix_rank(a[1:] - a[0]) == 3:
                break
        rng.shuffle(pts)
        return [list(map(float, q)) for q in pts], info
    if style == 'scattered':
        n = int(rng.integers(4, 25 if big else 13))
        while True:
            pts = sorted(set((dyadic(rng, -4, 4, 3), dyadic(rng, -4, 4, 3)) for _ in range(n)))
            pts = [list(q) for q in pts]
            if _rank2(pts):
                break
        rng.shuffle(pts)
    elif style in ('lattice', 'partial-lattice'):
        hi = 6 if big else 5
        nx, ny = int(rng.integers(2, hi + 1)), int(rng.integers(2, hi + 1))
        if rng.random() < 0.5:
            dx, dy = float(rng.choice([0.5, 1.0, 1.5])), float(rng.choice([0.5, 1.0, 1.25]))
            x0, y0 = dyadic(rng, -3, 3, 2), dyadic(rng, -3, 3, 2)
            xs, ys = [x0 + dx * i for i in range(nx)], [y0 + dy * i for i in range(ny)]
        else:
            xs, ys = gen_knots(rng, nx), gen_knots(rng, ny)
        order = str(rng.choice(LATTICE_ORDERS))
        info['order'] = order
        info['lattice_dims'] = [nx, ny]
        rows = [[[x, y] for x in xs] for y in ys]                  # native: x fastest, both ascending
        if order == 'native':
            pts = [q for r in rows for q in r]
        elif order == 'y-fastest':
            pts = [[x, y] for x in xs for y in ys]
        elif order == 'y-fastest-reversed':
            pts = [[x, y] for x in xs[::-1] for y in ys]
        elif order == 'rows-reversed':
            pts = [q for r in rows[::-1] for q in r]
        elif order == 'columns-reversed':
            pts = [q for r in rows for q in r[::-1]]
        elif order == 'both-reversed':
            pts = [q for r in rows[::-1] for q in r[::-1]]
        else:
            pts = [q for r in rows for q in r]
            rng.shuffle(pts)
        if style == 'partial-lattice':
            for _ in range(20):
                k = int(rng.integers(1, max(2, len(pts) // 3)))
                drop = set(int(t) for t in rng.choice(len(pts), size=k, replace=False))
                cand = [q for i, q in enumerate(pts) if i not in drop]
                if _rank2(cand) and len(cand) >= 4:
                    pts = cand
                    break
    elif style == 'lines':
        # collinear subsets: a horizontal, a vertical and a diagonal run of points (+ a few free ones)
        while True:
            pts = set()
            x0, y0 = dyadic(rng, -2, 2, 2), dyadic(rng, -2, 2, 2)
            for i in range(int(rng.integers(2, 6))):
                pts.add((x0 + 0.5 * i, y0))
            for i in range(int(rng.integers(2, 6))):
                pts.add((x0, y0 + 0.75 * i))
            if rng.random() < 0.6:
                for i in range(int(rng.integers(2, 5))):
                    pts.add((x0 + 0.5 * i, y0 + 0.5 * i))
            for _ in range(int(rng.integers(0, 3))):
                pts.add((dyadic(rng, -3, 3, 3), dyadic(rng, -3, 3, 3)))
            pts = [list(q) for q in sorted(pts)]
            if _rank2(pts):
                break
        rng.shuffle(pts)
    elif style == 'shared-coords':
        # every coordinate value is shared by several points, but the cloud is not a full lattice
        while True:
            xs = gen_knots(rng, int(rng.integers(2, 5)))
            ys = gen_knots(rng, int(rng.integers(2, 5)))
            n = int(rng.integers(4, 2 + len(xs) * len(ys)))
            pts = sorted(set((float(rng.choice(xs)), float(rng.choice(ys))) for _ in range(n)))
            pts = [list(q) for q in pts]
            if _rank2(pts):
                break
        rng.shuffle(pts)
    else:   # collinear: no triangulation exists, only the nearest interpolator is defined
        n = int(rng.integers(2, 8))
        x0, y0 = dyadic(rng, -2, 2, 2), dyadic(rng, -2, 2, 2)
        ux, uy = [(1.0, 0.0), (0.0, 1.0), (0.5, 0.5), (1.0, -0.5), (0.25, 0.75)][int(rng.integers(0, 5))]
        ts = sorted(set(int(t) for t in rng.integers(-6, 7, n)))
        if len(ts) < 2:
            ts = [0, 3]
        pts = [[x0 + ux * t, y0 + uy * t] for t in ts]
        rng.shuffle(pts)
    return [list(map(float, q)) for q in pts], info


def gen_uns(rng, big):
    style = str(rng.choice(CLOUD_STYLES))
    pts, info = gen_cloud(rng, big, style)
    affine = bool(rng.random() < 0.6)
    nd = len(pts[0])
    case = {'fam': 'uns', 'pts_src': pts, 'cloud': style}
    case.update(info)
    if affine:
        c0, c = affine_coeffs(rng, nd)
        case['affine'] = [c0, c]
    else:
        case['vals'] = [dyadic(rng, -8, 8, 3) for _ in range(len(pts))]
    ev = []
    if rng.random() < (0.2 if style == 'scattered' else 0.4):
        case['eval_self'] = True             # evaluate on the source grid itself (every sample point)
        ev = [list(q) for q in pts]
    else:
        m = int(rng.integers(1, 9))
        for _ in range(m):
            u = rng.random()
            if u < 0.2:
                ev.append(list(pts[int(rng.integers(0, len(pts)))]))          # a sample point
            elif u < 0.85:
                # a convex combination of nd+1 sample points with weights k/8 >= 0 (zeros: faces, edges, vertices)
                idx = [int(t) for t in rng.integers(0, len(pts), nd + 1)]
                w, left = [], 8
                for _ in range(nd):
                    w.append(int(rng.integers(0, left + 1)))
                    left -= w[-1]
                w.append(left)
                ev.append([sum(wk * pts[i][t] for wk, i in zip(w, idx)) / 8.0 for t in range(nd)])
            else:
                ev.append([dyadic(rng, -5, 5, 3) for _ in range(nd)])     # anywhere (maybe outside the hull)
    case['pts'] = ev
    if style == 'scattered3d':
        case['route'] = str(rng.choice(['dispatch', 'dispatch-fill0', 'unstructured-default', 'unstructured-fill0']))
    elif style == 'scattered':
        case['route'] = str(rng.choice(['dispatch', 'unstructured-default', 'unstructured-fill0']))
    else:
        # structured / degenerate clouds always go through the public dispatching front ends
        case['route'] = str(rng.choice(['dispatch', 'dispatch', 'dispatch-fill0', 'dispatch-grid-arg', 'unstructured-default']))
    return case


TENSOR_SHAPES = [[], [], [2], [3], [2, 2]]
# physical scale of the coordinates of the grid a field is binned on / supersampled on: exact powers of two from
# 2^-30 (~1e-9: radians in a focal plane) to 2^30 (~1e9), so that coordinates, spacings and weights stay exact
COORD_SCALES = [1.0] * 5 + [2.0 ** k for k in (-30, -27, -24, -20, -17, -14, -10, -7, 7, 10, 20, 30)]


def scale_label(S):
    import math
    return '2^%d' % int(round(math.log2(S)))


def gen_bins(rng, big):
    """per-axis binning factors given as an array / list (documented for subsample_field and make_subsampled_grid)"""
    r = rng.random()
    ndim = 1 if r < 0.2 else (3 if r > 0.85 else 2)
    hi = (4 if big else 3) if ndim < 3 else 2
    dims = [int(rng.integers(1, hi + 1)) for _ in range(ndim)]            # coarse dims, (x, y, ..)
    ss = [int(rng.integers(1, 4)) for _ in range(ndim)]                   # factors, (x, y, ..)
    spell = str(rng.choice(['array', 'array', 'list', 'float-array']))
    if rng.random() < 0.25:
        ss = [ss[0]] * ndim
        spell = str(rng.choice(['array', 'list', 'array1', 'list1']))
    nfine = int(np.prod([d * f for d, f in zip(dims, ss)]))
    case = {'fam': 'bin', 'dims': dims, 'ss': ss, 'spell': spell, 'stat': str(rng.choice(['sum', 'mean'])),
            'delta': [float(rng.choice([0.25, 0.5, 1.0, 2.0])) * (-1.0 if rng.random() < 0.3 else 1.0) for _ in range(ndim)],
            'vals': [dyadic(rng, -8, 8, 3) for _ in range(nfine)], 'give_grid': bool(rng.random() < 0.5),
            'S': float(rng.choice(COORD_SCALES))}
    if rng.random() < 0.4 and all(d * f >= 2 for d, f in zip(dims, ss)):
        # per-axis factors on a non-regular (irregularly spaced separated) grid: weighted mean, new_grid mandatory
        case['axes'] = [(lambda k: k[::-1] if rng.random() < 0.4 else k)(gen_knots(rng, d * f, 2)) for d, f in zip(dims, ss)]
        case['give_grid'] = True
        case['stat'] = str(rng.choice(['mean', 'mean', 'sum']))
    return case


def gen_bin(rng, big):
    if rng.random() < 0.2:
        return gen_bins(rng, big)
    r = rng.random()
    ndim = 1 if r < 0.15 else (3 if r > 0.88 else 2)
    s = int(rng.choice([1, 2, 2, 3, 4])) if ndim < 3 else int(rng.choice([1, 2]))
    hi = (5 if big else 3) if ndim < 3 else 2
    dims = [int(rng.integers(1, hi + 1)) for _ in range(ndim)]            # coarse dims, (x, y, ..)
    tshape = TENSOR_SHAPES[int(rng.integers(0, len(TENSOR_SHAPES)))]
    nfine = int(np.prod(dims)) * s ** ndim
    ncomp = int(np.prod(tshape)) if tshape else 1
    regular = bool(rng.random() < 0.7)
    case = {'fam': 'bin', 'dims': dims, 's': s, 'tshape': tshape, 'regular': regular,
            'stat': str(rng.choice(['sum', 'mean'])),
            'vals': [dyadic(rng, -8, 8, 3) for _ in range(ncomp * nfine)],
            'give_grid': bool(rng.random() < 0.5) or not regular, 'S': float(rng.choice(COORD_SCALES))}
    if regular:
        case['delta'] = [float(rng.choice([0.25, 0.5, 1.0, 2.0])) * (-1.0 if rng.random() < 0.4 else 1.0) for _ in range(ndim)]
    else:
        case['axes'] = [(lambda k: k[::-1] if rng.random() < 0.4 else k)(gen_knots(rng, d * s, 2)) for d in dims]
        if any(len(a) < 2 for a in case['axes']):
            case['regular'] = True
            case['delta'] = [1.0] * ndim
            del case['axes']
    return case


def gen_ss(rng, big):
    regular, axes = gen_axes(rng, big)
    ndim = len(axes)
    c0, c = affine_coeffs(rng, ndim)
    quad = [0.0] * ndim if rng.random() < 0.6 else [dyadic(rng, -2, 2, 1) for _ in range(ndim)]
    ns = [int(rng.integers(1, 5)) for _ in range(ndim)]
    scalar_n = bool(rng.random() < 0.5)
    if scalar_n:
        ns = [ns[0]] * ndim
    S = float(rng.choice(COORD_SCALES))
    if S != 1.0:
        # the same grid and the same function in another unit of length (exact: S is a power of two)
        axes = [[x * S for x in a] for a in axes]
        c = [ck / S for ck in c]
        quad = [qk / (S * S) for qk in quad]
    return {'fam': 'ss', 'via': pick_via(rng, axes), 'regular': regular, 'axes': axes, 'c0': c0, 'c': c, 'q': quad, 'ns': ns, 'scalar_n': scalar_n,
            'stat': str(rng.choice(['mean', 'mean', 'sum'])), 'S': S}


# ---------------------------------------------------------------------------------------------
# real code

def make_grid(axes, regular, via=None):
    import hcipy
    if via and via[0] != 'direct':
        if via[0] == 'reversed':
            return make_grid([a[::-1] for a in axes], regular).reversed()
        f = via[1] if via[0] == 'scaled' else [via[1]] * len(axes)
        base = make_grid([[x / fk for x in a] for a, fk in zip(axes, f)], regular)
        return base.scaled(via[1] if via[0] == 'scaled-scalar' else np.array(f))
    if regular:
        dims = [len(a) for a in axes]
        delta = [(a[1] - a[0]) if len(a) > 1 else 1.0 for a in axes]
        zero = [a[0] for a in axes]
        return hcipy.CartesianGrid(hcipy.RegularCoords(delta, dims, zero))
    return hcipy.CartesianGrid(hcipy.SeparatedCoords([np.array(a, dtype=float) for a in axes]))


def grid_points(axes):
    """hcipy order: x fastest"""
    return [list(p[::-1]) for p in itertools.product(*[a for a in axes[::-1]])]


def aff(c0, c, p):
    return fr(c0) + sum(fr(a) * fr(b) for a, b in zip(c, p))


def status_of(e):
    n = type(e).__name__
    return {'ValueError': 'value', 'TypeError': 'type', 'IndexError': 'index', 'AttributeError': 'attribute'}.get(n, 'other:' + n)


def to_list(res):
    return [float(x) for x in np.asarray(res).ravel()]


def cmp_vals(got, want, scale=None):
    """want: list of Fraction or None (= NaN expected). Returns max abs error or None if shape/NaN pattern differs."""
    if len(got) != len(want):
        return None
    sc = max([1.0] + [abs(float(w)) for w in want if w is not None]) if scale is None else scale
    err = 0.0
    for g, w in zip(got, want):
        if w is None:
            if g == g:
                return None
        else:
            if g != g:
                return None
            err = max(err, abs(g - float(w)) / sc)
    return err


def run_sep(case):
    import hcipy
    bad, lines, cmps = [], [], []
    axes = case['axes']
    ndim = len(axes)
    grid = make_grid(axes, case['regular'], case.get('via'))
    real_axes = [[float(v) for v in c] for c in grid.separated_coords]
    axes_as_requested = (real_axes == [[float(v) for v in a] for a in axes])
    axes = real_axes       # the coordinates the grid object really has are the truth for oracle and model
    src = grid_points(axes)
    if 'affine' in case:
        c0, c = case['affine']
        vals = [float(aff(c0, c, p)) for p in src]
    else:
        vals = case['vals']
    field = hcipy.Field(np.array(vals, dtype=float), grid)
    ek = case['eval_kind']
    if ek == 'self':
        egrid, pts = grid, src
    elif ek == 'points':
        pts = case['pts']
        egrid = hcipy.CartesianGrid(hcipy.UnstructuredCoords([np.array([p[k] for p in pts], dtype=float) for k in range(ndim)]))
    else:
        pts = grid_points(case['eaxes'])
        egrid = make_grid(case['eaxes'], ek == 'regular' and all(len(a) > 1 for a in case['eaxes']))
    square = len(set(len(a) for a in axes)) == 1
    cls = 'nonsquare' if not square else ('square-different-axes' if any(a != axes[0] for a in axes) else 'square-same-axes')
    inside = [all(min(ax) <= x <= max(ax) for ax, x in zip(axes, p)) for p in pts]
    route = case['route']
    # ---- linear
    try:
        if route == 'dispatch':
            interp = hcipy.make_linear_interpolator(field)            # fill None: extrapolation
            mode = 'ext'
        elif route == 'separated-default':
            interp = hcipy.make_linear_interpolator_separated(field)  # fill NaN
            mode = 'fill'
        else:
            interp = hcipy.make_linear_interpolator_separated(np.array(vals, dtype=float), grid, 0)
            mode = 'fill0'
        res = interp(egrid)
        got = to_list(res)
        if getattr(res, 'grid', None) is not egrid or len(got) != len(pts):
            bad.append(('separated-linear', 'result of the linear interpolator is not a Field of the evaluation grid (%d values for %d points)' % (len(got), len(pts))))
            got = None
    except Exception as e:  # noqa
        bad.append(('separated-linear', 'linear interpolator on a %s separated grid raised %s: %s' % (cls, type(e).__name__, str(e)[:100])))
        got = None
    if got is not None:
        if 'affine' in case:
            worst = 0.0
            for g, p, ins in zip(got, pts, inside):
                if ins or mode == 'ext':
                    w = aff(c0, c, p)
                    if not abs(g - float(w)) <= TOL * max(1.0, abs(float(w))):
                        worst = max(worst, abs(g - float(w)) if g == g else float('inf'))
            if worst > 0:
                bad.append(('separated-linear', 'affine field on a %s separated grid not reproduced by the linear interpolator (error %g)' % (cls, worst)))
        if ek == 'self':
            err = cmp_vals(got, frl(vals))
            if err is None or err > TOL:
                bad.append(('separated-linear', 'linear interpolator does not return the samples at the sample points (%s grid)' % cls))
        lines.append('C18 lin-sep new %s %s %s %s' % ('ext' if mode == 'ext' else 'fill', rat_lists(axes), rat_list(vals), rat_lists(pts)))
        cmps.append(('lin-sep', got, {'nan': 0.0 if mode == 'fill0' else None}))
        if 'affine' in case:
            # the field handed to the real interpolator is the model's `sampleAffine` (hypothesis of the affine theorems)
            lines.append('C18 sample-affine %s %s %s' % (rat_lists(axes), rat(c0), rat_list(c)))
            cmps.append(('sample-affine', list(vals), {}))
    # ---- nearest
    try:
        interp = hcipy.make_nearest_interpolator(field) if route == 'dispatch' else hcipy.make_nearest_interpolator_separated(field)
        res = interp(egrid)
        gotn = to_list(res)
        if getattr(res, 'grid', None) is not egrid or len(gotn) != len(pts):
            bad.append(('separated-nearest', 'result of the nearest interpolator is not a Field of the evaluation grid'))
            gotn = None
    except Exception as e:  # noqa
        bad.append(('separated-nearest', 'nearest interpolator on a %s separated grid raised %s: %s' % (cls, type(e).__name__, str(e)[:100])))
        gotn = None
    if gotn is not None:
        fsrc = [frl(p) for p in src]
        for g, p, ins in zip(gotn, pts, inside):
            if not ins:
                continue
            fp = frl(p)
            d = [sum((a - b) ** 2 for a, b in zip(q, fp)) for q in fsrc]
            dm = min(d)
            allowed = set(vals[j] for j in range(len(src)) if d[j] == dm)
            if g not in allowed:
                bad.append(('separated-nearest', 'nearest interpolator on a %s separated grid returned %r at %r, closest samples have %r' % (cls, g, p, sorted(allowed))))
                break
        lines.append('C18 near-sep new %s %s %s' % (rat_lists(axes), rat_list(vals), rat_lists(pts)))
        cmps.append(('near-sep', gotn, {'nan': None}))
    info = {'class': cls, 'ndim': ndim, 'n_inside': sum(inside), 'n_outside': len(inside) - sum(inside), 'npts': len(pts),
            'dirs': dirs_of(axes), 'axes_as_requested': axes_as_requested}
    return bad, lines, cmps, info


def solve_bary(verts, fp):
    """exact barycentric coordinates (Fractions) of `fp` in the d-simplex `verts` (d+1 points) by Gaussian elimination
    — deliberately not Cramer's rule, which is what the Lean model runs; None for a degenerate simplex"""
    d = len(fp)
    v0 = verts[0]
    # unknowns l_1..l_d:  sum_i l_i (v_i - v_0) = fp - v_0
    A = [[verts[i + 1][r] - v0[r] for i in range(d)] + [fp[r] - v0[r]] for r in range(d)]
    for col in range(d):
        piv = next((r for r in range(col, d) if A[r][col] != 0), None)
        if piv is None:
            return None
        A[col], A[piv] = A[piv], A[col]
        A[col] = [x / A[col][col] for x in A[col]]
        for r in range(d):
            if r != col and A[r][col] != 0:
                f = A[r][col]
                A[r] = [x - f * y for x, y in zip(A[r], A[col])]
    sol = [A[r][d] for r in range(d)]
    return [1 - sum(sol)] + sol


def hull_location(lam, ids, facets):
    """the same exact rule as the Lean model's `hullLoc` (the two are compared through the op simplex-loc): outside the
    simplex if some coordinate is negative; on the boundary of the hull if all vertices that carry weight belong to one
    hull facet; inside otherwise"""
    if any(x < 0 for x in lam):
        return 'outside'
    supp = set(i for x, i in zip(lam, ids) if x != 0)
    return 'boundary' if any(supp <= set(f) for f in facets) else 'inside'


def nat_lists(ls):
    return ';'.join('[' + ','.join(str(int(v)) for v in l) + ']' for l in ls) if ls else '-'


def find_scipy_interp(fn):
    for c in (fn.__closure__ or []):
        try:
            v = c.cell_contents
        except ValueError:
            continue
        if hasattr(v, 'tri'):
            return v
    return None


def run_uns(case):
    import hcipy
    bad, lines, cmps = [], [], []
    src = case['pts_src']
    nd = len(src[0])
    grid = hcipy.CartesianGrid(hcipy.UnstructuredCoords([np.array([p[k] for p in src]) for k in range(nd)]))
    if 'affine' in case:
        c0, c = case['affine']
        vals = [float(aff(c0, c, p)) for p in src]
    else:
        vals = case['vals']
    field = hcipy.Field(np.array(vals, dtype=float), grid)
    pts = case['pts']
    if case.get('eval_self'):
        egrid = grid
    else:
        egrid = hcipy.CartesianGrid(hcipy.UnstructuredCoords([np.array([p[k] for p in pts]) for k in range(nd)]))
    route = case['route']
    got = None
    collinear = case.get('cloud') == 'collinear'
    interp = None
    if not collinear:
        try:
            if route == 'dispatch':
                interp = hcipy.make_linear_interpolator(field)
            elif route == 'dispatch-fill0':
                interp = hcipy.make_linear_interpolator(field, fill_value=0)
            elif route == 'dispatch-grid-arg':
                interp = hcipy.make_linear_interpolator(np.array(vals, dtype=float), grid)
            elif route == 'unstructured-default':
                interp = hcipy.make_linear_interpolator_unstructured(field)
            else:
                interp = hcipy.make_linear_interpolator_unstructured(np.array(vals, dtype=float), grid, 0)
        except Exception as e:  # noqa
            key = 'unstructured-linear-default-fill' if (route.startswith('dispatch') and 'Extrapolation' in str(e)) else 'unstructured-linear'
            bad.append((key, 'make_linear_interpolator (%s) on an unstructured grid (%s cloud) raised %s: %s' % (route, case.get('cloud', 'scattered'), type(e).__name__, str(e)[:100])))
            interp = None
    tri = None
    if interp is not None:
        try:
            res = interp(egrid)
            got = to_list(res)
            if getattr(res, 'grid', None) is not egrid or len(got) != len(pts):
                bad.append(('unstructured-linear', 'result is not a Field of the evaluation grid'))
                got = None
        except Exception as e:  # noqa
            bad.append(('unstructured-linear', 'linear interpolator on an unstructured grid raised %s' % type(e).__name__))
        try:
            sci = find_scipy_interp(interp)
            tri = sci.tri if sci is not None else None
        except Exception:  # noqa
            tri = None
    inside, boundary = [], []
    nloc = 0
    if not collinear:
        have_scipy_object = tri is not None
        if tri is None:
            import scipy.spatial
            tri = scipy.spatial.Delaunay(np.array(src, dtype=float))
        simp = tri.find_simplex(np.array(pts, dtype=float))
        # exact location of every evaluation point with respect to the triangulation and the convex hull (Fractions):
        # the simplex SciPy found (or, where it answers -1, any simplex that contains the point exactly), the barycentric
        # coordinates in it, and the hull facets `Delaunay.convex_hull`
        fsrc2 = [frl(p) for p in src]
        simplices = [[int(v) for v in sx] for sx in tri.simplices]
        facets = [[int(v) for v in e] for e in tri.convex_hull]
        facets_tok = nat_lists(facets)

        def locate(p, sx):
            """(location, simplex ids, barycentric coordinates) of p; location 'outside' = outside the closed hull"""
            fp = frl(p)
            cands = ([simplices[int(sx)]] if int(sx) >= 0 else []) + simplices
            for ids in cands:
                lam = solve_bary([fsrc2[v] for v in ids], fp)
                if lam is not None and all(x >= 0 for x in lam):
                    return hull_location(lam, ids, facets), ids, lam
            return 'outside', None, None

        located = [locate(p, sx) for p, sx in zip(pts, simp)]
        inside = [loc != 'outside' for loc, _, _ in located]
        boundary = [loc == 'boundary' for loc, _, _ in located]
        for p, (loc, ids, lam) in zip(pts, located):
            if ids is not None:
                # the Lean model classifies the same point from the same simplex (op simplex-loc: `baryN`, `hullLoc`)
                lines.append('C18 simplex-loc %s %s %s %s' % (rat_lists([src[v] for v in ids]), '[' + ','.join(str(v) for v in ids) + ']', facets_tok, rat_list(p)))
                cmps.append(('simplex-loc', (loc, lam), {}))
                nloc += 1
        fillv = 0.0 if route in ('unstructured-fill0', 'dispatch-fill0') else None
        if got is not None:
            lookup = {tuple(p): v for p, v in zip(src, vals)}
            reported = set()
            for g, p, ins, bnd, sx, (loc, ids, lam) in zip(got, pts, inside, boundary, simp, located):
                # the recorded SciPy finding has a precise signature, decided in exact arithmetic (and compared with the
                # Lean model's `hullLoc`): a point ON the boundary of the convex hull that SciPy's point location reports
                # outside, and that therefore gets the fill value; anything else — in particular a fill value at a point
                # strictly inside the hull — is a plain failure
                is_fill = (g != g) if fillv is None else (g == fillv)
                key = 'unstructured-linear-hull-boundary' if (bnd and int(sx) < 0 and is_fill) else 'unstructured-linear'
                what = None
                if ins:
                    if 'affine' in case:
                        w = float(aff(c0, c, p))
                        if not abs(g - w) <= TOL * max(1.0, abs(w)):
                            what = 'affine field not reproduced at %r %s of a scattered %d-D grid: got %r, expected %r' % (
                                p, 'on the boundary of the hull' if bnd else 'inside the hull', nd, g, w)
                    if what is None and tuple(p) in lookup and not abs(g - lookup[tuple(p)]) <= TOL * max(1.0, abs(lookup[tuple(p)])):
                        what = 'sample value not returned at the sample point %r%s of a scattered %d-D grid: got %r' % (
                            p, ' (on the boundary of the hull)' if bnd else '', nd, g)
                    if what is None and int(sx) < 0:
                        what = 'point %r %s got the fill value' % (p, 'on the boundary of the hull' if bnd else 'inside the hull')
                else:
                    if (fillv is None and g == g) or (fillv is not None and g != fillv):
                        what = 'point %r outside the hull did not get the fill value' % (p,)
                if what is not None and key not in reported:
                    reported.add(key)
                    bad.append((key, what))
                if int(sx) >= 0 and what is None and (have_scipy_object or case.get('cloud', 'scattered') == 'scattered'):
                    vs = [int(v) for v in tri.simplices[int(sx)]]
                    if nd == 2:
                        t = [src[v][k] for v in vs for k in (0, 1)]
                        lines.append('C18 lin-tri %s %s %s' % (rat_list(t), rat_list([vals[v] for v in vs]), rat_list(p)))
                        cmps.append(('lin-tri', [g], {'nan': None}))
                    # the general executed interpolant (`linearSimplex`, any dimension) on the simplex SciPy found
                    lines.append('C18 lin-simplex %s %s %s' % (rat_lists([src[v] for v in vs]), rat_list([vals[v] for v in vs]), rat_list(p)))
                    cmps.append(('lin-simplex', [g], {'nan': None}))
    # ---- nearest
    gotn = None
    try:
        if route == 'dispatch-grid-arg':
            interp = hcipy.make_nearest_interpolator(np.array(vals, dtype=float), grid)
        elif route.startswith('dispatch'):
            interp = hcipy.make_nearest_interpolator(field)
        else:
            interp = hcipy.make_nearest_interpolator_unstructured(field)
        res = interp(egrid)
        gotn = to_list(res)
        if len(gotn) != len(pts) or getattr(res, 'grid', None) is not egrid:
            bad.append(('unstructured-nearest', 'nearest interpolator returned %d values for %d evaluation points' % (len(gotn), len(pts))))
            gotn = None
    except Exception as e:  # noqa
        bad.append(('unstructured-nearest', 'nearest interpolator on an unstructured grid raised %s' % type(e).__name__))
    if gotn is not None:
        fsrc = [frl(p) for p in src]
        for g, p in zip(gotn, pts):
            fp = frl(p)
            d = [sum((a - b) ** 2 for a, b in zip(q, fp)) for q in fsrc]
            dm = min(d)
            allowed = set(vals[j] for j in range(len(src)) if d[j] == dm)
            if g not in allowed:
                bad.append(('unstructured-nearest', 'nearest interpolator returned %r at %r, closest samples have %r' % (g, p, sorted(allowed))))
                break
        lines.append('C18 near-uns %s %s %s' % (rat_lists(src), rat_list(vals), rat_lists(pts)))
        cmps.append(('near-uns', gotn, {}))
    info = {'n_src': len(src), 'n_inside': sum(inside), 'n_outside': len(inside) - sum(inside), 'npts': len(pts), 'n_boundary': sum(boundary),
            'nd': nd, 'n_located': nloc}
    return bad, lines, cmps, info


def brute_bin(p, dims, s):
    nd = len(dims)
    out = [Fraction(0)] * int(np.prod(dims))
    fine = [d * s for d in dims]
    for idx in itertools.product(*[range(f) for f in fine[::-1]]):
        flat = 0
        cflat = 0
        for k, i in enumerate(idx):
            flat = flat * fine[nd - 1 - k] + i
            cflat = cflat * dims[nd - 1 - k] + i // s
        out[cflat] += p[flat]
    return out


def brute_bins(p, dims, ss):
    """sum-binning with one factor per axis; p flat (x fastest), dims and ss in (x, y, ..) order"""
    nd = len(dims)
    out = [Fraction(0)] * int(np.prod(dims))
    fine = [d * f for d, f in zip(dims, ss)]
    for idx in itertools.product(*[range(f) for f in fine[::-1]]):      # slowest first
        flat = 0
        cflat = 0
        for k, i in enumerate(idx):
            flat = flat * fine[nd - 1 - k] + i
            cflat = cflat * dims[nd - 1 - k] + i // ss[nd - 1 - k]
        out[cflat] += p[flat]
    return out


def run_bins(case):
    import hcipy
    bad, lines, cmps = [], [], []
    dims, ss, stat = case['dims'], case['ss'], case['stat']
    S = case.get('S', 1.0)
    nd = len(dims)
    fine = [d * f for d, f in zip(dims, ss)]
    irregular = 'axes' in case
    if irregular:
        fine_axes = [[x * S for x in a] for a in case['axes']]
        grid = make_grid(fine_axes, False)
    else:
        grid = hcipy.CartesianGrid(hcipy.RegularCoords([d * S for d in case['delta']], fine, [0.0] * nd))
    arg = {'array': lambda: np.array(ss), 'list': lambda: list(ss), 'float-array': lambda: np.array(ss, dtype=float),
           'array1': lambda: np.array(ss[:1]), 'list1': lambda: list(ss[:1])}[case['spell']]()
    weighted = irregular and stat == 'mean'
    info = {'per_axis': True, 'weighted': weighted, 'irregular': irregular}
    try:
        if irregular:
            coarse_axes = [[float(np.mean(a[i * f:(i + 1) * f])) for i in range(d)] for a, d, f in zip(fine_axes, dims, ss)]
            new_grid = hcipy.CartesianGrid(hcipy.SeparatedCoords([np.array(a) for a in coarse_axes]))
        else:
            new_grid = hcipy.make_subsampled_grid(grid, arg) if case['give_grid'] else None
        res = hcipy.subsample_field(hcipy.Field(np.array(case['vals'], dtype=float), grid), arg, new_grid, statistic=stat)
    except Exception as e:  # noqa
        bad.append(('binning-per-axis-factors-raises', 'subsample_field(field, %r (%s), statistic=%r) on a %r %s grid (coordinate scale %s) raised %s: %s (the docstring '
                    'promises "if this is an array, the subsampling factor will be different for each dimension")'
                    % (ss, case['spell'], stat, fine, 'non-regular' if irregular else 'regular', scale_label(S), type(e).__name__, str(e)[:80])))
        return bad, lines, cmps, info
    out = np.asarray(res, dtype=float)
    ncoarse = int(np.prod(dims))
    rg = getattr(res, 'grid', None)
    if list(out.shape) != [ncoarse]:
        bad.append(('binning-shape', 'binned field has shape %r, expected %r' % (list(out.shape), [ncoarse])))
        return bad, lines, cmps, info
    if rg is None or rg.size != ncoarse or (new_grid is not None and rg is not new_grid) or [int(d) for d in rg.dims] != dims:
        bad.append(('binning-grid', 'binned field does not live on the coarse grid %r' % (dims,)))
    p = frl(case['vals'])
    sd, sdims = '[' + ','.join(str(f) for f in ss[::-1]) + ']', '[' + ','.join(str(d) for d in dims[::-1]) + ']'
    if weighted:
        w = frl(np.asarray(grid.weights, dtype=float) * np.ones(len(p)))
        num, den = brute_bins([a * b for a, b in zip(p, w)], dims, ss), brute_bins(w, dims, ss)
        want = [a / b for a, b in zip(num, den)]
    else:
        want = brute_bins(p, dims, ss)
        if stat == 'mean':
            want = [x / int(np.prod(ss)) for x in want]
    err = cmp_vals([float(x) for x in out], want)
    if err is None or err > TOL:
        bad.append(('binning-value', '%s-binning by the per-axis factors %r on a %s grid with coordinates of scale %s differs from the brute-force %sbins'
                    % (stat, ss, 'non-regular' if irregular else 'regular', scale_label(S), 'weighted ' if weighted else '')))
    elif weighted:
        # conservation of the weighted total, relative to the size of the weights (the unit of the coordinates is arbitrary)
        tot = sum(a * b for a, b in zip(p, w))
        tot_b = sum(fr(x) * d for x, d in zip(out, den))
        if abs(float(tot_b - tot)) > TOL * float(sum(abs(a * b) for a, b in zip(p, w))):
            bad.append(('binning-mean-not-conserved', 'weighted mean not conserved on a non-regular grid (per-axis factors %r, coordinate scale %s)' % (ss, scale_label(S))))
    if weighted:
        lines.append('C18 binws %s %s %s %s' % (sd, sdims, rat_list(case['vals']), rat_list([float(x) for x in w])))
        cmps.append(('binws', [float(x) for x in out], {}))
        return bad, lines, cmps, info
    lines.append('C18 bins %s %s %s %s' % (stat, sd, sdims, rat_list(case['vals'])))
    cmps.append(('bins', [float(x) for x in out], {}))
    if stat == 'sum':
        # the closed form of the index map (`boxSums`, theorem bins_pixel), every coarse pixel
        lines.append('C18 binpix %s %s %s' % (sd, sdims, rat_list(case['vals'])))
        cmps.append(('binpix', [float(x) for x in out], {}))
        info['binpix'] = 1
    return bad, lines, cmps, info


def run_bin(case):
    import hcipy
    if 'ss' in case:
        return run_bins(case)
    bad, lines, cmps = [], [], []
    dims, s, tshape, stat = case['dims'], case['s'], case['tshape'], case['stat']
    nd = len(dims)
    ncoarse = int(np.prod(dims))
    nfine = ncoarse * s ** nd
    ncomp = int(np.prod(tshape)) if tshape else 1
    S = case.get('S', 1.0)      # physical scale of the coordinates (exact power of two)
    if case['regular']:
        delta = [d * S for d in case['delta']]
        fine_axes = [[delta[k] * i for i in range(dims[k] * s)] for k in range(nd)]
        grid = make_grid(fine_axes, True) if all(len(a) > 1 for a in fine_axes) else \
            hcipy.CartesianGrid(hcipy.RegularCoords(delta, [d * s for d in dims], [0.0] * nd))
        new_grid = hcipy.make_subsampled_grid(grid, s) if case['give_grid'] else None
    else:
        fine_axes = [[x * S for x in a] for a in case['axes']]
        grid = make_grid(fine_axes, False)
        coarse_axes = [[float(np.mean(a[i * s:(i + 1) * s])) for i in range(d)] for a, d in zip(fine_axes, dims)]
        new_grid = hcipy.CartesianGrid(hcipy.SeparatedCoords([np.array(a) for a in coarse_axes]))
    arr = np.array(case['vals'], dtype=float).reshape(list(tshape) + [nfine])
    field = hcipy.Field(arr, grid)
    weighted = (not case['regular']) and stat == 'mean'
    try:
        res = hcipy.subsample_field(field, s, new_grid, statistic=stat)
    except Exception as e:  # noqa
        bad.append(('binning-weighted-tensor-raises' if (weighted and ncomp > 1) else 'binning-raises', 'subsample_field raised %s: %s' % (type(e).__name__, str(e)[:100])))
        return bad, lines, cmps, {}
    out = np.asarray(res, dtype=float)
    if list(out.shape) != list(tshape) + [ncoarse]:
        bad.append(('binning-shape', 'binned field has shape %r, expected %r' % (list(out.shape), list(tshape) + [ncoarse])))
        return bad, lines, cmps, {}
    rg = getattr(res, 'grid', None)
    if rg is None or rg.size != ncoarse or (new_grid is not None and rg is not new_grid):
        bad.append(('binning-grid', 'binned field does not live on the coarse grid'))
    comps_in = arr.reshape(ncomp, nfine)
    comps_out = out.reshape(ncomp, ncoarse)
    w = frl(np.asarray(grid.weights, dtype=float) * np.ones(nfine)) if weighted else None
    for k in range(ncomp):
        p = frl(comps_in[k])
        if weighted:
            num = brute_bin([a * b for a, b in zip(p, w)], dims, s)
            den = brute_bin(w, dims, s)
            want = [a / b for a, b in zip(num, den)]
        else:
            want = brute_bin(p, dims, s)
            if stat == 'mean':
                want = [x / (s ** nd) for x in want]
        err = cmp_vals([float(x) for x in comps_out[k]], want)
        if err is None or err > TOL:
            bad.append(('binning-value', '%s-binning by %d of component %d on a %s grid with coordinates of scale %s differs from the brute-force %sbins'
                        % (stat, s, k, 'regular' if case['regular'] else 'non-regular', scale_label(S), 'weighted ' if weighted else '')))
            break
        sc = max(1.0, float(sum(abs(x) for x in p)))
        if stat == 'sum' and abs(float(np.sum(comps_out[k])) - float(sum(p))) > TOL * sc:
            bad.append(('binning-sum-not-conserved', 'sum of the binned field %r, sum of the field %r' % (float(np.sum(comps_out[k])), float(sum(p)))))
            break
        if stat == 'mean' and not weighted and abs(float(np.mean(comps_out[k])) - float(sum(p)) / nfine) > TOL * sc:
            bad.append(('binning-mean-not-conserved', 'mean of the binned field differs from the mean of the field'))
            break
        if weighted:
            tot = sum(a * b for a, b in zip(p, w))
            tot_b = sum(Fraction(*float(x).as_integer_ratio()) * d for x, d in zip(comps_out[k], den))
            # relative to the size of the weights: the unit of the coordinates is arbitrary
            if abs(float(tot_b - tot)) > TOL * float(sum(abs(a * b) for a, b in zip(p, w))):
                bad.append(('binning-mean-not-conserved', 'weighted mean not conserved on a non-regular grid (coordinate scale %s)' % scale_label(S)))
                break
        # independence of tensor components: bin the component alone
        if ncomp > 1:
            alone = np.asarray(hcipy.subsample_field(hcipy.Field(comps_in[k].copy(), grid), s, new_grid, statistic=stat), dtype=float)
            if not np.array_equal(alone, comps_out[k]):
                bad.append(('binning-tensor-dependent', 'component %d binned alone differs from the same component of the binned tensor field' % k))
                break
    cd = '[' + ','.join(str(d) for d in dims[::-1]) + ']'
    npix = 0
    if weighted:
        for k in range(ncomp):
            lines.append('C18 binw %d %s %s %s' % (s, cd, rat_list(comps_in[k]), rat_list([float(x) for x in w])))
            cmps.append(('binw', [float(x) for x in comps_out[k]], {}))
    elif ncomp > 1 and stat == 'sum':
        lines.append('C18 bint %d %s %d %s' % (s, cd, ncomp, rat_list(arr.ravel())))
        cmps.append(('bint', [float(x) for x in out.ravel()], {}))
    if ncomp > 1 and not weighted:
        # the reshape the code performs: tensor axes in front of the (n, s) pairs, one reduction (`binTensorL`)
        lines.append('C18 bintl %s %s %s %s %s' % (stat, '[' + ','.join([str(s)] * nd) + ']', cd, '[' + ','.join(str(t) for t in tshape) + ']', rat_list(arr.ravel())))
        cmps.append(('bintl', [float(x) for x in out.ravel()], {}))
    if not weighted and not (ncomp > 1 and stat == 'sum'):
        for k in range(ncomp):
            lines.append('C18 bin %s %d %s %s' % (stat, s, cd, rat_list(comps_in[k])))
            cmps.append(('bin', [float(x) for x in comps_out[k]], {}))
            if stat == 'sum':
                lines.append('C18 binpix %s %s %s' % ('[' + ','.join([str(s)] * nd) + ']', cd, rat_list(comps_in[k])))
                cmps.append(('binpix', [float(x) for x in comps_out[k]], {}))
                npix += 1
    return bad, lines, cmps, {'weighted': weighted, 'ncomp': ncomp, 'binpix': npix}


def ss_reference(axes, c0, c, q, ns, stat):
    """brute-force exact reference for evaluate_supersampled of c0 + Σ c·x + Σ q·x² on the separated grid `axes`
    (x-axis first): per point the sum / mean over the n_x·n_y·… dithered copies x + d·δ, d = (j+1/2)/n - 1/2,
    δ = the local cell width (one-sided at the ends).  Independent of the Lean model."""
    per_axis = []
    for k, (a, n) in enumerate(zip(axes, ns)):
        fa = frl(a)
        dl = [fa[1] - fa[0]] + [(fa[i + 1] - fa[i - 1]) / 2 for i in range(1, len(fa) - 1)] + [fa[-1] - fa[-2]]
        ds = [Fraction(2 * j + 1, 2 * n) - Fraction(1, 2) for j in range(n)]
        ck, qk = fr(c[k]), fr(q[k])
        # Σ_j c·(x+d_j δ) + q·(x+d_j δ)², and the count
        per_axis.append([sum(ck * (x + d * w) + qk * (x + d * w) ** 2 for d in ds) for x, w in zip(fa, dl)])
    cnt = int(np.prod(ns))
    out = []
    for idx in itertools.product(*[range(len(a)) for a in axes[::-1]]):
        idx = idx[::-1]
        tot = fr(c0) * cnt + sum(per_axis[k][i] * (cnt // ns[k]) for k, i in enumerate(idx))
        out.append(tot if stat == 'sum' else tot / cnt)
    return out


def run_ss(case):
    import hcipy
    bad, lines, cmps = [], [], []
    axes = case['axes']
    nd = len(axes)
    grid = make_grid(axes, case['regular'], case.get('via'))
    axes = [[float(v) for v in c_] for c_ in grid.separated_coords]
    c0, c, q = case['c0'], case['c'], case['q']
    calls = []

    def gen(g):
        calls.append(g)
        co = [np.asarray(g.coords[k]) for k in range(nd)]
        v = c0 + sum(ck * xk for ck, xk in zip(c, co)) + sum(qk * xk * xk for qk, xk in zip(q, co))
        return hcipy.Field(v, g)

    ns = case['ns']
    arg = ns[0] if case['scalar_n'] else ns
    try:
        res = hcipy.evaluate_supersampled(gen, grid, arg, statistic=case['stat'])
    except Exception as e:  # noqa
        bad.append(('supersampled-raises', 'evaluate_supersampled raised %s: %s' % (type(e).__name__, str(e)[:100])))
        return bad, lines, cmps, {}
    got = to_list(res)
    cnt = int(np.prod(ns))
    affine = all(x == 0 for x in q)
    pts = grid_points(axes)
    if getattr(res, 'grid', None) is not grid or len(got) != len(pts):
        bad.append(('supersampled-grid', 'supersampled evaluation is not a Field of the requested grid'))
    elif affine:
        mult = cnt if case['stat'] == 'sum' else 1
        want = [aff(c0, c, p) * mult for p in pts]
        err = cmp_vals(got, want)
        if err is None or err > TOL:
            bad.append(('supersampled-affine', 'supersampled evaluation (%s, oversampling %r, coordinate scale %s) of an affine function differs from its direct evaluation' % (case['stat'], arg, scale_label(case.get('S', 1.0)))))
    else:
        # quadratic generator: the sub-pixel positions matter (dither offsets x local cell width), brute-force reference
        err = cmp_vals(got, ss_reference(axes, c0, c, q, ns, case['stat']))
        if err is None or err > TOL:
            bad.append(('supersampled-value', 'supersampled evaluation (%s, oversampling %r, coordinate scale %s) of a quadratic function differs from the mean over the dithered sub-pixels' % (case['stat'], arg, scale_label(case.get('S', 1.0)))))
    lines.append('C18 ss %s %s %s %s %s %s' % (case['stat'], rat(c0), rat_list(c), rat_list(q), rat_lists(axes), '[' + ','.join(str(n) for n in ns) + ']'))
    cmps.append(('ss', got, {}))
    info = {'affine': affine, 'dithers': cnt}
    if grid.is_regular:
        # make_supersampled_grid on the same grid: its points must be the dithered sub-pixel positions
        # x_i + delta * ((2j+1)/(2n) - 1/2)  (exact reference here; the model's `superAxis` through the op supergrid)
        try:
            sg = hcipy.make_supersampled_grid(grid, arg)
            zero, delta, dims = [float(z) for z in grid.zero], [float(d) for d in grid.delta], [int(d) for d in grid.dims]
            fine = [[float(v) for v in cc] for cc in sg.separated_coords]
            okay = bool(sg.is_regular) and [int(d) for d in sg.dims] == [d * n for d, n in zip(dims, ns)] and len(fine) == nd
            for k in range(nd if okay else 0):
                want = [fr(zero[k]) + i * fr(delta[k]) + fr(delta[k]) * (Fraction(2 * j + 1, 2 * ns[k]) - Fraction(1, 2)) for i in range(dims[k]) for j in range(ns[k])]
                err = cmp_vals(fine[k], want, scale=abs(delta[k]))
                if err is None or err > TOL:
                    okay = False
            if not okay:
                bad.append(('supersampled-grid-points', 'make_supersampled_grid(grid, %r) on a regular grid (coordinate scale %s) does not consist of the dithered sub-pixel positions of the grid' % (arg, scale_label(case.get('S', 1.0)))))
            else:
                lines.append('C18 supergrid %s %s %s %s' % (rat_list(zero), rat_list(delta), '[' + ','.join(str(d) for d in dims) + ']', '[' + ','.join(str(n) for n in ns) + ']'))
                cmps.append(('supergrid', fine, {'scales': [abs(d) for d in delta]}))
                info['supergrid'] = 1
        except Exception as e:  # noqa
            bad.append(('supersampled-grid-points', 'make_supersampled_grid raised %s: %s' % (type(e).__name__, str(e)[:80])))
    return bad, lines, cmps, info



# ---------------------------------------------------------------------------------------------
# families `scale` (physical scale + evaluation grids that are tiny perturbations of the source grid) and
# `reuse` (the same grid objects used, mutated in place or copied-and-mutated, and used again)

SCALES = [1.0, 1.0, 2.0 ** -30, 2.0 ** -27, 2.0 ** -10, 2.0 ** 10, 2.0 ** 20, 1e-9, 1e-8, 1e-3, 1e3, 1e6]
FRACS = [1e-9, 1e-7, 1e-6, 3e-6, 1e-5, 1e-4, 1e-3, 0.3, 0.7]


def state_points(st):
    return grid_points(st['axes']) if st['kind'] != 'unstructured' else [list(q) for q in st['pts']]


def build_grid(st):
    import hcipy
    if st['kind'] == 'unstructured':
        nd = len(st['pts'][0])
        return hcipy.CartesianGrid(hcipy.UnstructuredCoords([np.array([q[k] for q in st['pts']], dtype=float) for k in range(nd)]))
    return make_grid(st['axes'], st['kind'] == 'regular')


def apply_op_state(st, op):
    """pure bookkeeping of what a grid operation has to do to the coordinates (and to the point order)"""
    st = json_copy(st)
    name, arg = op[0], (op[1] if len(op) > 1 else None)
    nd = len(st['axes']) if st['kind'] != 'unstructured' else len(st['pts'][0])
    f = ([arg] * nd if not isinstance(arg, list) else arg) if arg is not None else None
    if st['kind'] == 'unstructured':
        if name == 'reverse':
            st['pts'] = st['pts'][::-1]
        elif name == 'scale':
            st['pts'] = [[x * fk for x, fk in zip(q, f)] for q in st['pts']]
        else:
            st['pts'] = [[x + fk for x, fk in zip(q, f)] for q in st['pts']]
    else:
        if name == 'reverse':
            st['axes'] = [a[::-1] for a in st['axes']]
        elif name == 'scale':
            st['axes'] = [[x * fk for x in a] for a, fk in zip(st['axes'], f)]
        else:
            st['axes'] = [[x + fk for x in a] for a, fk in zip(st['axes'], f)]
    return st


def json_copy(x):
    import json
    return json.loads(json.dumps(x))


def apply_op_real(grid, op, inplace):
    name, arg = op[0], (op[1] if len(op) > 1 else None)
    a = np.array(arg, dtype=float) if isinstance(arg, list) else arg
    if name == 'assign':
        grid.coords = grid.shifted(a).coords       # attribute assignment: same Grid object, new coordinates
        return grid
    if inplace:
        if name == 'reverse':
            grid.reverse()
        elif name == 'scale':
            grid.scale(a)
        else:
            grid.shift(a)
        return grid
    if name == 'reverse':
        return grid.reversed()
    if name == 'scale':
        return grid.scaled(a)
    return grid.shifted(a)


def hull_classifier(src, pix=0.0):
    """exact (Fraction) classification of points against the convex hull of a 2-D cloud; points within 1e-9 pixel
    of the hull boundary count as boundary (decision boundary of SciPy's tolerant point location)"""
    import scipy.spatial
    tri = scipy.spatial.Delaunay(np.array(src, dtype=float))
    fs = [frl(q) for q in src]
    simplices = [[int(v) for v in sx] for sx in tri.simplices]
    edges = [[int(v) for v in e] for e in tri.convex_hull]

    def classify(p):
        fp = frl(p)
        for i, j in edges:
            (ax, ay), (bx, by) = fs[i], fs[j]
            cr = (bx - ax) * (fp[1] - ay) - (by - ay) * (fp[0] - ax)
            e2 = (bx - ax) ** 2 + (by - ay) ** 2
            slack = 1e-9 * pix
            if float(cr) ** 2 <= (slack ** 2) * float(e2):
                t = (fp[0] - ax) * (bx - ax) + (fp[1] - ay) * (by - ay)
                if -slack * float(e2) ** 0.5 <= float(t) <= float(e2) + slack * float(e2) ** 0.5:
                    return 'boundary'
        for sx in simplices:
            (ax, ay), (bx, by), (cx, cy) = [fs[v] for v in sx]
            det = (bx - ax) * (cy - ay) - (cx - ax) * (by - ay)
            if det == 0:
                continue
            l1 = ((fp[0] - ax) * (cy - ay) - (cx - ax) * (fp[1] - ay)) / det
            l2 = ((bx - ax) * (fp[1] - ay) - (fp[0] - ax) * (by - ay)) / det
            if l1 >= 0 and l2 >= 0 and 1 - l1 - l2 >= 0:
                return 'inside'
        return 'outside'
    return classify


def check_pair(bad, lines, cmps, tag, st, grid, vals, affine, egrid, epts, pix, keys, interps=None):
    """Linear + nearest through the public dispatchers on the source grid object `grid` (expected coordinates: `st`),
    evaluated on the grid object `egrid` (expected points `epts`).  Returns the interpolators."""
    import hcipy
    src = state_points(st)
    uns = st['kind'] == 'unstructured'
    field = hcipy.Field(np.array(vals, dtype=float), grid)
    vscale = max([1.0] + [abs(v) for v in vals])
    try:
        lin, near = interps if interps else (hcipy.make_linear_interpolator(field), hcipy.make_nearest_interpolator(field))
        gl = to_list(lin(egrid))
        gn = to_list(near(egrid))
    except Exception as e:  # noqa
        bad.append((keys[0], '%s: interpolation raised %s: %s' % (tag, type(e).__name__, str(e)[:100])))
        return None
    if len(gl) != len(epts) or len(gn) != len(epts):
        bad.append((keys[0], '%s: %d / %d values for %d evaluation points' % (tag, len(gl), len(gn), len(epts))))
        return None
    if uns:
        classify = hull_classifier(src, pix)
        where = [classify(q) for q in epts]
    else:
        where = ['inside' if all(min(a) <= x <= max(a) for a, x in zip(st['axes'], q)) else 'outside' for q in epts]
    lookup = {tuple(q): v for q, v in zip(src, vals)}
    fsrc = [frl(q) for q in src]
    skip_near = set()
    for k, (q, w) in enumerate(zip(epts, where)):
        # ---- linear
        want = None
        if tuple(q) in lookup and w != 'boundary':
            want = lookup[tuple(q)]
        elif affine is not None and (w == 'inside' or (w == 'outside' and not uns)):
            want = float(aff(affine[0], affine[1], q))          # separated dispatcher: fill None = extrapolation
        if want is not None and not abs(gl[k] - want) <= TOL * vscale:
            bad.append((keys[0], '%s: linear interpolator returned %r at %r, expected %r' % (tag, gl[k], q, want)))
            return None
        if uns and w == 'outside' and gl[k] == gl[k]:
            bad.append((keys[0], '%s: point %r outside the hull did not get the fill value' % (tag, q)))
            return None
        # ---- nearest
        if not uns and w == 'outside':
            if gn[k] == gn[k]:
                bad.append((keys[1], '%s: nearest interpolator returned %r outside the domain at %r' % (tag, gn[k], q)))
                return None
            continue
        fq = frl(q)
        d2 = [sum((a - b) ** 2 for a, b in zip(sq, fq)) for sq in fsrc]
        d = [float(x) ** 0.5 for x in d2]
        dm, dm2 = min(d), min(d2)
        allowed = set(vals[j] for j in range(len(src)) if d[j] - dm <= 1e-10 * pix)
        exact = set(vals[j] for j in range(len(src)) if d2[j] == dm2)
        if len(allowed) > 1 and allowed != exact:
            skip_near.add(k)                                    # near-tie: the model's exact decision is not compared
        if gn[k] not in allowed:
            bad.append((keys[1], '%s: nearest interpolator returned %r at %r, closest samples have %r' % (tag, gn[k], q, sorted(allowed))))
            return None
    if uns:
        lines.append('C18 near-uns %s %s %s' % (rat_lists(src), rat_list(vals), rat_lists(epts)))
        cmps.append(('near-uns', gn, {'skip': skip_near}))
    else:
        lines.append('C18 lin-sep new ext %s %s %s' % (rat_lists(st['axes']), rat_list(vals), rat_lists(epts)))
        cmps.append(('lin-sep', gl, {'nan': None}))
        lines.append('C18 near-sep new %s %s %s' % (rat_lists(st['axes']), rat_list(vals), rat_lists(epts)))
        cmps.append(('near-sep', gn, {'nan': None, 'skip': skip_near}))
    return lin, near


def actual_state(st, grid):
    if st['kind'] == 'unstructured':
        nd = len(st['pts'][0])
        cs = [np.asarray(grid.coords[k], dtype=float) for k in range(nd)]
        return {'kind': st['kind'], 'pts': [[float(c[i]) for c in cs] for i in range(len(st['pts']))]}
    return {'kind': st['kind'], 'axes': [[float(v) for v in c] for c in grid.separated_coords]}


def gen_source_state(rng, big, kinds=('regular', 'separated', 'unstructured')):
    kind = str(rng.choice(kinds))
    if kind == 'unstructured':
        style = str(rng.choice(['scattered', 'lattice', 'shared-coords']))
        pts, _ = gen_cloud(rng, big, style)
        return {'kind': kind, 'pts': pts}
    nd = 1 if rng.random() < 0.2 else 2
    axes = []
    for _ in range(nd):
        n = int(rng.integers(2, 6))
        if kind == 'regular':
            d = float(rng.choice([0.25, 0.5, 1.0, 1.5, 2.0]))
            z = dyadic(rng, -3, 3, 2)
            a = [z + d * i for i in range(n)]
        else:
            a = gen_knots(rng, n)
        axes.append(a[::-1] if rng.random() < 0.3 else a)
    return {'kind': kind, 'axes': axes}


def state_pixel(st):
    if st['kind'] == 'unstructured':
        xs = sorted(set(x for q in st['pts'] for x in q))
    else:
        xs = sorted(set(x for a in st['axes'] for x in a))
    gaps = [b - a for a, b in zip(xs, xs[1:]) if b > a]
    return min(gaps) if gaps else 1.0


def scale_state(st, S):
    st = json_copy(st)
    if st['kind'] == 'unstructured':
        st['pts'] = [[x * S for x in q] for q in st['pts']]
    else:
        st['axes'] = [[x * S for x in a] for a in st['axes']]
    return st


def gen_values(rng, st, S):
    nd = len(st['axes']) if st['kind'] != 'unstructured' else 2
    if rng.random() < 0.65:
        c0, c = affine_coeffs(rng, nd)
        return {'affine': [c0, [ck / S for ck in c]]}
    return {'vals': [dyadic(rng, -8, 8, 3) for _ in range(len(state_points(st)))]}


def values_of(v, st):
    if 'affine' in v:
        return [float(aff(v['affine'][0], v['affine'][1], q)) for q in state_points(st)], v['affine']
    return v['vals'], None


def gen_scale(rng, big):
    S = float(rng.choice(SCALES))
    st = scale_state(gen_source_state(rng, big), S)
    pix = state_pixel(st)
    nd = len(st['axes']) if st['kind'] != 'unstructured' else 2
    case = {'fam': 'scale', 'S': S, 'src': st, 'values': gen_values(rng, st, S)}
    u = rng.random()
    if u < 0.6:
        # the evaluation grid is a grid of the same kind, shifted by a fraction of a pixel (possibly tiny) per axis
        frac = float(rng.choice(FRACS))
        sh = [frac * pix * float(rng.choice([-1.0, 1.0, 0.0, 1.0])) for _ in range(nd)]
        if all(x == 0 for x in sh):
            sh[0] = frac * pix
        case['eval'] = ['shifted', frac, sh]
    elif u < 0.75:
        eps = float(rng.choice([1e-9, 1e-7, 1e-6, 1e-5, 1e-4, 1e-3]))
        case['eval'] = ['stretched', eps, 1.0 + eps]
    elif u < 0.85:
        case['eval'] = ['self-copy']                   # an equal grid, but another object
    else:
        pts = state_points(st)
        m = int(rng.integers(1, 7))
        ev = []
        for _ in range(m):
            i, j, k = [int(t) for t in rng.integers(0, len(pts), 3)]
            a = int(rng.integers(0, 9)); b = int(rng.integers(0, 9 - a)); c = 8 - a - b
            ev.append([(a * pts[i][t] + b * pts[j][t] + c * pts[k][t]) / 8.0 for t in range(nd)])
        case['eval'] = ['points', ev]
    return case


def run_scale(case):
    import hcipy
    bad, lines, cmps = [], [], []
    st = case['src']
    grid = build_grid(st)
    pix = state_pixel(st)
    vals, affine = values_of(case['values'], st)
    ev = case['eval']
    if ev[0] == 'shifted':
        est = apply_op_state(st, ['shift', ev[2]])
        egrid = build_grid(est)
    elif ev[0] == 'stretched':
        est = apply_op_state(st, ['scale', ev[2]])
        egrid = build_grid(est)
    elif ev[0] == 'self-copy':
        est = json_copy(st)
        egrid = build_grid(est)
    else:
        nd = len(ev[1][0])
        est = {'kind': 'unstructured', 'pts': ev[1]}
        egrid = hcipy.CartesianGrid(hcipy.UnstructuredCoords([np.array([q[k] for q in ev[1]], dtype=float) for k in range(nd)]))
    # in this family the coordinates the grid objects really hold are the truth (a regular grid stores zero + i*delta,
    # which differs from the requested list in the last bit at non-dyadic scales)
    st, est = actual_state(st, grid), actual_state(est, egrid)
    epts = state_points(est)
    tag = '%s source grid at scale %g, evaluation grid %s' % (st['kind'], case['S'], ev[0] + (' by %g pixel' % ev[1] if ev[0] == 'shifted' else (' by 1+%g' % ev[1] if ev[0] == 'stretched' else '')))
    check_pair(bad, lines, cmps, tag, st, grid, vals, affine, egrid, epts, pix, ('scaled-linear', 'scaled-nearest'))
    return bad, lines, cmps, {'kind': st['kind'], 'eval': ev[0], 'frac': ev[1] if ev[0] in ('shifted', 'stretched') else None}


REUSE_OPS = ['reverse', 'reverse', 'scale', 'shift']


def gen_reuse(rng, big):
    S = float(rng.choice([1.0, 1.0, 1.0, 2.0 ** -20, 2.0 ** 10]))
    st = scale_state(gen_source_state(rng, big), S)
    nd = len(st['axes']) if st['kind'] != 'unstructured' else 2
    pix = state_pixel(st)
    est = scale_state(gen_source_state(rng, big, kinds=('regular', 'separated', 'unstructured', 'unstructured')), S)
    if (len(est['axes']) if est['kind'] != 'unstructured' else 2) != nd:
        est = json_copy(st)
    steps = []
    cur = st
    for _ in range(int(rng.integers(1, 5 if big else 4))):
        name = str(rng.choice(REUSE_OPS))
        target = str(rng.choice(['src', 'src', 'eval', 'eval']))
        if target == 'eval' and rng.random() < 0.25:
            name = 'assign'       # E.coords = <coordinates of a shifted grid>: the plainest in-place change of a Grid object
        if name == 'scale':
            f = [float(rng.choice([2.0, 0.5, -1.0, -2.0, 1.0])) for _ in range(nd)]
            op = ['scale', f[0] if (len(set(f)) == 1 or rng.random() < 0.4) else f]
            if cur['kind'] == 'unstructured' and isinstance(op[1], list) and False:
                op = ['scale', f[0]]
        elif name in ('shift', 'assign'):
            op = [name, [pix * float(rng.integers(-6, 7)) / 2.0 for _ in range(nd)]]
        else:
            op = ['reverse']
        steps.append({'target': target, 'op': op, 'inplace': bool(rng.random() < 0.5) or name == 'assign',
                      'values': None, 'keep_interp': bool(rng.random() < (0.7 if target == 'eval' else 0.5))})
    case = {'fam': 'reuse', 'S': S, 'src': st, 'eval': est, 'steps': steps, 'seed_values': int(rng.integers(0, 2 ** 31))}
    return case


def run_reuse(case):
    import hcipy
    bad, lines, cmps = [], [], []
    vr = np.random.default_rng(case['seed_values'])
    st, est = case['src'], case['eval']
    G, E = build_grid(st), build_grid(est)
    S = case['S']
    hist = []

    def use(tag, interps=None, vals_aff=None):
        nonlocal st
        if vals_aff is None:
            v = gen_values(vr, st, S)
            vals, affine = values_of(v, st)
        else:
            vals, affine = vals_aff
        r = check_pair(bad, lines, cmps, tag, st, G, vals, affine, E, state_points(est), state_pixel(st), ('reuse-linear', 'reuse-nearest'), interps)
        # the same grid object in binning and supersampling
        if not bad and st['kind'] != 'unstructured':
            nd = len(st['axes'])
            c0, c = affine_coeffs(vr, nd)
            c = [ck / S for ck in c]
            # half of the uses with a quadratic term: then the cell widths (derived from the grid object) matter
            qq = [dyadic(vr, -2, 2, 1) / (S * S) if vr.random() < 0.5 else 0.0 for _ in range(nd)]
            try:
                res = to_list(hcipy.evaluate_supersampled(lambda g: hcipy.Field(c0 + sum(ck * np.asarray(g.coords[k]) + qk * np.asarray(g.coords[k]) ** 2 for k, (ck, qk) in enumerate(zip(c, qq))), g), G, 2))
                want = ss_reference(st['axes'], c0, c, qq, [2] * nd, 'mean')
                err = cmp_vals(res, want)
                if err is None or err > TOL:
                    bad.append(('reuse-supersampled', '%s: supersampled %s function differs from %s' % (tag, 'quadratic' if any(qq) else 'affine', 'the mean over its dithered sub-pixels' if any(qq) else 'its direct evaluation')))
            except Exception as e:  # noqa
                bad.append(('reuse-supersampled', '%s: evaluate_supersampled raised %s' % (tag, type(e).__name__)))
            if not bad and st['kind'] == 'regular' and all(len(a) % 2 == 0 for a in st['axes']):
                try:
                    fv = [dyadic(vr, -8, 8, 3) for _ in range(len(state_points(st)))]
                    r2 = hcipy.subsample_field(hcipy.Field(np.array(fv), G), 2, statistic='mean')
                    dims = [len(a) // 2 for a in st['axes']]
                    wantv = [x / (2 ** nd) for x in brute_bin(frl(fv), dims, 2)]
                    err = cmp_vals(to_list(r2), wantv)
                    caxes = [[(a[2 * i] + a[2 * i + 1]) / 2 for i in range(len(a) // 2)] for a in st['axes']]
                    gc = [[float(x) for x in cc] for cc in r2.grid.separated_coords]
                    geo = all(len(x) == len(y) and all(abs(u - w) <= 1e-9 * max(abs(w), state_pixel(st)) for u, w in zip(x, y)) for x, y in zip(gc, caxes))
                    if err is None or err > TOL or not geo:
                        bad.append(('reuse-binning', '%s: subsample_field %s' % (tag, 'values differ from the brute-force bins' if not geo is False and (err is None or err > TOL) else 'lives on a grid that is not the binned grid')))
                except Exception as e:  # noqa
                    bad.append(('reuse-binning', '%s: subsample_field raised %s' % (tag, type(e).__name__)))
        return r, (vals, affine)

    r, va = use('first use')
    for k, stp in enumerate(case['steps']):
        if bad:
            break
        hist.append('%s.%s%s(%s)' % (stp['target'], stp['op'][0], '' if stp['inplace'] else ('d' if stp['op'][0] != 'shift' else 'ed'), stp['op'][1] if len(stp['op']) > 1 else ''))
        try:
            if stp['target'] == 'src':
                G = apply_op_real(G, stp['op'], stp['inplace'])
                st = apply_op_state(st, stp['op'])
            else:
                E = apply_op_real(E, stp['op'], stp['inplace'])
                est = apply_op_state(est, stp['op'])
        except Exception as e:  # noqa
            bad.append(('reuse-grid-op', '%s raised %s: %s' % (hist[-1], type(e).__name__, str(e)[:80])))
            break
        tag = 'after ' + ', '.join(hist)
        if stp['target'] == 'eval' and stp['keep_interp'] and r is not None:
            # the SAME interpolators as before, evaluated on the changed evaluation grid object
            r, va = use(tag + ' (old interpolators)', interps=r, vals_aff=va)
        else:
            r, va = use(tag)
    info = {'kind': case['src']['kind'], 'ekind': case['eval']['kind'], 'nsteps': len(case['steps'])}
    return bad, lines, cmps, info


# ---------------------------------------------------------------------------------------------
# family `sys` (C18-11): grids that are NOT CartesianGrid objects -- PolarGrid and the base class Grid, with RegularCoords and
# SeparatedCoords -- through every resampling entry point.  Clause: the sub-grids / derived grids keep the coordinate system
# (class) of the grid they were derived from; a generator that consults the coordinate system (grid.as_('polar'), .r, .theta)
# then sees an affine function of (r, theta) supersampled to its direct evaluation.

GRID_CLASSES = ['polar', 'polar', 'polar', 'base', 'cartesian']


def gen_sys(rng, big):
    regular = bool(rng.random() < 0.6)
    n = [int(rng.integers(2, 5 if not big else 7)) for _ in range(2)]
    if regular:
        r0, dr = dyadic(rng, 0.25, 2, 2), float(rng.choice([0.25, 0.5, 1.0]))
        t0, dt = dyadic(rng, -2, 0, 3), float(rng.choice([0.125, 0.25, 0.5]))
        axes = [[r0 + i * dr for i in range(n[0])], [t0 + i * dt for i in range(n[1])]]
    else:
        axes = [np.cumsum([dyadic(rng, 0.25, 2, 2)] + [float(rng.choice([0.25, 0.5, 1.0, 1.5])) for _ in range(n[0] - 1)]).tolist(),
                np.cumsum([dyadic(rng, -2, 0, 3)] + [float(rng.choice([0.125, 0.25, 0.5, 0.375])) for _ in range(n[1] - 1)]).tolist()]
    c0, c = affine_coeffs(rng, 2)
    quad = [0.0, 0.0] if rng.random() < 0.6 else [dyadic(rng, -2, 2, 1) for _ in range(2)]
    ns = [int(rng.integers(1, 4)) for _ in range(2)]
    scalar_n = bool(rng.random() < 0.5)
    if scalar_n:
        ns = [ns[0]] * 2
    return {'fam': 'sys', 'cls': str(rng.choice(GRID_CLASSES)), 'regular': regular, 'axes': axes, 'c0': c0, 'c': c, 'q': quad, 'ns': ns, 'scalar_n': scalar_n,
            'stat': str(rng.choice(['mean', 'mean', 'sum'])), 'access': str(rng.choice(['as_polar', 'r-theta', 'coords'])),
            'vals': [dyadic(rng, -4, 4, 2) for _ in range(n[0] * ns[0] * n[1] * ns[1])]}


def make_sys_grid(cls, axes, regular):
    import hcipy
    if regular:
        co = hcipy.RegularCoords([a[1] - a[0] for a in axes], [len(a) for a in axes], [a[0] for a in axes])
    else:
        co = hcipy.SeparatedCoords([np.array(a, dtype=float) for a in axes])
    return {'polar': hcipy.PolarGrid, 'base': hcipy.Grid, 'cartesian': hcipy.CartesianGrid}[cls](co)


def same_system(g, grid):
    return type(g) is type(grid)


def run_sys(case):
    import hcipy
    bad, lines, cmps = [], [], []
    cls, axes = case['cls'], case['axes']
    info = {'entries': []}
    try:
        grid = make_sys_grid(cls, axes, case['regular'])
    except Exception as e:  # noqa
        return [('grid-raises', 'constructing a %s grid raised %s' % (cls, type(e).__name__))], lines, cmps, info
    c0, c, q = case['c0'], case['c'], case['q']
    wrong = []

    subs = []

    def gen(g):
        if not same_system(g, grid):
            wrong.append(type(g).__name__)
        try:
            subs.append(({'PolarGrid': 'polar', 'CartesianGrid': 'cartesian', 'Grid': 'base'}.get(type(g).__name__, type(g).__name__),
                         [[float(v) for v in a] for a in g.separated_coords]))
        except Exception:  # noqa
            subs.append((type(g).__name__, None))
        if cls == 'polar' and case['access'] == 'as_polar':
            pg = g.as_('polar')
            co = [np.asarray(pg.coords[0]), np.asarray(pg.coords[1])]
        elif cls == 'polar' and case['access'] == 'r-theta':
            co = [np.asarray(g.r), np.asarray(g.theta)]
        elif cls == 'cartesian' and case['access'] != 'coords':
            cg = g.as_('cartesian')
            co = [np.asarray(cg.x), np.asarray(cg.y)]
        else:
            co = [np.asarray(g.coords[k]) for k in range(2)]
        v = c0 + sum(ck * xk for ck, xk in zip(c, co)) + sum(qk * xk * xk for qk, xk in zip(q, co))
        return hcipy.Field(v, g)
    ns = case['ns']
    arg = ns[0] if case['scalar_n'] else ns
    what = '%s(%s)' % ({'polar': 'PolarGrid', 'base': 'Grid', 'cartesian': 'CartesianGrid'}[cls], 'RegularCoords' if case['regular'] else 'SeparatedCoords')
    cnt = int(np.prod(ns))
    pts = grid_points(axes)
    # (a) evaluate_supersampled
    try:
        res = hcipy.evaluate_supersampled(gen, grid, arg, statistic=case['stat'])
        got = to_list(res)
        if wrong:
            bad.append(('supersampled-subgrid-system', 'evaluate_supersampled on a %s hands the generator %d sub-grids of class %s: the dithered sub-grids do not keep the coordinate system'
                        % (what, len(wrong), wrong[0])))
        if getattr(res, 'grid', None) is not grid or len(got) != len(pts):
            bad.append(('supersampled-grid', 'supersampled evaluation on a %s is not a Field of the requested grid' % what))
        elif all(x == 0 for x in q):
            want = [aff(c0, c, p_) * (cnt if case['stat'] == 'sum' else 1) for p_ in pts]
            err = cmp_vals(got, want)
            if err is None or err > TOL:
                bad.append(('supersampled-affine', 'supersampled evaluation (%s, oversampling %r) on a %s of a function affine in the grid coordinates (read through %s) differs from its direct evaluation'
                            % (case['stat'], arg, what, case['access'])))
        else:
            err = cmp_vals(got, ss_reference(axes, c0, c, q, ns, case['stat']))
            if err is None or err > TOL:
                bad.append(('supersampled-value', 'supersampled evaluation (%s, oversampling %r) on a %s of a quadratic function differs from the mean over the dithered sub-pixels' % (case['stat'], arg, what)))
        if not bad:
            lines.append('C18 ss %s %s %s %s %s %s' % (case['stat'], rat(c0), rat_list(c), rat_list(q), rat_lists(axes), '[' + ','.join(str(n) for n in ns) + ']'))
            cmps.append(('ss', got, {}))
            # the sub-grids the generator was handed, against the model's `subGrids` (class and coordinates of every one)
            lines.append('C18 subgrids %s %s %s' % (cls, rat_lists(axes), '[' + ','.join(str(n) for n in ns) + ']'))
            cmps.append(('subgrids', subs, {}))
            info['subgrids'] = len(subs)
        info['entries'].append('evaluate_supersampled')
    except Exception as e:  # noqa
        bad.append(('supersampled-raises', 'evaluate_supersampled on a %s (generator reading the coordinates through %s) raised %s: %s' % (what, case['access'], type(e).__name__, str(e)[:100])))
    # (b) make_supersampled_grid / make_subsampled_grid / subsample_field (regular grids only: NotImplementedError otherwise)
    if case['regular'] and not bad:
        try:
            sg = hcipy.make_supersampled_grid(grid, arg)
            back = hcipy.make_subsampled_grid(sg, arg)
            if not same_system(sg, grid) or not same_system(back, grid):
                bad.append(('resampled-grid-system', 'make_supersampled_grid / make_subsampled_grid of a %s return %s / %s: the coordinate system is not kept'
                            % (what, type(sg).__name__, type(back).__name__)))
            else:
                fine = [[float(v) for v in cc] for cc in sg.separated_coords]
                zero, delta, dims = [float(z) for z in grid.zero], [float(d) for d in grid.delta], [int(d) for d in grid.dims]
                okay = bool(sg.is_regular) and [int(d) for d in sg.dims] == [d * n for d, n in zip(dims, ns)]
                for k in range(2 if okay else 0):
                    want = [fr(zero[k]) + i * fr(delta[k]) + fr(delta[k]) * (Fraction(2 * j + 1, 2 * ns[k]) - Fraction(1, 2)) for i in range(dims[k]) for j in range(ns[k])]
                    err = cmp_vals(fine[k], want, scale=abs(delta[k]))
                    okay = okay and err is not None and err <= TOL
                coarse = [[float(v) for v in cc] for cc in back.separated_coords]
                for k in range(2 if okay else 0):
                    err = cmp_vals(coarse[k], frl(axes[k]), scale=abs(delta[k]))
                    okay = okay and err is not None and err <= TOL
                if not okay:
                    bad.append(('supersampled-grid-points', 'make_supersampled_grid(%s, %r) / make_subsampled_grid back: not the dithered sub-pixel positions / not the original points' % (what, arg)))
                else:
                    lines.append('C18 supergrid %s %s %s %s' % (rat_list(zero), rat_list(delta), '[' + ','.join(str(d) for d in dims) + ']', '[' + ','.join(str(n) for n in ns) + ']'))
                    cmps.append(('supergrid', fine, {'scales': [abs(d) for d in delta]}))
                    info['entries'].append('make_supersampled_grid')
                    vals = case['vals'][:sg.size]
                    f = hcipy.Field(np.array(vals, dtype=float), sg)
                    for give in (False, True):
                        b = hcipy.subsample_field(f, arg, new_grid=grid if give else None, statistic='sum')
                        bg = getattr(b, 'grid', None)
                        if bg is None or not same_system(bg, grid) or (give and bg is not grid):
                            bad.append(('binned-grid-system', 'subsample_field of a field on a supersampled %s (%s) returns a field on a %s'
                                        % (what, 'new_grid given' if give else 'new_grid derived', type(bg).__name__)))
                            break
                        want = brute_bins(frl(vals), dims, ns)
                        err = cmp_vals(to_list(b), want)
                        if err is None or err > TOL:
                            bad.append(('binning-value', 'sum-binning by %r of a field on a supersampled %s differs from the brute-force bins' % (arg, what)))
                            break
                    if not bad:
                        lines.append('C18 bins sum %s %s %s' % ('[' + ','.join(str(n) for n in ns[::-1]) + ']', '[' + ','.join(str(d) for d in dims[::-1]) + ']', rat_list(vals)))
                        cmps.append(('bins', to_list(b), {}))
                        info['entries'].append('subsample_field')
        except Exception as e:  # noqa
            bad.append(('resampling-raises', 'make_supersampled_grid / make_subsampled_grid / subsample_field on a %s raised %s: %s' % (what, type(e).__name__, str(e)[:100])))
    # (c) the interpolators: source = this grid, evaluation grid of the same class; the result lives on the evaluation grid object
    if not bad:
        try:
            src = hcipy.Field(np.array([float(aff(c0, c, p_)) for p_ in pts]), grid)
            ex = sorted(set(axes[0] + [(a + b) / 2 for a, b in zip(axes[0], axes[0][1:])]))
            ey = sorted(set(axes[1] + [(a + b) / 2 for a, b in zip(axes[1], axes[1][1:])]))
            ev = type(grid)(hcipy.SeparatedCoords([np.array(ex), np.array(ey)]))
            epts = grid_points([ex, ey])
            for name, mk in (('linear', hcipy.make_linear_interpolator), ('nearest', hcipy.make_nearest_interpolator)):
                out = mk(src)(ev)
                if getattr(out, 'grid', None) is not ev:
                    bad.append(('interpolated-grid-system', '%s interpolator of a field on a %s: the result does not live on the evaluation grid object' % (name, what)))
                    break
                if name == 'linear':
                    err = cmp_vals(to_list(out), [aff(c0, c, p_) for p_ in epts])
                    if err is None or err > TOL:
                        bad.append(('sep-linear', 'linear interpolator on a %s does not reproduce a function affine in the grid coordinates' % what))
                        break
                else:
                    knots = [i for i, p_ in enumerate(epts) if p_[0] in axes[0] and p_[1] in axes[1]]
                    o = to_list(out)
                    if any(abs(o[i] - float(aff(c0, c, epts[i]))) > TOL * max(1.0, abs(float(aff(c0, c, epts[i])))) for i in knots):
                        bad.append(('sep-nearest', 'nearest interpolator on a %s does not return the sample values at the sample points' % what))
                        break
            info['entries'].append('interpolators')
        except Exception as e:  # noqa
            bad.append(('interpolator-raises', 'interpolating a field on a %s raised %s: %s' % (what, type(e).__name__, str(e)[:100])))
    return bad, lines, cmps, info


RUNNERS = {'sys': run_sys, 'sep': run_sep, 'uns': run_uns, 'bin': run_bin, 'ss': run_ss, 'scale': run_scale, 'reuse': run_reuse}
GENS = {'sys': gen_sys, 'sep': gen_sep, 'uns': gen_uns, 'bin': gen_bin, 'ss': gen_ss, 'scale': gen_scale, 'reuse': gen_reuse}


DIRECTED = [
    {'fam': 'sep', 'regular': False, 'axes': [[0.0, 1.0, 2.0, 4.0], [0.0, 1.0, 3.0]], 'affine': [1.0, [2.0, 3.0]], 'eval_kind': 'self', 'route': 'dispatch'},
    {'fam': 'sep', 'regular': False, 'axes': [[0.0, 1.0, 2.0], [0.0, 1.0, 3.0]], 'affine': [1.0, [2.0, 3.0]], 'eval_kind': 'points',
     'pts': [[1.5, 2.0], [0.5, 0.5], [0.25, 2.75]], 'route': 'dispatch'},
    {'fam': 'sep', 'regular': True, 'axes': [[-1.5, -0.5, 0.5, 1.5], [-1.0, 0.0, 1.0]], 'affine': [0.5, [1.0, -2.0]], 'eval_kind': 'points',
     'pts': [[0.25, 0.75], [-1.5, 1.0], [1.0, -0.5]], 'route': 'separated-default'},
    {'fam': 'sep', 'regular': False, 'axes': [[0.0, 1.0, 2.0], [0.0, 1.0, 2.0]], 'vals': [1.0, 5.0, 2.0, 0.0, -3.0, 4.0, 7.0, 7.5, 1.0], 'eval_kind': 'points',
     'pts': [[1.5, 0.25], [0.5, 1.5], [3.0, 1.0]], 'route': 'separated-fill0'},
    {'fam': 'sep', 'regular': False, 'axes': [[0.0, 0.5, 2.0, 2.5, 4.0]], 'vals': [1.0, 5.0, 2.0, 0.0, -3.0], 'eval_kind': 'points',
     'pts': [[0.25], [1.25], [2.0], [3.5]], 'route': 'dispatch'},
    {'fam': 'uns', 'pts_src': [[0.0, 0.0], [1.0, 0.0], [0.0, 1.0], [1.0, 1.0], [0.5, 0.25]], 'affine': [1.0, [2.0, 3.0]],
     'pts': [[0.5, 0.5], [0.25, 0.125], [0.0, 1.0], [0.875, 0.75]], 'route': 'dispatch'},
    {'fam': 'uns', 'pts_src': [[0.0, 0.0], [2.0, 0.0], [0.0, 2.0], [2.0, 2.0], [1.0, 0.5], [0.5, 1.5]], 'vals': [1.0, -2.0, 4.0, 0.5, 3.0, 8.0],
     'pts': [[0.5, 0.5], [1.25, 1.0], [1.75, 1.875], [3.0, 3.0]], 'route': 'unstructured-default'},
    # found by the thorough tier: SciPy's point location misses the hull vertex (1.875, -3.5)  (known finding)
    {'fam': 'uns', 'pts_src': [[0.75, 2.25], [4.0, 2.375], [-0.625, 0.375], [0.375, 3.875], [-0.625, -1.25], [1.875, -3.5], [1.625, -0.25],
                               [2.0, -3.125], [-1.25, -1.125], [-3.5, 1.5], [-0.5, -3.125]], 'affine': [2.0, [1.0, -3.0]],
     'pts': [[-4.125, 3.0], [1.875, -3.5], [-0.5, 2.0], [0.75, -1.734375], [1.625, -0.25], [0.859375, 1.78125]], 'route': 'unstructured-fill0'},
    # 3-D scattered cloud (tetrahedra): inside, a vertex, on a hull facet, on a hull edge, outside
    {'fam': 'uns', 'cloud': 'scattered3d', 'pts_src': [[0.0, 0.0, 0.0], [2.0, 0.0, 0.0], [0.0, 4.0, 0.0], [0.0, 0.0, 8.0], [0.5, 1.0, 1.0], [2.0, 4.0, 8.0]],
     'affine': [1.0, [2.0, 3.0, -0.5]], 'pts': [[0.25, 0.5, 2.0], [0.5, 1.0, 1.0], [0.5, 1.0, 0.0], [1.0, 0.0, 0.0], [0.75, 1.5, 3.0], [-1.0, 0.0, 0.0]],
     'route': 'unstructured-fill0'},
    {'fam': 'uns', 'cloud': 'scattered3d', 'pts_src': [[0.0, 0.0, 0.0], [2.0, 0.0, 0.0], [0.0, 4.0, 0.0], [0.0, 0.0, 8.0], [0.5, 1.0, 1.0], [2.0, 4.0, 8.0]],
     'vals': [1.0, -2.0, 4.0, 0.5, 3.0, 8.0], 'pts': [[0.25, 0.5, 2.0], [0.5, 1.0, 1.0], [1.0, 2.0, 4.0], [3.0, 3.0, 3.0]], 'route': 'dispatch'},
    # non-dyadic physical scale: the midpoint of a cell is a near-tie for the nearest interpolator (float and exact decision differ)
    {'fam': 'scale', 'S': 1e-08, 'src': {'kind': 'separated', 'axes': [[-1.125e-08, -6.25e-09, 1e-08], [-2.25e-08, -2.1250000000000002e-08]]},
     'values': {'affine': [-1.5, [-275000000.0, 50000000.0]]},
     'eval': ['points', [[-4.218749999999999e-09, -2.234375e-08], [1e-08, -2.1718750000000004e-08], [1.8750000000000007e-09, -2.25e-08]]]},
    # focal-plane-sized pixels: an evaluation grid shifted by 0.7 pixel is *not* the source grid (seeded defect C18-6)
    {'fam': 'scale', 'S': 2.0 ** -27, 'src': {'kind': 'regular', 'axes': [[x * 2.0 ** -27 for x in (0.0, 1.0, 2.0, 3.0)], [y * 2.0 ** -27 for y in (0.0, 1.0, 2.0)]]},
     'values': {'affine': [1.0, [2.0 * 2.0 ** 27, 3.0 * 2.0 ** 27]]}, 'eval': ['shifted', 0.7, [0.7 * 2.0 ** -27, 0.0]]},
    # the same grid object used, reversed (copy and in place), used again (seeded defect C18-7)
    {'fam': 'reuse', 'S': 1.0, 'src': {'kind': 'unstructured', 'pts': [[0.0, 0.0], [2.0, 0.0], [0.0, 2.0], [2.0, 2.0], [1.0, 0.5], [0.5, 1.5]]},
     'eval': {'kind': 'unstructured', 'pts': [[0.5, 0.5], [1.25, 1.0], [1.75, 1.875], [0.25, 1.5]]}, 'seed_values': 7,
     'steps': [{'target': 'src', 'op': ['reverse'], 'inplace': False, 'values': None, 'keep_interp': False},
               {'target': 'eval', 'op': ['reverse'], 'inplace': True, 'values': None, 'keep_interp': True},
               {'target': 'src', 'op': ['scale', [2.0, -1.0]], 'inplace': True, 'values': None, 'keep_interp': False}]},
    # structured clouds stored as unstructured grids (seeded defect C18-3: a lattice "fast path" that assumes native order)
    {'fam': 'uns', 'cloud': 'lattice', 'order': 'y-fastest', 'pts_src': [[x, y] for x in (0.0, 1.0, 2.0, 4.0) for y in (0.0, 1.0, 3.0)],
     'affine': [1.0, [2.0, 3.0]], 'eval_self': True, 'pts': [[x, y] for x in (0.0, 1.0, 2.0, 4.0) for y in (0.0, 1.0, 3.0)], 'route': 'dispatch'},
    {'fam': 'uns', 'cloud': 'lattice', 'order': 'rows-reversed', 'pts_src': [[x, y] for y in (2.0, 1.0, 0.0) for x in (0.0, 1.0, 2.0)],
     'vals': [5.0, 1.0, -2.0, 0.5, 4.0, 8.0, 3.0, -1.0, 2.0], 'pts': [[1.0, 1.0], [0.5, 1.5], [1.75, 0.25], [0.0, 2.0]], 'route': 'dispatch'},
    {'fam': 'uns', 'cloud': 'lattice', 'order': 'native', 'pts_src': [[x, y] for y in (0.0, 1.0, 2.0) for x in (0.0, 1.0, 2.0)],
     'affine': [0.5, [1.0, -2.0]], 'pts': [[1.0, 1.0], [0.5, 1.5], [1.75, 0.25], [3.0, 3.0]], 'route': 'dispatch-fill0'},
    {'fam': 'uns', 'cloud': 'collinear', 'pts_src': [[0.0, 0.0], [2.0, 1.0], [1.0, 0.5], [-1.0, -0.5]], 'vals': [1.0, 2.0, 3.0, 4.0],
     'pts': [[0.5, 0.25], [1.75, 1.0], [-3.0, 2.0], [0.0, 0.0]], 'route': 'dispatch'},
    {'fam': 'bin', 'dims': [2, 3], 'ss': [2, 3], 'spell': 'array', 'stat': 'sum', 'delta': [1.0, 0.5], 'vals': [float((5 * i) % 13) for i in range(36)], 'give_grid': False},
    {'fam': 'bin', 'dims': [3, 2], 'ss': [1, 2], 'spell': 'list', 'stat': 'mean', 'delta': [1.0, -1.0], 'vals': [float((3 * i) % 7) for i in range(12)], 'give_grid': True},
    {'fam': 'bin', 'dims': [2, 2], 'ss': [2, 2], 'spell': 'array1', 'stat': 'sum', 'delta': [1.0, 1.0], 'vals': [float(i) for i in range(16)], 'give_grid': False},
    {'fam': 'bin', 'dims': [2, 1], 's': 2, 'tshape': [], 'regular': True, 'delta': [1.0, 1.0], 'stat': 'sum', 'vals': [1.0, 2, 3, 4, 5, 6, 7, 8], 'give_grid': False},
    {'fam': 'bin', 'dims': [2, 3], 's': 3, 'tshape': [2], 'regular': True, 'delta': [0.5, 2.0], 'stat': 'mean', 'vals': [float((7 * i) % 11) for i in range(108)], 'give_grid': True},
    {'fam': 'bin', 'dims': [2, 2], 's': 2, 'tshape': [], 'regular': False, 'axes': [[0.0, 1.0, 3.0, 3.5], [0.0, 0.5, 1.0, 4.0]], 'stat': 'mean',
     'vals': [float(i) for i in range(16)], 'give_grid': True},
    {'fam': 'ss', 'regular': False, 'axes': [[0.0, 1.0, 2.0, 4.0], [0.0, 1.0, 3.0]], 'c0': 1.0, 'c': [2.0, 3.0], 'q': [0.0, 0.0], 'ns': [2, 2], 'scalar_n': True, 'stat': 'mean'},
    {'fam': 'ss', 'regular': True, 'axes': [[-0.5, 0.0, 0.5], [-0.5, 0.5]], 'c0': 1.0, 'c': [2.0, 3.0], 'q': [1.0, 0.0], 'ns': [2, 3], 'scalar_n': False, 'stat': 'sum'},
]


def check_case(ctx, case, all_lines, index):
    bad, lines, cmps, info = RUNNERS[case['fam']](case)
    for key, what in bad:
        ctx.violation(key, what, case)
    fam = case['fam']
    ctx.count('family:' + fam)
    if fam in ('sep', 'ss'):
        ctx.count('%s:ndim=%d' % (fam, len(case['axes'])))
        ctx.count('%s:%s' % (fam, 'regular' if case['regular'] else 'irregular-separated'))
    if fam == 'sep':
        ctx.count('sep:class:' + info['class'])
        ctx.count('sep:dirs:' + info['dirs'])
        ctx.count('sep:via:' + case.get('via', ['direct'])[0])
        if case['eval_kind'] in ('separated', 'regular'):
            ctx.count('sep:eval-dirs:' + dirs_of(case['eaxes']))
        if not info['axes_as_requested']:
            ctx.count('sep:grid-coordinates-differ-from-request')
        ctx.count('sep:eval:' + case['eval_kind'])
        ctx.count('sep:route:' + case['route'])
        ctx.count('sep:points_inside', info['n_inside'])
        ctx.count('sep:points_outside', info['n_outside'])
        ctx.count('sep:' + ('affine' if 'affine' in case else 'random-values'))
        sig = (fam, tuple(len(a) for a in case['axes']), info['dirs'], case['regular'], 'affine' in case, case['eval_kind'], case['route'], info['npts'])
    elif fam == 'uns':
        ctx.count('uns:route:' + case['route'])
        ctx.count('uns:cloud:' + case.get('cloud', 'scattered'))
        if 'order' in case:
            ctx.count('uns:lattice-order:' + case['order'])
        if case.get('eval_self'):
            ctx.count('uns:evaluated-on-source-grid')
        ctx.count('uns:points_inside_hull', info['n_inside'])
        ctx.count('uns:points_outside_hull', info['n_outside'])
        ctx.count('uns:points_on_hull_boundary', info['n_boundary'])
        ctx.count('uns:ndim=%d' % info.get('nd', 2))
        ctx.count('uns:points_located_exactly', info.get('n_located', 0))
        ctx.count('uns:' + ('affine' if 'affine' in case else 'random-values'))
        sig = (fam, case.get('cloud', 'scattered'), case.get('order'), info['n_src'], 'affine' in case, case['route'], info['npts'])
    elif fam == 'bin' and 'ss' in case:
        ctx.count('bins:ndim=%d' % len(case['dims']))
        ctx.count('bins:spelling:' + case['spell'])
        ctx.count('bins:' + ('uniform-factors' if len(set(case['ss'])) == 1 else 'different-factors'))
        ctx.count('bins:stat:' + case['stat'])
        ctx.count('bins:' + ('regular' if not info.get('irregular') else 'separated-weighted' if info.get('weighted') else 'separated'))
        ctx.count('bin:coordinate-scale:' + scale_label(case.get('S', 1.0)))
        if info.get('weighted'):
            ctx.count('bin:weighted-mean:coordinate-scale:' + scale_label(case.get('S', 1.0)))
        ctx.count('binpix:images', info.get('binpix', 0))
        sig = (fam, tuple(case['dims']), tuple(case['ss']), case['spell'], case['stat'], info.get('irregular'), case.get('S', 1.0))
    elif fam == 'bin':
        ctx.count('bin:ndim=%d' % len(case['dims']))
        ctx.count('bin:s=%d' % case['s'])
        ctx.count('bin:dirs:' + (''.join('d' if d < 0 else 'u' for d in case['delta']) if case['regular'] else dirs_of(case['axes'])))
        ctx.count('bin:stat:' + case['stat'])
        ctx.count('bin:tensor_shape:%s' % (case['tshape'],))
        if info.get('ncomp', 1) > 1 and not info.get('weighted'):
            ctx.count('bintl:' + case['stat'])
        ctx.count('binpix:images', info.get('binpix', 0))
        ctx.count('bin:' + ('regular' if case['regular'] else 'separated-weighted' if case['stat'] == 'mean' else 'separated'))
        ctx.count('bin:coordinate-scale:' + scale_label(case.get('S', 1.0)))
        if info.get('weighted'):
            ctx.count('bin:weighted-mean:coordinate-scale:' + scale_label(case.get('S', 1.0)))
        sig = (fam, tuple(case['dims']), case['s'], tuple(case['tshape']), case['stat'], case['regular'], case.get('S', 1.0))
    elif fam == 'scale':
        ctx.count('scale:source:' + info['kind'])
        ctx.count('scale:S=%g' % case['S'])
        ctx.count('scale:eval:' + info['eval'] + ('' if info['frac'] is None else ':%g' % info['frac']))
        sig = (fam, info['kind'], case['S'], info['eval'], info['frac'], 'affine' in case['values'])
    elif fam == 'reuse':
        ctx.count('reuse:source:' + info['kind'])
        ctx.count('reuse:eval:' + info['ekind'])
        for stp in case['steps']:
            ctx.count('reuse:op:%s.%s:%s' % (stp['target'], stp['op'][0], 'in-place' if stp['inplace'] else 'copy'))
            if stp['target'] == 'eval' and stp['keep_interp']:
                ctx.count('reuse:old-interpolator-on-changed-evaluation-grid')
                if stp['inplace']:
                    ctx.count('reuse:old-interpolator-on-the-same-evaluation-grid-object-changed-in-place:' + stp['op'][0])
        sig = (fam, info['kind'], info['ekind'], tuple((t['target'], t['op'][0], t['inplace']) for t in case['steps']))
    elif fam == 'sys':
        ctx.count('sys:grid:%s(%s)' % (case['cls'], 'RegularCoords' if case['regular'] else 'SeparatedCoords'))
        ctx.count('sys:generator-reads-coordinates-through:' + case['access'])
        for e_ in info.get('entries', []):
            ctx.count('sys:entry:' + e_)
        sig = (fam, case['cls'], case['regular'], tuple(len(a) for a in case['axes']), tuple(case['ns']), case['stat'], case['access'])
    else:
        ctx.count('ss:stat:' + case['stat'])
        ctx.count('ss:coordinate-scale:' + scale_label(case.get('S', 1.0)))
        ctx.count('ss:dirs:' + dirs_of(case['axes']))
        ctx.count('ss:' + ('affine' if info.get('affine') else 'quadratic'))
        ctx.count('ss:dithers', info.get('dithers', 0))
        ctx.count('ss:supersampled-grids-compared', info.get('supergrid', 0))
        sig = (fam, tuple(len(a) for a in case['axes']), tuple(case['ns']), case['stat'], info.get('affine'), case.get('S', 1.0))
    ctx.case({k: v for k, v in case.items() if k not in ('vals',)} if ctx.evaluations % 97 == 0 else None, nontrivial_key=sig)
    base = len(all_lines)
    all_lines += lines
    index.append((case, cmps, base, bool(bad)))


def parse_vals(tok):
    """'[a,nan,b]' -> list of Fraction/None"""
    assert tok[0] == '[' and tok[-1] == ']', tok
    inner = tok[1:-1]
    return [] if not inner else [None if t == 'nan' else Fraction(t) for t in inner.split(',')]


def compare_model(ctx, out, case, cmps, base, had_bad):
    for k, (stream, got, opt) in enumerate(cmps):
        if had_bad and stream != 'simplex-loc':
            # the oracle already failed on this case; only the exact point location (which the key of the violation
            # rests on) is still compared with the model
            continue
        resp = out[base + k]
        ctx.traces_validated += 1
        if stream == 'simplex-loc':
            loc, lam = got
            want = 'ok %s %s' % (loc, '[' + ','.join(str(x.numerator) if x.denominator == 1 else '%d/%d' % (x.numerator, x.denominator) for x in lam) + ']')
            mine = resp.split()
            ok = len(mine) == 3 and mine[1] == loc and parse_vals(mine[2]) == list(lam)
            ctx.count('simplex-loc:' + loc)
            if not ok:
                ctx.disagree('C18 simplex-loc', {'case': case, 'model': resp, 'harness': want})
                return
            continue
        if not resp.startswith('ok'):
            ctx.disagree('C18 ' + stream, {'case': case, 'model': resp, 'impl': got})
            return
        body = resp[3:]
        if stream == 'near-uns':
            body, sep_, first = body.partition(' first ')
            if not sep_:
                raise MachineryError('near-uns response without the nearestUnstructured values: %r' % resp[:80])
            groups = [] if body == '-' else [parse_vals(g) for g in body.split(';')]
            first = parse_vals(first)
            skip = opt.get('skip') or set()
            # `nearestUnstructured` (the definition the theorems speak about) must pick one of the minimisers, and where
            # the closest sample value is unique the real interpolator must return exactly that value
            if len(first) != len(groups) or any(f is None or f not in grp for f, grp in zip(first, groups)):
                raise MachineryError('nearestUnstructured is not among the minimisers: %r' % resp[:200])
            for i, (g, f, grp) in enumerate(zip(got, first, groups)):
                if i in skip:
                    continue
                if len(set(grp)) == 1:
                    ctx.count('near-uns:unique-closest-value')
                    if g != float(f):
                        ctx.disagree('C18 near-uns first', {'case': case, 'model': resp, 'impl': got, 'index': i})
                        return
                else:
                    ctx.count('near-uns:tie-between-different-values')
            ctx.boundary_skipped += len(skip)
            if len(groups) != len(got) or any(g not in [float(v) for v in grp] for i, (g, grp) in enumerate(zip(got, groups)) if i not in skip):
                ctx.disagree('C18 near-uns', {'case': case, 'model': resp, 'impl': got})
                return
            ctx.count('near-uns:ties', sum(1 for grp in groups if len(set(grp)) > 1))
            continue
        if stream == 'subgrids':
            ms = [(t.partition(':')[0], [parse_vals(a) for a in t.partition(':')[2].split(';')]) for t in body.split('|')]
            good = len(ms) == len(got) and all(ga is not None for _, ga in got)
            if good:
                # the order in which the dithers are visited is not part of the property: compare as sets
                ms = sorted(ms, key=lambda t: [float(a[0]) for a in t[1]])
                got = sorted(got, key=lambda t: [a[0] for a in t[1]])
            for (msys, maxes), (gsys, gaxes) in zip(ms, got):
                if not good:
                    break
                good = msys == gsys and gaxes is not None and len(maxes) == len(gaxes)
                for ma, ga in zip(maxes, gaxes if good else []):
                    e = cmp_vals(ga, ma)
                    good = good and e is not None and e <= TOL
            ctx.count('sys:sub-grids-compared', len(got))
            if not good:
                ctx.disagree('C18 subgrids', {'case': case, 'model': resp[:400], 'impl': got})
                return
            continue
        if stream == 'supergrid':
            axes_m = [parse_vals(t) for t in body.split(';')]
            errs = [cmp_vals(g, w, scale=sc) for g, w, sc in zip(got, axes_m, opt['scales'])] if len(axes_m) == len(got) else [None]
            if any(e is None or e > TOL for e in errs):
                ctx.disagree('C18 supergrid', {'case': case, 'model': resp, 'impl': got})
                return
            continue
        if stream in ('lin-tri', 'lin-simplex'):
            want = [None if body == 'nan' else Fraction(body)]
            if want[0] is None:
                ctx.boundary_skipped += 1       # SciPy put the point into a degenerate (zero-area) simplex
                continue
        else:
            want = parse_vals(body)
        if opt.get('nan') is not None:
            want = [Fraction(opt['nan']) if w is None else w for w in want]
        if opt.get('skip'):
            ctx.boundary_skipped += len(opt['skip'])
            keep = [i for i in range(len(got)) if i not in opt['skip']]
            if len(want) == len(got):
                got, want = [got[i] for i in keep], [want[i] for i in keep]
        err = cmp_vals(got, want)
        if err is None or err > TOL:
            ctx.disagree('C18 ' + stream, {'case': case, 'model': resp, 'impl': got, 'err': err})
            return


def run(ctx):
    ctx.rule = ('six families, equal shares: (sep) linear and nearest interpolators on regular and irregular separated source '
                'grids, 1-3 D, non-square / square with different axes / square, affine or random sample values, evaluated on '
                'unstructured, separated, regular grids or the source grid itself, points on knots, on cell midpoints (nearest '
                'ties), inside and outside the domain, through the dispatcher and the direct constructors; (uns) the same on '
                'scattered 2-D grids, the simplex SciPy picks is handed to the model; (bin) subsample_field sum/mean, factor 1-4, '
                '1-3 D, scalar and tensor fields, regular and separated (weighted-mean) grids, one fifth with per-axis factors given as array / list '
                '(op bins); (ss) evaluate_supersampled of '
                'affine and quadratic generators, scalar and per-axis oversampling, mean and sum; (scale) the interpolators at '
                'physical scales 2^-30 .. 2^20 and 1e-9 .. 1e6 on nearly-equal evaluation grids; (reuse) grid objects used again '
                'after in-place / copying reverse, scale, shift. Non-trivial = every case '
                '(each evaluates at least one interpolant or bin); distinct by family-specific shape signature.')
    ctx.assumptions += ['scipy RegularGridInterpolator / LinearNDInterpolator / NearestNDInterpolator meet their specification',
                        'the Delaunay simplex containing each evaluation point is read from the SciPy object inside the interpolator closure',
                        'all coordinates and values are short dyadic rationals, so squared distances and comparisons are exact in float']
    n = ctx.scale(4000, 60000)
    cases = list(DIRECTED)
    fams = ['sep', 'uns', 'bin', 'ss', 'scale', 'reuse']
    for k in range(n):
        fam = fams[k % 6]
        cases.append(GENS[fam](ctx.rng, big=(ctx.tier == 'thorough' and k % 3 == 0)))
    for k in range(ctx.scale(300, 4000)):
        cases.append(gen_sys(ctx.rng, big=(ctx.tier == 'thorough' and k % 3 == 0)))
    all_lines, index = [], []
    for case in cases:
        check_case(ctx, case, all_lines, index)
    out = ctx.model(all_lines)
    for case, cmps, base, had_bad in index:
        compare_model(ctx, out, case, cmps, base, had_bad)
    if ctx.boundary_skipped > 0.05 * max(1, ctx.traces_validated):
        raise MachineryError('more than 5%% of the comparisons were skipped as boundary cases (%d of %d)' % (ctx.boundary_skipped, ctx.traces_validated))


def replay(ctx, case):
    bad = RUNNERS[case['fam']](case)[0]
    for key, what in bad:
        print('  fails:', key, '-', what)
    return not bad
