"""C06 — every optical element is a linear (fibre injection: conjugate-linear), repeatable map that
leaves the wavefront passed in intact.

Oracle (independent of the Lean model), per registry entry x wavefront kind x direction x wavelength:
  (i)   snapshot of the input (field bytes, dtype, shape, grid identity + grid contents, wavelength,
        input Stokes vector, total power, the Field the wavefront was built from) before/after the call;
  (ii)  the same call twice, a call with another wavefront in between, and a fresh element: same result;
  (iii) forward(a E1 + E2) = a forward(E1) + forward(E2) on random dyadic complex fields (conj(a) where the
        registry says the code conjugates), same for backward.
Correspondence with the model:
  effects  the store-effect program of the element family (Model/Elements.lean) predicts whether the result
           is the input object, whether it shares the input's memory, and the sequence of attribute writes on
           the input object; observed with a tracing Wavefront subclass;
  denote   the IR term of the family, filled with the element's own exposed parameters (masks, Jones matrices,
           fibre modes, projection matrices, sub-propagators probed as dense matrices), is evaluated exactly by
           the model at Gaussian rationals and compared with what forward/backward returned.
"""
import contextlib
import copy
import io
import json
import warnings

import numpy as np

from harness import registry
from harness.common import MachineryError, rat

TOL_LIN = 1e-9
TOL_REP = 1e-12
TOL_MODEL = 1e-9


# ---------------------------------------------------------------------------------------------
# observation helpers

_TRACE = {'target': None, 'log': None, 'touch': None, 'created': 0}
_TRACED_CLS = []


def traced_class():
    """A Wavefront subclass that records attribute writes made on one designated object.  Installing it also
    instruments `hcipy.Wavefront.__init__` and `.copy` (transparent wrappers, active only during a traced call):
    every wavefront object created during the call is counted, and what is done *to the designated object* is
    recorded in order -- `.copy()` called on it ('copy'), a new Wavefront constructed around its very array ('wrap'),
    attribute writes (the attribute's name)."""
    if not _TRACED_CLS:
        import hcipy
        base = hcipy.Wavefront
        orig_init, orig_copy = base.__init__, base.copy

        def counting_init(self, *args, **kwargs):
            orig_init(self, *args, **kwargs)
            tgt = _TRACE['target']
            if tgt is not None and _TRACE['touch'] is not None and self is not tgt:
                _TRACE['created'] += 1
                if np.shares_memory(np.asarray(self.electric_field), np.asarray(tgt.electric_field)):
                    _TRACE['touch'].append('wrap')

        def counting_copy(self):
            tgt = _TRACE['target']
            if tgt is not None and _TRACE['touch'] is not None:
                _TRACE['created'] += 1
                if self is tgt:
                    _TRACE['touch'].append('copy')
            return orig_copy(self)
        counting_init.__doc__, counting_copy.__doc__ = orig_init.__doc__, orig_copy.__doc__
        base.__init__ = counting_init
        base.copy = counting_copy

        class TracedWavefront(hcipy.Wavefront):
            def __setattr__(self, k, v):
                if _TRACE['target'] is self and _TRACE['log'] is not None:
                    _TRACE['log'].append(k)
                    if _TRACE['touch'] is not None:
                        _TRACE['touch'].append(k)
                object.__setattr__(self, k, v)
        _TRACED_CLS.append(TracedWavefront)
    return _TRACED_CLS[0]


def make_wf(field, kind, wavelength, stokes):
    cls = traced_class()
    if kind == 'tensor':
        return cls(field, wavelength, input_stokes_vector=np.array(stokes, dtype=float))
    return cls(field, wavelength)


def grid_bytes(grid):
    """Bytes that determine the grid: the defining arrays of its coordinates (delta/dims/zero of a regular grid, the
    per-axis arrays of a separated grid, the point arrays of an unstructured grid) and its weights (materialised)."""
    c = grid.coords
    d = c.__dict__
    if 'delta' in d and 'dims' in d and 'zero' in d:
        arrs = [d['delta'], d['dims'], d['zero']]
    elif 'separated_coords' in d:
        arrs = list(d['separated_coords'])
    elif 'coords' in d:
        arrs = list(d['coords'])
    else:
        arrs = list(c)
    parts = [type(c).__name__.encode()] + [np.ascontiguousarray(np.asarray(a, dtype=float)).tobytes() for a in arrs]
    w = grid.weights
    parts.append(np.ascontiguousarray(np.asarray(w, dtype=float)).tobytes())
    return b'|'.join(parts)


def raw_arrays(obj):
    """Digest of every array / scalar reachable from `obj` through __dict__, containers, and the `.grid` of a Field —
    read WITHOUT calling any property (so nothing lazy is materialised). path -> digest."""
    snap = state_snapshot(obj, deep_grids=True)
    return {path: dig for path, (o, dig, owners, arr) in snap.items() if not path.endswith(('#attrs',))}


def snapshot(wf, base_field, lazy=False, deep=False):
    """What 'the wavefront passed in' consists of. With lazy=True the quantities that materialise caches when read
    (grid weights, total power) are read from a deep copy, so the input itself stays as the caller built it."""
    with warnings.catch_warnings():
        warnings.simplefilter('ignore')
        return _snapshot(wf, base_field, lazy, deep)


def _snapshot(wf, base_field, lazy, deep):
    ef = wf.electric_field
    sem = copy.deepcopy(wf) if lazy else wf
    s = {
        'field-values': np.asarray(ef).tobytes(),
        'field-dtype': str(ef.dtype),
        'field-shape': tuple(ef.shape),
        'field-object': id(ef),
        'grid-identity': id(ef.grid),
        'grid-contents': grid_bytes(sem.electric_field.grid),
        'wavelength': (type(wf.wavelength).__name__, repr(wf.wavelength)),
        'stokes-vector': None if wf.input_stokes_vector is None else (id(wf.input_stokes_vector), np.asarray(wf.input_stokes_vector).tobytes()),
        'attributes': tuple(sorted(wf.__dict__.keys())),
        'source-field-values': np.asarray(base_field).tobytes(),
        'source-field-grid': id(base_field.grid),
    }
    if deep:
        with warnings.catch_warnings():
            warnings.simplefilter('ignore')
            s['total-power'] = repr(float(np.real(sem.total_power)))
        for path, dig in raw_arrays(wf).items():
            s['reachable:' + path] = dig
    return s


def snap_diff(a, b):
    res = []
    for k in a:
        if k.startswith('reachable:'):
            # a cache that was empty before and is filled now (lazily computed weights) is not a modification of the
            # input; its VALUE is covered by grid-contents / total-power, which are compared against a deep copy
            if a[k] == repr(None):
                continue
            if k not in b or a[k] != b[k]:
                res.append('reachable-array ' + k[len('reachable:'):].rsplit('.', 1)[-1])
        elif a[k] != b[k]:
            res.append(k)
    return res


def call(el, direction, wf, trace=None, touch=None):
    """Run forward/backward; returns a list of output wavefronts (one unless the element splits).
    `trace`: list receiving the names of the attributes of `wf` that are assigned during the call;
    `touch`: list receiving, in order, 'copy' / 'wrap' / attribute names (see traced_class), followed at the end by
    the number of wavefront objects created during the call."""
    _TRACE['target'] = wf if trace is not None else None
    _TRACE['log'] = trace
    _TRACE['touch'] = touch if trace is not None else None
    _TRACE['created'] = 0
    try:
        with contextlib.redirect_stdout(io.StringIO()), warnings.catch_warnings():
            warnings.simplefilter('ignore')
            out = getattr(el, direction)(wf)
    finally:
        _TRACE['target'] = None
        _TRACE['log'] = None
        _TRACE['touch'] = None
        if touch is not None:
            touch.append(_TRACE['created'])
    if isinstance(out, (tuple, list)):
        return list(out), True
    return [out], False


def out_arrays(outs):
    return [np.array(o.electric_field, dtype=complex, copy=True) for o in outs]


def out_meta(outs):
    res = []
    for o in outs:
        sv = o.input_stokes_vector
        res.append((tuple(o.electric_field.shape), grid_bytes(o.electric_field.grid), float(o.wavelength),
                    None if sv is None else tuple(float(x) for x in np.asarray(sv).ravel())))
    return res


def maxabs(a):
    return float(np.max(np.abs(a))) if np.size(a) else 0.0


def same(xs, ys, tol, scale):
    if len(xs) != len(ys):
        return False, float('inf')
    worst = 0.0
    for x, y in zip(xs, ys):
        if x.shape != y.shape:
            return False, float('inf')
        if not (np.all(np.isfinite(x)) and np.all(np.isfinite(y))):
            if not np.array_equal(x, y, equal_nan=True):
                return False, float('nan')
            continue
        worst = max(worst, maxabs(x - y))
    return worst <= tol * max(1.0, scale), worst


# ---------------------------------------------------------------------------------------------
# element-internal state: recursive snapshot of the element and everything it owns

import hashlib
import types

# attribute names of memo cells / scratch buffers per family; overwritten at run time by what the Lean
# model declares (`C06 internal NAME`), see `load_internal_declarations`
INTERNAL_FAMILIES = ('stateless', 'agnosticInstance', 'propagator', 'mirrorSurface', 'layerScreen', 'fourierObject', 'modulatedPyramid')
DECLARED = {
    'stateless': ((), ()),
    'agnosticInstance': (('_instance_data_cache', '_num_in_cache'), ()),
    'propagator': (('_instance_data_cache', '_num_in_cache'), ()),
    'mirrorSurface': (('_surface', '_actuators_for_cached_surface'), ()),
    'layerScreen': (('_achromatic_screen',), ()),
    'fourierObject': (('M', 'M1', 'M2', 'weights_input', 'weights_output', 'matrices_dtype', 'intermediate_dtype',
                       '_transfer_function', 'internal_array', 'intermediate_array'), ('internal_array', 'intermediate_array')),
    'modulatedPyramid': (('tip_tilt_mirror',), ()),
}


def internal_family(obj):
    """Which program with element-internal cells (Model/Elements.lean) describes the object owning an attribute."""
    import hcipy
    mod = type(obj).__module__ or ''
    if mod.startswith('hcipy.fourier'):
        return 'fourierObject'
    if isinstance(obj, hcipy.ModulatedPyramidWavefrontSensorOptics):
        return 'modulatedPyramid'
    if isinstance(obj, hcipy.DeformableMirror):
        return 'mirrorSurface'
    if isinstance(obj, hcipy.AtmosphericLayer):
        return 'layerScreen'
    if isinstance(obj, (hcipy.FraunhoferPropagator, hcipy.FresnelPropagator, hcipy.AngularSpectrumPropagator)):
        return 'propagator'
    if isinstance(obj, hcipy.AgnosticOpticalElement):
        return 'agnosticInstance'
    return 'stateless'


def _digest(b):
    return hashlib.blake2b(b, digest_size=12).digest()


def state_snapshot(el, deep_grids=False):
    """path -> (object, digest, owners, is_array). `owners` = ((family, class name, attribute), ...) for every attribute
    step of the path. The objects are kept alive by the snapshot so that identity comparisons are meaningful."""
    import hcipy
    import scipy.sparse
    out = {}
    seen = {}

    def walk(obj, path, owners, depth):
        if isinstance(obj, np.ndarray):
            out[path] = (obj, (str(obj.dtype), obj.shape, _digest(np.ascontiguousarray(obj).tobytes())), owners, True)
            if deep_grids and isinstance(getattr(obj, '__dict__', None), dict) and 'grid' in obj.__dict__:
                walk(obj.__dict__['grid'], path + '.grid', owners, depth + 1)
            return
        if obj is None or isinstance(obj, (bool, int, float, complex, str, bytes, np.generic)):
            out[path] = (obj, repr(obj), owners, False)
            return
        if isinstance(obj, (types.FunctionType, types.MethodType, types.BuiltinFunctionType, type, types.ModuleType)):
            out[path] = (obj, 'callable', owners, False)
            return
        if scipy.sparse.issparse(obj):
            out[path] = (obj, ('sparse', obj.shape, _digest(np.ascontiguousarray(obj.data).tobytes())), owners, True)
            return
        if isinstance(obj, hcipy.Grid) and not deep_grids:
            out[path] = (obj, ('grid', _digest(grid_bytes(obj))), owners, True)
            return
        if isinstance(obj, np.random.Generator):
            out[path] = (obj, repr(obj.bit_generator.state), owners, True)
            return
        if id(obj) in seen or depth > 14:
            out[path] = (obj, ('ref', id(obj)), owners, False)
            return
        seen[id(obj)] = obj
        if isinstance(obj, dict):
            out[path + '#keys'] = (obj, repr(list(obj.keys())), owners, False)
            for k, v in obj.items():
                walk(v, '%s[%r]' % (path, k), owners, depth + 1)
            return
        if isinstance(obj, (list, tuple)):
            out[path + '#len'] = (obj, len(obj), owners, False)
            for i, v in enumerate(obj):
                walk(v, '%s[%d]' % (path, i), owners, depth + 1)
            return
        d = getattr(obj, '__dict__', None)
        if not isinstance(d, dict):
            out[path] = (obj, 'opaque:' + type(obj).__name__, owners, False)
            return
        out[path + '#attrs'] = (obj, tuple(sorted(d.keys())), owners, False)
        fam = internal_family(obj)
        cname = type(obj).__name__
        for k, v in list(d.items()):
            walk(v, path + '.' + k, owners + ((fam, cname, k),), depth + 1)

    with warnings.catch_warnings():
        warnings.simplefilter('ignore')
        walk(el, 'el', (), 0)
    return out


def load_internal_declarations(ctx):
    """Ask the model which attributes each family's program with element-internal cells declares as memo cells /
    scratch buffers (and that the checker accepts the program); the classification of observed changes uses these."""
    answers = ctx.model(['C06 internal ' + f for f in INTERNAL_FAMILIES])
    for fam, ans in zip(INTERNAL_FAMILIES, answers):
        toks = ans.split(' ')
        if len(toks) != 4 or toks[0] != 'ok' or not toks[2].startswith('memo=') or not toks[3].startswith('scratch='):
            raise MachineryError('unexpected answer to C06 internal %s: %r' % (fam, ans))
        if toks[1] != 'safe=1':
            ctx.disagree('C06 internal', {'family': fam, 'model': ans, 'note': 'program not accepted by safeInternal'})
        memo = tuple(t for t in toks[2][5:].split(',') if t != '-')
        scratch = tuple(t for t in toks[3][8:].split(',') if t != '-')
        DECLARED[fam] = (memo, scratch)
    ctx.extra['internal_declared'] = {f: {'memo': list(DECLARED[f][0]), 'scratch': list(DECLARED[f][1])} for f in INTERNAL_FAMILIES}


def state_diff(a, b):
    """[(kind, path, owners, is_array)], kind in created / deleted / inplace / rebound / rebound-same."""
    res = []
    for path in sorted(set(a) | set(b)):
        if path not in a:
            res.append(('created', path) + b[path][2:])
            continue
        if path not in b:
            res.append(('deleted', path) + a[path][2:])
            continue
        (oa, da, _, _), (ob, db, ow, arr) = a[path], b[path]
        if oa is ob:
            if da != db:
                res.append(('inplace', path, ow, arr))
        elif da != db:
            res.append(('rebound', path, ow, arr))
        elif arr:
            res.append(('rebound-same', path, ow, arr))
    return res


def classify_change(kind, path, owners, is_array):
    """-> (verdict, cell) with verdict in 'scratch' | 'memo' | 'mutated' | 'undeclared';
    cell = 'OwnerClass.attr' of the declared cell (or of the leaf)."""
    leaf = owners[-1] if owners else ('stateless', '?', path)
    if leaf[2] in DECLARED.get(leaf[0], ((), ()))[1]:
        return 'scratch', '%s.%s' % (leaf[1], leaf[2])
    for fam, cname, attr in owners:
        if attr in DECLARED.get(fam, ((), ()))[0]:
            if kind == 'inplace' and is_array:
                # the bytes of an existing array changed: not a fill (a fill stores a new value under its key)
                return 'mutated', '%s.%s' % (cname, attr)
            return 'memo', '%s.%s' % (cname, attr)
    if kind == 'inplace' and is_array:
        return 'mutated', '%s.%s' % (leaf[1], leaf[2])
    if path.endswith('#attrs'):
        return 'attrs', '%s' % (leaf[1] if owners else 'element')
    return 'undeclared', '%s.%s' % (leaf[1], leaf[2])


SKIP_IN_FRESH_COMPARISON = ('#keys', '#attrs', '#len')


def compare_with_fresh(used, fresh):
    """Paths of the fresh element's state (after the last call alone) whose value differs in the used element."""
    bad = []
    for path, (obj, dig, owners, arr) in fresh.items():
        if path.endswith(SKIP_IN_FRESH_COMPARISON) or not owners:
            continue
        leaf = owners[-1]
        if leaf[2] in DECLARED.get(leaf[0], ((), ()))[1] or leaf[2] == '_num_in_cache':
            continue
        if isinstance(dig, tuple) and dig and dig[0] == 'ref':
            continue
        if dig == 'callable' or (isinstance(dig, str) and dig.startswith('opaque:')):
            continue
        if path not in used:
            bad.append(('missing', path, owners))
        elif used[path][1] != dig:
            bad.append(('differs', path, owners))
    return bad



# ---------------------------------------------------------------------------------------------
# one case of the oracle

def case_rng(case):
    return np.random.default_rng(list(case['data_seed']))


def find_entry(case):
    if case.get('registry') == 'options':
        ents = registry.option_elements(np.random.default_rng(list(case['reg_seed'])))
    else:
        ents = registry.elements(np.random.default_rng(list(case['reg_seed'])), only=[case['entry']])
    for e in ents:
        if e.name == case['entry']:
            return e
    raise MachineryError('registry has no entry %r' % case['entry'])


def run_case(entry, el, case, fresh_el=None, track=False):
    """Evaluate the clauses of C06 on one (element, kind, direction, wavelength, random fields).
    Returns (bad, obs): bad = list of (key, what); obs = observations for the model correspondence."""
    kind, direction, wl = case['kind'], case['direction'], case['wavelength']
    rng = case_rng(case)
    grid = entry.input_grid if direction == 'forward' else entry.output_grid
    conj = entry.conj_forward if direction == 'forward' else entry.conj_backward
    cname = entry.cls.__name__
    tag = '%s %s %s' % (cname, direction, kind)
    bad = []
    obs = {}
    lazy = bool(case.get('lazy_grid', False))
    if lazy:
        # every wavefront on its own, equal, freshly built grid object whose automatic weights are not computed yet
        g1, g2, g3 = registry.fresh_grid(grid), registry.fresh_grid(grid), registry.fresh_grid(grid)
    else:
        # the registry's grid object itself, weights materialised (as after reading wf.total_power)
        g1 = g2 = g3 = grid
        with warnings.catch_warnings():
            warnings.simplefilter('ignore')
            grid.weights
    E1 = registry.make_field(rng, g1, kind, sparse=case.get('sparse', False))
    E2 = registry.make_field(rng, g2, kind)
    a = complex(registry.dyadic_scalar(rng, -2, 2, 4), registry.dyadic_scalar(rng, -2, 2, 4))
    if a == 0:
        a = 1.5 - 0.5j
    stokes = registry.STOKES[int(rng.integers(len(registry.STOKES)))]
    import hcipy
    E3 = hcipy.Field(a * np.asarray(E1) + np.asarray(E2), g3)            # exact: dyadic, few bits
    E1_keep = np.array(E1, copy=True)
    wf1 = make_wf(E1, kind, wl, stokes)
    wf2 = make_wf(E2, kind, wl, stokes)
    wf3 = make_wf(E3, kind, wl, stokes)

    def fail(clause, what):
        bad.append(('%s %s' % (clause, tag), '%s: %s [%s, wavelength %g]' % (clause, what, entry.name, wl)))

    def guarded(element, wf, base, stage, deep=False, trace=None, touch=None):
        """One call with the input snapshotted before and after (every call of the case, not only the first: an element
        may touch its input only on a cache miss, or only on a hit)."""
        b = snapshot(wf, base, lazy, deep)
        res = call(element, direction, wf, trace, touch)
        for k in snap_diff(b, snapshot(wf, base, False, deep)):
            fail('input-modified:' + k, 'the wavefront passed to %s was changed (%s) by the %s' % (direction, k, stage))
        return res

    def state_check(diff, stage):
        """Judge the changes of the element's own state over one call."""
        seen_cells = obs.setdefault('internal', set())
        for ckind, path, owners, arr in diff:
            verdict, cell = classify_change(ckind, path, owners, arr)
            if verdict == 'mutated':
                bad.append(('internal-state-mutated %s %s' % (cname, cell),
                            'internal-state-mutated: %s modified %s in place (%s; same array object, different bytes), which is not a '
                            'memo fill nor a declared scratch buffer [%s, %s %s, wavelength %g]' % (direction, path, stage, entry.name, direction, kind, wl)))
            elif verdict == 'memo' and stage == 'second identical call' and ckind != 'rebound-same':
                bad.append(('internal-state-drifts %s %s' % (cname, cell),
                            'internal-state-drifts: the memo cell %s changed (%s) during a second identical call: its content is not a '
                            'function of (parameters, key) [%s, %s %s, wavelength %g]' % (path, ckind, entry.name, direction, kind, wl)))
            if verdict in ('memo', 'scratch', 'undeclared', 'mutated'):
                fam = owners[-1][0] if owners else 'stateless'
                for f_, c_, a_ in owners:
                    if a_ in DECLARED.get(f_, ((), ()))[0]:
                        fam = f_
                        break
                seen_cells.add((verdict, fam, cell, ckind))

    # (i) input intact + first result
    s0 = state_snapshot(el) if track else None
    trace = []
    touch = []
    try:
        outs1, multi = guarded(el, wf1, E1, 'first call', deep=True, trace=trace, touch=touch)
    except Exception as ex:     # noqa
        fail('raises', '%s raised %s: %s' % (direction, type(ex).__name__, str(ex)[:120]))
        return bad, obs
    o1 = out_arrays(outs1)          # copied now: later calls must not be able to change what we compare
    m1 = out_meta(outs1)
    if not np.array_equal(np.asarray(E1), E1_keep):
        fail('input-modified:field-values', 'the Field the wavefront was built from was changed')
    if track:
        s1 = state_snapshot(el)
        state_check(state_diff(s0, s1), 'first call of the case')
    if bad:
        # the later clauses would run on a corrupted input / element: report the modification alone
        return bad, obs
    obs['trace'] = list(trace)
    obs['touches'] = [t for t in touch[:-1] if not t.startswith('_')]
    obs['created'] = touch[-1]
    obs['ret_is_input'] = int(any(o is wf1 for o in outs1))
    obs['ret_shares'] = int(any(np.shares_memory(np.asarray(o.electric_field), np.asarray(wf1.electric_field)) for o in outs1))
    obs['ret_shares_grid'] = int(any(o.electric_field.grid is wf1.electric_field.grid for o in outs1))
    obs['ret_shares_stokes'] = int(any(o.input_stokes_vector is not None and o.input_stokes_vector is wf1.input_stokes_vector for o in outs1))
    obs['out'] = o1
    obs['in'] = E1_keep
    obs['ins'] = [E1_keep]          # every (input, outputs) pair of this case that the model is asked to reproduce
    obs['outs'] = [o1]
    obs['multi'] = multi
    if multi != entry.multi:
        fail('output-form', 'forward returned %s' % ('several wavefronts' if multi else 'one wavefront'))
    if not all(np.all(np.isfinite(x)) for x in o1):
        fail('non-finite', 'result of %s contains non-finite values' % direction)
        return bad, obs
    scale1 = max(maxabs(x) for x in o1)

    # (ii) repeatability: same call again; another wavefront in between; fresh element
    try:
        outs1b, _ = guarded(el, wf1, E1, 'second identical call')
        ok, w = same(o1, out_arrays(outs1b), TOL_REP, scale1)
        if not ok or out_meta(outs1b) != m1:
            fail('repeat', 'the same call returned a different result the second time (max diff %.3g)' % w)
        if not np.array_equal(np.asarray(wf1.electric_field), E1_keep):
            fail('input-modified:field-values', 'second call changed the input field')
        if track:
            s2 = state_snapshot(el)
            state_check(state_diff(s1, s2), 'second identical call')
        outs2, _ = guarded(el, wf2, E2, 'call with another wavefront')
        o2 = out_arrays(outs2)
        obs['ins'].append(np.array(E2, copy=True))
        obs['outs'].append(o2)
        ok, w = same(o1, out_arrays(outs1), 0.0, 0.0)
        if not ok:
            fail('result-overwritten', 'a later call (with another wavefront) changed the wavefront returned by an earlier call')
        outs1c, _ = guarded(el, wf1, E1, 'third call')
        ok, w = same(o1, out_arrays(outs1c), TOL_REP, scale1)
        if not ok or out_meta(outs1c) != m1:
            fail('history', 'result changed after a call with a different wavefront in between (max diff %.3g)' % w)
        if fresh_el is not None:
            s_used = state_snapshot(el) if track else None
            outsf, _ = guarded(fresh_el, wf1, E1, 'first call of a freshly constructed element (cache miss)', deep=True)
            if track:
                for what_, path, owners in compare_with_fresh(s_used, state_snapshot(fresh_el)):
                    leaf = owners[-1]
                    bad.append(('internal-state-history %s %s.%s' % (cname, leaf[1], leaf[2]),
                                'internal-state-history: after the call sequence %s of the element %s what a fresh element holds after '
                                'the last call alone [%s, %s %s, wavelength %g]' % (path, 'is missing from' if what_ == 'missing' else 'differs from',
                                                                                      entry.name, direction, kind, wl)))
            ok, w = same(o1, out_arrays(outsf), TOL_REP, scale1)
            if not ok or out_meta(outsf) != m1:
                fail('fresh-element', 'a freshly constructed element returns a different result (max diff %.3g)' % w)
        # (iii) linearity
        outs3, _ = guarded(el, wf3, E3, 'call with a*E1+E2')
        o3 = out_arrays(outs3)
        obs['ins'].append(np.array(E3, copy=True))
        obs['outs'].append(o3)
    except Exception as ex:     # noqa
        fail('raises', '%s raised %s on a later call: %s' % (direction, type(ex).__name__, str(ex)[:120]))
        return bad, obs
    aa = np.conj(a) if conj else a
    if len(o3) != len(o1) or len(o2) != len(o1) or any(x.shape != y.shape for x, y in zip(o3, o1)):
        fail('linearity', 'output shapes differ between inputs')
    else:
        scale = max(abs(a) * maxabs(x) + maxabs(y) for x, y in zip(o1, o2))
        expect = [aa * x + y for x, y in zip(o1, o2)]
        ok, w = same(o3, expect, TOL_LIN, scale)
        if not ok:
            other = [np.conj(aa) * x + y if conj else np.conj(a) * x + y for x, y in zip(o1, o2)]
            ok2, _ = same(o3, other, TOL_LIN, scale)
            fail('linearity', '%s(a E1 + E2) differs from %s %s(E1) + %s(E2) by %.3g (scale %.3g)%s' % (
                direction, 'conj(a)' if conj else 'a', direction, direction, w, scale,
                '; it is %s instead' % ('linear' if conj else 'conjugate-linear') if ok2 else ''))
        mo = out_meta(outs3)
        if [m[:3] for m in mo] != [m[:3] for m in m1]:
            fail('linearity', 'grid or wavelength of the result depends on the field values')
    obs['a'] = a
    return bad, obs


# ---------------------------------------------------------------------------------------------
# widened linearity oracle: inputs of very different magnitude, structured supports, zero inputs

STRUCTURES = ('dense', 'pixels', 'fourier', 'halves', 'polarisation', 'modes', 'own-modes', 'sparse', 'zero')
RATIO_EXPS_FAINT = (-17, -24, -30)          # amplitude ratios 7.6e-6, 6e-8, 9e-10
RATIO_EXPS_ALL = (0, -3, -10, -17, -24, -30, -40)      # 1 ... 9e-13
A_EXPS = (-20, -10, -3, 0, 3, 10, 20)       # |a| from 1e-6 to 1e6
WIDE_REL = 1e-6          # residual allowed relative to the SMALLER of the two terms' outputs
WIDE_FLOOR = 1e-13       # rounding floor relative to the size of the computation (see wide_tolerance)


def place(vec, kind, comp):
    """Put the N-vector `vec` into tensor component number `comp` of an otherwise zero field of this kind."""
    n = vec.shape[0]
    if kind == 'scalar':
        return np.array(vec, dtype=complex)
    if kind == 'vector':
        out = np.zeros((2, n), dtype=complex)
        out[comp % 2] = vec
        return out
    out = np.zeros((2, 2, n), dtype=complex)
    out[(comp // 2) % 2, comp % 2] = vec
    return out


def ncomp(kind):
    return {'scalar': 1, 'vector': 2, 'tensor': 4}[kind]


def fourier_mode(grid, kx, ky):
    n = grid.size
    idx = np.arange(n)
    if grid.is_regular and grid.ndim == 2:
        nx, ny = int(grid.dims[0]), int(grid.dims[1])
        return np.exp(2j * np.pi * (kx * (idx % nx) / nx + ky * (idx // nx) / ny))
    return np.exp(2j * np.pi * kx * idx / n)


def wide_inputs(rng, entry, el, grid, kind, wl, structure):
    """(E1, E2) as complex arrays of the field shape of `kind`, both of unit order of magnitude; the caller scales them.
    Returns None when the structure does not exist for this entry/kind (e.g. polarisation on a scalar wavefront)."""
    n = grid.size
    shape = registry.field_shape(grid, kind)
    nc = ncomp(kind)
    if structure == 'dense':
        return registry.dyadic_complex(rng, shape), registry.dyadic_complex(rng, shape)
    if structure == 'pixels':
        i = int(rng.integers(n))
        j = int(rng.integers(n))
        if n > 1:
            while j == i:
                j = int(rng.integers(n))
        e1 = np.zeros(n, dtype=complex); e1[i] = 1.0 + 0.5j
        e2 = np.zeros(n, dtype=complex); e2[j] = -0.75 + 1.0j
        return place(e1, kind, int(rng.integers(nc))), place(e2, kind, int(rng.integers(nc)))
    if structure == 'fourier':
        k = [int(v) for v in rng.integers(-3, 4, size=4)]
        if (k[0], k[1]) == (k[2], k[3]):
            k[2] += 1
        return (place(fourier_mode(grid, k[0], k[1]), kind, int(rng.integers(nc))),
                place(fourier_mode(grid, k[2], k[3]), kind, int(rng.integers(nc))))
    if structure == 'halves':
        if n < 2:
            return None
        mask = np.zeros(n, dtype=bool)
        mask[rng.permutation(n)[: n // 2]] = True
        if rng.random() < 0.5 and grid.ndim == 2:
            mask = np.asarray(grid.x) < np.median(np.asarray(grid.x))
            if mask.all() or not mask.any():
                mask = np.arange(n) < n // 2
        E1 = registry.dyadic_complex(rng, shape) * mask
        E2 = registry.dyadic_complex(rng, shape) * (~mask)
        return E1, E2
    if structure == 'polarisation':
        if kind == 'scalar':
            return None
        c1 = int(rng.integers(nc))
        c2 = (c1 + 1 + int(rng.integers(nc - 1))) % nc
        return (place(registry.dyadic_complex(rng, (n,)), kind, c1), place(registry.dyadic_complex(rng, (n,)), kind, c2))
    if structure in ('modes', 'own-modes'):
        M, own = registry.element_modes(entry, el, grid, wl)
        if structure == 'own-modes':
            if own == 0:
                return None
            M = M[:, :own]
        k = M.shape[1]
        i = int(rng.integers(k))
        j = int(rng.integers(k))
        if k > 1:
            while j == i:
                j = int(rng.integers(k))
        c = int(rng.integers(nc))
        return place(M[:, i], kind, c), place(M[:, j] * (0.5 - 1.0j), kind, c if rng.random() < 0.7 else int(rng.integers(nc)))
    if structure == 'sparse':
        E1 = registry.dyadic_complex(rng, shape) * (rng.random(shape) < 2.0 / max(n, 2))
        E2 = registry.dyadic_complex(rng, shape) * (rng.random(shape) < 0.3)
        return E1, E2
    if structure == 'zero':
        which = int(rng.integers(3))
        E1 = registry.dyadic_complex(rng, shape)
        E2 = registry.dyadic_complex(rng, shape)
        if which == 0:
            E2 = np.zeros(shape, dtype=complex)
        elif which == 1:
            E1 = np.zeros(shape, dtype=complex)
        else:
            E1 = np.zeros(shape, dtype=complex)
            E2 = np.zeros(shape, dtype=complex)
        return E1, E2
    raise MachineryError('unknown structure %r' % structure)


def wide_tolerance(nu, nv, nin, gain):
    """Allowed max-norm of f(aE1+E2) - a f(E1) - f(E2).
    nu = |a f(E1)|, nv = |f(E2)| (max norms), nin = |a||E1| + |E2| (max norms of the inputs),
    gain = the largest |f(E)|/|E| seen for this element/direction/kind (at least 1).
    The first term is the tolerance proper (relative to the smaller output); the second is the floor below which
    rounding in float64 cannot be told from a defect (relative to the size of the whole computation)."""
    return WIDE_REL * min(nu, nv) + WIDE_FLOOR * max(nu, nv, gain * nin)


def run_wide(entry, el, case, gains):
    """Linearity with very different magnitudes and structured supports. Returns (bad, measured) where measured is the
    residual normalised by the rounding-floor denominator (for calibration in the evidence)."""
    import hcipy
    kind, direction, wl, structure = case['kind'], case['direction'], case['wavelength'], case['structure']
    rng = case_rng(case)
    grid = entry.input_grid if direction == 'forward' else entry.output_grid
    conj = entry.conj_forward if direction == 'forward' else entry.conj_backward
    tag = '%s %s %s' % (entry.cls.__name__, direction, kind)
    bad = []
    pair = wide_inputs(rng, entry, el, grid, kind, wl, structure)
    if pair is None:
        return bad, None
    E1, E2 = pair
    rexp = int(case['ratio_exp'])
    aexp = int(case['a_exp'])
    faint = case['faint']
    a = complex([1.0, -1.0, 0.0, 0.75][int(rng.integers(4))], [0.5, 1.0, -1.0, 0.0][int(rng.integers(4))]) * 2.0 ** aexp
    if a == 0:
        a = 2.0 ** aexp
    # the two *terms* a*E1 and E2 get the amplitude ratio 2^rexp: scale whichever is to be faint
    if faint == 'E2':
        E2 = E2 * (abs(a) * 2.0 ** rexp)
    else:
        E2 = E2 * (abs(a) * 2.0 ** (-rexp))
    stokes = registry.STOKES[int(rng.integers(len(registry.STOKES)))]
    E3 = a * E1 + E2
    key = 'linearity-wide:%s %s' % (structure, tag)

    def fail(what):
        bad.append((key, 'linearity (%s inputs, |a|=2^%d, amplitude ratio of the two terms 2^%d, faint term %s): %s [%s, wavelength %g]' % (
            structure, aexp, rexp, faint, what, entry.name, wl)))
    try:
        outs = []
        for E in (E1, E2, E3):
            wf = make_wf(hcipy.Field(np.ascontiguousarray(E), grid), kind, wl, stokes)
            o, _ = call(el, direction, wf)
            outs.append(out_arrays(o))
    except Exception as ex:     # noqa
        bad.append(('raises %s' % tag, 'raises: %s raised %s on %s inputs: %s [%s]' % (direction, type(ex).__name__, structure, str(ex)[:120], entry.name)))
        return bad, None
    o1, o2, o3 = outs
    if not (len(o1) == len(o2) == len(o3)) or any(x.shape != y.shape or x.shape != z.shape for x, y, z in zip(o1, o2, o3)):
        fail('output shapes differ between inputs')
        return bad, None
    if not all(np.all(np.isfinite(x)) for o in outs for x in o):
        fail('non-finite result')
        return bad, None
    aa = np.conj(a) if conj else a
    nE1, nE2 = maxabs(E1), maxabs(E2)
    gkey = (case['registry'], entry.name, direction, kind)
    g = gains.get(gkey, 1.0)
    for E, o in ((E1, o1), (E2, o2), (E3, o3)):
        ne = maxabs(E)
        if ne > 0:
            g = max(g, max(maxabs(x) for x in o) / ne)
        elif any(maxabs(x) != 0 for x in o):
            fail('%s(0) is not 0 (max %.3g)' % (direction, max(maxabs(x) for x in o)))
    gains[gkey] = g
    worst = 0.0
    for x, y, z in zip(o1, o2, o3):
        r = maxabs(z - aa * x - y)
        nu, nv = abs(a) * maxabs(x), maxabs(y)
        nin = abs(a) * nE1 + nE2
        tol = wide_tolerance(nu, nv, nin, g)
        denom = max(nu, nv, g * nin)
        if denom > 0:
            worst = max(worst, r / denom)
        if r > tol:
            fail('%s(a E1 + E2) - %s %s(E1) - %s(E2) has max norm %.3g; allowed %.3g = %.0e*min(|a f(E1)|=%.3g, |f(E2)|=%.3g) + %.0e*%.3g' % (
                direction, 'conj(a)' if conj else 'a', direction, direction, r, tol, WIDE_REL, nu, nv, WIDE_FLOOR, denom))
            break
    return bad, worst



# ---------------------------------------------------------------------------------------------
# repeatability and linearity across flips of precision / tensor shape / memory layout / direction on ONE element

FLIP_DTYPES = ('complex128', 'complex64')
FLIP_LAYOUTS = ('C', 'F', 'strided')
# what a result may differ by from the result of the same call on a fresh element / from the linear combination:
# the same arithmetic in the same precision (the element's caches may have been computed at the other precision
# and cast, hence not 0)
FLIP_TOL = {'complex128': 1e-10, 'complex64': 2e-5}
# the library's configuration switches (hcipy/config/default_config.yaml): the field style is a coordinate of every STEP
# (6th entry of a step; absent = 'old'), the Fourier options are fixed per HISTORY (they are read when an element builds
# its Fourier transforms): case['config'] = {dotted name: value}
FLIP_STYLES = ('old', 'new')
FLIP_CONFIGS = ({}, {'fourier.fft.emulate_fftshifts': False}, {'fourier.fft.method': ['numpy']}, {'fourier.fft.method': ['scipy', 'numpy']},
                {'fourier.mft.precompute_matrices': False}, {'fourier.mft.allocate_intermediate': False},
                {'fourier.nft.precompute_matrices': True},
                {'fourier.fft.emulate_fftshifts': False, 'fourier.mft.precompute_matrices': False, 'fourier.mft.allocate_intermediate': False})


def set_config(options, style=None):
    """Set configuration switches of the library under test; returns the function that puts the previous values back."""
    import hcipy
    conf = hcipy.Configuration()
    todo = dict(options or {})
    if style is not None:
        todo['core.use_new_style_fields'] = (style == 'new')
    old = []
    for name, value in todo.items():
        node = conf
        parts = name.split('.')
        for q in parts[:-1]:
            node = node[q]
        old.append((node, parts[-1], node[parts[-1]]))
        node[parts[-1]] = value

    def restore():
        for node, key, value in reversed(old):
            node[key] = value
    return restore


def buffer_of(field):
    """The ndarray that holds the values of a field of either style (a new-style field is a wrapper: identity of the
    wrapper says nothing about the memory; aliasing is decided with np.shares_memory on this)."""
    d = getattr(field, 'data', None)
    return d if isinstance(d, np.ndarray) else np.asarray(field)


def flip_array(rng, grid, kind, dtype, layout):
    """Random dyadic complex values (few bits: exact in single precision too) of the shape of `kind`, in the given
    precision and memory layout: C-contiguous, Fortran order (tensor axes fastest), or a strided view (every second
    element of a larger array)."""
    shape = registry.field_shape(grid, kind)
    a = registry.dyadic_complex(rng, shape, bits=4)
    return lay_out(a, dtype, layout)


def lay_out(a, dtype, layout):
    a = np.asarray(a).astype(dtype)
    if layout == 'F':
        return np.asfortranarray(a)
    if layout == 'strided':
        big = np.zeros(a.shape[:-1] + (2 * a.shape[-1],), dtype=dtype)
        big[..., ::2] = a
        return big[..., ::2]
    return np.ascontiguousarray(a)


def gen_flip_steps(rng, entry, nsteps, directed):
    """A history of calls on one element: every step = (direction, kind, precision, layout, wavelength number, field style).
    directed = 'styles': every direction the element has, under new-style fields, with an old-style call in between."""
    dirs = ['forward'] + (['backward'] if entry.backward_kinds else [])
    steps = []
    if directed == 'styles':
        wl0 = int(rng.integers(len(entry.wavelengths)))
        for d in dirs:
            kinds = entry.kinds if d == 'forward' else entry.backward_kinds
            steps.append([d, kinds[int(rng.integers(len(kinds)))], FLIP_DTYPES[int(rng.integers(2))], 'C', wl0, 'new'])
        d = dirs[int(rng.integers(len(dirs)))]
        kinds = entry.kinds if d == 'forward' else entry.backward_kinds
        steps.append([d, kinds[int(rng.integers(len(kinds)))], FLIP_DTYPES[int(rng.integers(2))], FLIP_LAYOUTS[int(rng.integers(3))], wl0, 'old'])
        d = dirs[int(rng.integers(len(dirs)))]
        kinds = entry.kinds if d == 'forward' else entry.backward_kinds
        steps.append([d, kinds[int(rng.integers(len(kinds)))], FLIP_DTYPES[int(rng.integers(2))], FLIP_LAYOUTS[int(rng.integers(3))], wl0, 'new'])
        return steps
    wl0 = int(rng.integers(len(entry.wavelengths)))
    d0 = 'forward'
    k0 = entry.kinds[int(rng.integers(len(entry.kinds)))]
    p0 = int(rng.integers(2))
    for i in range(nsteps):
        if directed:
            # the same call signature with alternating precision, then a shape flip at the second precision
            direction, wl = d0, wl0
            kinds = entry.kinds
            kind = k0 if i < 2 or len(kinds) == 1 else kinds[(kinds.index(k0) + i - 1) % len(kinds)]
            dtype = FLIP_DTYPES[(p0 + i) % 2] if i < 3 else FLIP_DTYPES[int(rng.integers(2))]
            layout = 'C' if i < 2 else FLIP_LAYOUTS[int(rng.integers(3))]
            style = 'old' if i < 3 else FLIP_STYLES[int(rng.integers(2))]
        else:
            direction = dirs[int(rng.integers(len(dirs)))]
            kinds = entry.kinds if direction == 'forward' else entry.backward_kinds
            kind = kinds[int(rng.integers(len(kinds)))]
            dtype = FLIP_DTYPES[int(rng.integers(2))]
            layout = FLIP_LAYOUTS[int(rng.integers(3))]
            wl = wl0 if rng.random() < 0.75 else int(rng.integers(len(entry.wavelengths)))
            style = FLIP_STYLES[int(rng.integers(2))]
        steps.append([direction, kind, dtype, layout, wl, style])
    return steps


def run_flip(entry, case, count=None):
    """One element instance is taken through the steps of the history.  At every step, for inputs E1, E2, a*E1+E2 of the
    step's precision / shape / layout:  the result equals what a FRESH element (which has seen nothing else) returns for
    E1 — values, precision, grid, wavelength —, the call repeated gives the same, f(a*E1+E2) = a f(E1) + f(E2), and the
    inputs are left as they were (bytes, dtype, strides).  Returns (bad, worst) with worst = {precision: largest
    normalised difference seen}."""
    import hcipy
    rng = case_rng(case)
    bad = []
    worst = {}
    cname = entry.cls.__name__
    config = case.get('config') or {}
    restore = set_config(config, 'old')
    try:
        el = entry.factory()
    finally:
        restore()
    history = []

    def fail(clause, step, what):
        direction = step[0]
        bad.append(('flip-%s %s %s' % (clause, cname, direction),
                    'flip-%s: %s [%s; step %d = %s of the history %s on one element instance]' % (
                        clause, what, entry.name, len(history), '/'.join(str(s) for s in step), ' -> '.join(history) or '(none)') + (
                            '; configuration %s' % json.dumps(config, sort_keys=True) if config else '')))

    for step in case['steps']:
        restore = set_config(config, step[5] if len(step) > 5 else 'old')
        try:
            direction, kind, dtype, layout, wli = step[:5]
            wl = entry.wavelengths[wli]
            grid = entry.input_grid if direction == 'forward' else entry.output_grid
            conj = entry.conj_forward if direction == 'forward' else entry.conj_backward
            A1 = flip_array(rng, grid, kind, dtype, layout)
            A2 = flip_array(rng, grid, kind, dtype, layout)
            a = complex(registry.dyadic_scalar(rng, -2, 2, 2), registry.dyadic_scalar(rng, -2, 2, 2)) or (1.5 - 0.5j)
            A3 = lay_out(a * np.asarray(A1, dtype=complex) + np.asarray(A2, dtype=complex), dtype, layout)     # exact (few bits)
            stokes = registry.STOKES[int(rng.integers(len(registry.STOKES)))]
            tol = FLIP_TOL[dtype]

            def wavefront(A):
                return make_wf(hcipy.Field(A, grid), kind, wl, stokes)

            def guarded(element, A):
                wf = wavefront(A)
                def state():
                    sv = wf.input_stokes_vector
                    return (np.asarray(wf.electric_field).tobytes(), str(wf.electric_field.dtype), buffer_of(wf.electric_field).strides, A.tobytes(),
                            repr(wf.wavelength), id(wf.electric_field.grid), grid_bytes(wf.electric_field.grid),
                            None if sv is None else np.asarray(sv).tobytes(), type(wf.electric_field).__name__)
                keep = state()
                outs, _ = call(element, direction, wf)
                now = state()
                if now != keep:
                    fail('input-modified', step, 'the wavefront passed in (%s) was changed by %s' % (', '.join(n for n, x, y in zip(
                        ('field values', 'field dtype', 'strides', 'the array it was built from', 'wavelength', 'grid identity', 'grid contents', 'Stokes vector', 'field class'), keep, now) if x != y), direction))
                return out_arrays(outs), [(str(o.electric_field.dtype), type(o.electric_field).__name__) + m for o, m in zip(outs, out_meta(outs))]

            # the reference: a fresh element, given the same VALUES in the same precision as a plain C-contiguous array
            # (the result is a function of the values, not of how they lie in memory); whether it accepts them decides
            # whether the input is supported at all
            try:
                ref, ref_meta = guarded(entry.factory(), np.ascontiguousarray(A1).copy())
                supported = all(np.all(np.isfinite(x)) for x in ref)
            except Exception:     # noqa
                supported = False
            if not supported:
                if count is not None:
                    count('flip-step-unsupported-by-fresh-element:%s/%s' % (dtype, layout))
                history.append('/'.join(str(s) for s in step) + '(unsupported)')
                continue
            try:
                o1, m1 = guarded(el, A1)
                o2, _ = guarded(el, A2)
                o3, _ = guarded(el, A3)
                o1b, m1b = guarded(el, A1)
            except Exception as ex:     # noqa
                fail('raises', step, '%s raised %s: %s (a fresh element accepts the same values as a C-contiguous array of the same precision)' % (
                    direction, type(ex).__name__, str(ex)[:120]))
                return bad, worst
            scale = max([1.0] + [maxabs(x) for x in ref])
            ok, w = same(o1, ref, tol, scale)
            if ok:
                worst[dtype] = max(worst.get(dtype, 0.0), w / scale)
            if not ok:
                fail('fresh-element', step, 'the result differs from what a freshly constructed element returns for the same values '
                     '(C-contiguous, same precision; max diff %.3g, scale %.3g, allowed %.1g relative)' % (w, scale, tol))
            elif m1 != ref_meta:
                fail('result-form', step, 'precision / shape / grid / wavelength / Stokes vector of the result (%s) differ from those '
                     'a fresh element returns (%s)' % (m1[0][:2], ref_meta[0][:2]))
            ok, w = same(o1b, o1, tol, scale)
            if not ok or m1b != m1:
                fail('repeat', step, 'the same call returned a different result the second time (max diff %.3g)' % w)
            aa = np.conj(a) if conj else a
            if len(o3) == len(o1) == len(o2) and all(x.shape == y.shape == z.shape for x, y, z in zip(o1, o2, o3)):
                lscale = max([1.0] + [abs(a) * maxabs(x) + maxabs(y) for x, y in zip(o1, o2)])
                ok, w = same(o3, [aa * x + y for x, y in zip(o1, o2)], 4 * tol, lscale)
                if ok:
                    worst['lin-' + dtype] = max(worst.get('lin-' + dtype, 0.0), w / lscale)
                else:
                    fail('linearity', step, '%s(a E1 + E2) differs from %s %s(E1) + %s(E2) by %.3g (scale %.3g)' % (
                        direction, 'conj(a)' if conj else 'a', direction, direction, w, lscale))
            else:
                fail('linearity', step, 'output shapes differ between inputs')
            history.append('/'.join(str(s) for s in step))
            if bad:
                return bad, worst          # later steps would run on an element already known to be off
        finally:
            restore()
    return bad, worst


def flip_cases(ctx, registries, option_entries=()):
    """Per registry entry: one directed history (same call, precision alternating, then shape / layout flips), one
    directed through the field styles (every direction under new-style fields), and random ones; every history but the
    first directed one under a configuration of the Fourier options drawn from FLIP_CONFIGS.  The entries of
    `registry.option_elements` (constructor options at non-default values) get the same histories.
    Same histories in the quick and in the thorough tier (more of them in the latter)."""
    rng = np.random.default_rng([ctx.seed, 6, 8])
    n_random = ctx.scale(2, 3)
    cases = []
    idx = 0
    groups = [(k, [ctx.seed, 6, 0, k], entries) for k, entries in enumerate(registries)]
    if option_entries:
        groups.append(('options', [ctx.seed, 6, 0, 7], option_entries))
    for k, reg_seed, entries in groups:
        for e in entries:
            for j in range(2 + n_random):
                idx += 1
                directed = {0: True, 1: 'styles'}.get(j, False)
                steps = gen_flip_steps(rng, e, 4 if j == 0 else int(rng.integers(3, 6)), directed=directed)
                config = {} if j == 0 else dict(FLIP_CONFIGS[int(rng.integers(len(FLIP_CONFIGS)))])
                cases.append({'mode': 'flip', 'entry': e.name, 'registry': k, 'reg_seed': reg_seed,
                              'data_seed': [ctx.seed, 6, 9, idx], 'steps': steps, 'directed': directed, 'config': config})
    return cases


def run_flips(ctx, registries, by_name):
    worst_all = {}
    ctx.extra['flip_worst_relative_difference'] = worst_all
    try:
        option_entries = registry.option_elements(np.random.default_rng([ctx.seed, 6, 0, 7]))
    except Exception as ex:     # noqa
        raise MachineryError('registry.option_elements cannot be built: %s: %s' % (type(ex).__name__, ex))
    by_name = dict(by_name)
    by_name.update({('options', e.name): e for e in option_entries})
    ctx.extra['option_entries'] = [e.name for e in option_entries]
    covered, missing = registry.constructor_option_coverage(list(registries[0]) + list(option_entries))
    ctx.extra['constructor_options_given_a_non_default_value'] = covered
    ctx.extra['constructor_options_never_given_a_non_default_value'] = missing
    for case in flip_cases(ctx, registries, option_entries):
        e = by_name[(case['registry'], case['entry'])]
        bad, worst = run_flip(e, case, ctx.count)
        for key, what in bad:
            ctx.violation(key, what, case)
        for k, v in worst.items():
            worst_all[k] = max(worst_all.get(k, 0.0), v)
        steps = case['steps']
        ctx.count('flip-history-steps:%d' % len(steps))
        ctx.count('flip-history:' + ({True: 'directed', 'styles': 'directed-field-styles'}.get(case['directed'], 'random')))
        ctx.count('flip-config:' + (','.join('%s=%s' % (k.split('.', 1)[1], v) for k, v in sorted(case['config'].items())) or 'default'))
        if case['registry'] == 'options':
            ctx.count('flip-history-on-constructor-option-entry')
        for st in steps:
            ctx.count('flip-style:%s %s' % (st[5], st[0]))
        for a, b in zip(steps, steps[1:]):
            if a[5] != b[5]:
                ctx.count('flip:style %s->%s' % (a[5], b[5]))
            same_sig = a[0] == b[0] and a[4] == b[4]
            if a[2] != b[2]:
                ctx.count('flip:precision %s->%s%s' % (a[2][7:], b[2][7:], ' (same direction+wavelength)' if same_sig else ''))
            if a[1] != b[1]:
                ctx.count('flip:shape %s->%s' % (a[1], b[1]))
            if a[3] != b[3]:
                ctx.count('flip:layout %s->%s' % (a[3], b[3]))
            if a[0] != b[0]:
                ctx.count('flip:direction')
        ctx.count('flip-family:' + e.family)
        ctx.count('flip-failed' if bad else 'flip-ok')
        flips = sum(1 for a, b in zip(steps, steps[1:]) if a[:4] != b[:4] or a[5] != b[5])
        ctx.case(None, nontrivial_key=('flip', case['registry'], e.name, repr(steps)) if flips and worst else None)


# ---------------------------------------------------------------------------------------------
# model correspondence: effect programs

def effect_program(entry, el, direction, kind):
    """Name of the effect program (Model/Elements.lean) describing this call."""
    fam = entry.family
    fwd = direction == 'forward'
    cname = entry.cls.__name__
    if fam == 'identity':
        return 'identity'
    if cname == 'PeriodicOpticalElement':
        return 'copyThenCopyInplace'
    if cname in ('MicroLensArray', 'SphericalMicroLensArray', 'EvenAsphereMicroLensArray'):
        return 'copyInplace'
    if fam in ('apodizer', 'mirror', 'layer', 'projection'):
        return 'copyInplace'
    if fam == 'magnifier':
        return 'magnifier'
    if fam in ('fraunhofer', 'filter', 'fibre-injection', 'fibre-modes'):
        return 'newFrom'
    if fam == 'jones':
        return 'newFrom' if kind == 'scalar' else 'copySetField'
    if fam == 'jones-split':
        return 'chain'
    if fam == 'knife':
        return 'chain'
    if fam == 'lyot':
        if cname == 'ZernikeWavefrontSensorOptics':
            return 'zernike'
        stop = getattr(el, 'lyot_stop', None) is not None
        if fwd:
            return 'lyotFwdStop' if stop else 'lyotFwd'
        return 'lyotBwdStop' if stop else 'lyotBwd'
    if fam == 'lyot-jones':
        return 'vectorZernike' if kind == 'scalar' else 'vectorZernikePol'
    if fam in ('sandwich', 'fibre-nuller', 'modulated'):
        return 'chain'
    if fam == 'system':
        if cname == 'MultiLayerAtmosphere':
            return 'copyThenChain'
        n = len(getattr(el, 'optical_elements', [0]))
        return 'identity' if n == 0 else 'chain'
    if fam == 'multiscale':
        stop = el.lyot_stop is not None
        if fwd:
            return 'multiscaleFwdStop' if stop else 'multiscaleFwd'
        return 'multiscaleBwdStop' if stop else 'multiscaleBwd'
    if fam == 'multiscale-jones':
        stop = el.lyot_stop is not None
        pol = kind != 'scalar'
        if fwd:
            return ('vvcFwdPol' if pol else 'vvcFwdScalar') + ('Stop' if stop else '')
        if stop:
            return 'vvcBwdStop' + ('Pol' if pol else 'Scalar')
        return 'vvcBwdPol' if pol else 'vvcBwdScalar'
    return None


def loop_rounds(prog, entry, el, case):
    """Number of rounds of the loop of a looping effect program (Model/Elements.lean: loopPrograms) for this element:
    scales of a multi-scale coronagraph beyond the first, elements of a layered atmosphere; None for a program
    without loop."""
    if prog == 'copyThenChain':
        return len(el.elements)
    if prog.startswith('multiscale'):
        return len(el.props) - 1
    if prog.startswith('vvc'):
        grid = entry.input_grid if case['direction'] == 'forward' else entry.output_grid
        return len(el.get_instance_data(grid, None, case['wavelength']).props) - 1
    return None


def effects_line(obs):
    return 'retIsInput=%d retShares=%d writes=%s' % (obs['ret_is_input'], obs['ret_shares'], ','.join(obs['trace']) or '-')


# ---------------------------------------------------------------------------------------------
# model correspondence: IR terms filled with the element's own parameters

def frat(x):
    """Exact protocol text of a Python float (same output as common.rat, without building a Fraction)."""
    if x == 0.0:
        return '0'
    try:
        n, d = x.as_integer_ratio()         # already in lowest terms
    except (OverflowError, ValueError):
        raise MachineryError('non-finite number cannot be sent to the model: %r' % (x,))
    return str(n) if d == 1 else '%d/%d' % (n, d)


def clist(z):
    z = np.asarray(z, dtype=complex).ravel()
    parts = [None] * (2 * z.size)
    parts[0::2] = [frat(v) for v in z.real.tolist()]
    parts[1::2] = [frat(v) for v in z.imag.tolist()]
    return '[' + ','.join(parts) + ']'


def a_vec(m):
    return 'v ' + clist(m)


def a_mat(A):
    A = np.asarray(A, dtype=complex)
    if A.ndim != 2:
        raise MachineryError('matrix argument of a family must be 2-D, got shape %r' % (A.shape,))
    return 'm %d %s' % (A.shape[0], clist(A))


def a_opt(m):
    return '-' if m is None else a_vec(m)


def fam(name, *args):
    """Request text `FAMILY ARG...` for `C06 denote-family`: the term is built by Elements.familyTerm in Lean."""
    return name + ' ' + ' '.join(args) if args else name


def probe(f, grid, wl, kind='scalar'):
    """Dense matrix of the map f on scalar wavefronts on `grid` (columns = images of unit vectors).
    Used for *sub-elements* exposed by a composite element; their linearity is checked by their own entries."""
    import hcipy
    cols = []
    for k in range(grid.size):
        e = np.zeros(grid.size, dtype=complex)
        e[k] = 1.0
        with contextlib.redirect_stdout(io.StringIO()), warnings.catch_warnings():
            warnings.simplefilter('ignore')
            o = f(hcipy.Wavefront(hcipy.Field(e, grid), wl))
        cols.append(np.asarray(o.electric_field if hasattr(o, 'electric_field') else o, dtype=complex).ravel())
    return np.array(cols).T


def probe_field_map(f, grid):
    import hcipy
    cols = []
    for k in range(grid.size):
        e = np.zeros(grid.size, dtype=complex)
        e[k] = 1.0
        cols.append(np.asarray(f(hcipy.Field(e, grid)), dtype=complex).ravel())
    return np.array(cols).T


def apod_of(sub, grid, wl, direction):
    """Per-pixel multiplier of an Apodizer-like sub-element, read from its instance data."""
    if sub is None:
        return None
    a = np.asarray(sub.get_instance_data(grid, None, wl).apodization, dtype=complex)
    a = a * np.ones(grid.size)
    return a if direction == 'forward' else a.conj()


def ir_term(entry, el, direction, kind, wl):
    """`FAMILY ARG...` or None: the name of the family schema of Model/Elements.lean (`Elements.familyTerm`) and its
    arguments, which are only parameters the element exposes (sub-propagators probed as dense matrices).  The term
    itself is built in Lean."""
    fam_ = entry.family
    fwd = direction == 'forward'
    cname = entry.cls.__name__
    grid = entry.input_grid if fwd else entry.output_grid
    reps = {'scalar': 1, 'vector': 2, 'tensor': 4}[kind]
    import hcipy
    if entry.mult is not None:
        m = np.asarray(entry.mult(el, wl, direction), dtype=complex) * np.ones(grid.size)
        return fam('pointwise', a_vec(np.tile(m, reps)))
    if isinstance(el, hcipy.Apodizer):                       # every Apodizer subclass: its own instance data
        return fam('pointwise', a_vec(np.tile(apod_of(el, grid, wl, direction), reps)))
    if cname in ('MicroLensArray', 'SphericalMicroLensArray', 'EvenAsphereMicroLensArray'):
        return fam('pointwise', a_vec(np.tile(apod_of(el.mla_surface, grid, wl, direction), reps)))
    if cname == 'PeriodicOpticalElement':
        return fam('pointwise', a_vec(np.tile(apod_of(el.apodization, grid, wl, direction), reps)))
    if cname == 'SimpleVibration':
        ph = np.asarray(el.mode) * el.amplitude / wl * np.sin(el.phase)
        return fam('pointwise', a_vec(np.tile(np.exp((1j if fwd else -1j) * ph), reps)))
    if fam_ == 'jones' and kind == 'vector':
        J = np.asarray(el.get_instance_data(grid, None, wl).jones_matrix, dtype=complex)
        if J.ndim == 2:
            J = J[:, :, None] * np.ones(grid.size)
        if not fwd:
            J = np.conj(np.transpose(J, (1, 0, 2)))
        n = grid.size
        A = np.zeros((2 * n, 2 * n), dtype=complex)
        for i in range(2):
            for j in range(2):
                A[i * n:(i + 1) * n, j * n:(j + 1) * n] = np.diag(J[i, j])
        return fam('dense', a_mat(A))
    if kind != 'scalar':
        return None
    if fam_ == 'fibre-injection':
        if cname == 'SingleModeFiberInjection':
            mode = np.asarray(el.mode, dtype=complex)
            if fwd:
                return fam('fibreForward', a_mat((mode * el.input_grid.weights)[None, :]))
            return fam('fibreBackward', a_mat(mode[:, None]))
        P = np.asarray(el.projection_matrix, dtype=complex)
        if fwd:
            return fam('fibreForward', a_mat(P.T * (el.input_grid.weights * np.ones(P.shape[0]))[None, :]))
        return fam('fibreBackward', a_mat(P))
    if fam_ == 'fraunhofer' and cname == 'FraunhoferPropagator':
        # fourier_transform.forward(E) * norm_factor / fourier_transform.backward(E) / norm_factor: the element's own
        # Fourier-transform object as a matrix (columns = images of the unit vectors) and the scalar it computed
        inst = el.get_instance_data(entry.input_grid, None, wl)
        ft = inst.fourier_transform
        c = complex(inst.norm_factor)
        if fwd:
            return fam('scaledTransform', a_vec([c]), a_mat(probe_field_map(ft.forward, ft.input_grid)))
        return fam('scaledTransform', a_vec([1 / c]), a_mat(probe_field_map(ft.backward, ft.output_grid)))
    if fam_ == 'filter' and cname in ('FresnelPropagator', 'AngularSpectrumPropagator'):
        # FourierFilter: cut-out(ifft(tf * fft(zero-pad(E)))), conj(tf) for backward -- with the filter's own transfer
        # function (as the call left it), internal grid and cut-out
        ff = el.get_instance_data(entry.input_grid, None, wl).fourier_filter
        ff._compute_functions(hcipy.Field(np.zeros(entry.input_grid.size, dtype=complex), entry.input_grid))
        tf = np.asarray(ff._transfer_function, dtype=complex)
        ishape = tuple(ff.internal_grid.shape)
        if tf.shape != ishape:
            return None                          # a matrix-valued transfer function: no scalar sandwich
        n_in, n_int = entry.input_grid.size, int(np.prod(ishape))
        cut = ff.cutout if ff.cutout is not None else tuple([slice(None)] * len(ishape))
        Pf = np.zeros((n_int, n_in), dtype=complex)
        for k in range(n_in):
            pad = np.zeros(ishape, dtype=complex)
            e = np.zeros(n_in, dtype=complex)
            e[k] = 1.0
            pad[cut] = e.reshape(entry.input_grid.shape)
            Pf[:, k] = np.fft.fftn(pad).ravel()
        Pb = np.zeros((n_in, n_int), dtype=complex)
        for j in range(n_int):
            u = np.zeros(n_int, dtype=complex)
            u[j] = 1.0
            Pb[:, j] = np.fft.ifftn(u.reshape(ishape))[cut].ravel()
        return fam('sandwich', a_mat(Pb), a_vec(tf.ravel() if fwd else tf.ravel().conj()), a_mat(Pf))
    if fam_ == 'projection':
        return fam('projection', a_mat(el.transformation), a_vec(el.coeffs), a_mat(el.transformation_inverse))
    if fam_ == 'lyot' and cname == 'LyotCoronagraph':
        fg = el.prop.get_instance_data(entry.input_grid, None, wl).output_grid
        Pf = probe(el.prop.forward, entry.input_grid, wl)
        Pb = probe(el.prop.backward, fg, wl)
        m = apod_of(el.focal_plane_mask, fg, wl, direction)
        stop = apod_of(el.lyot_stop, entry.input_grid, wl, direction)
        if stop is None:
            return fam('lyotCore', a_mat(Pb), a_vec(1 - m), a_mat(Pf))
        return fam('lyotForward' if fwd else 'lyotBackward', a_vec(stop), a_mat(Pb), a_vec(1 - m), a_mat(Pf))
    if fam_ == 'lyot' and cname == 'ZernikeWavefrontSensorOptics':
        fg = el.prop.get_instance_data(entry.input_grid, None, wl).output_grid
        Pf = probe(el.prop.forward, entry.input_grid, wl)
        Pb = probe(el.prop.backward, fg, wl)
        m = apod_of(el.phase_dot, fg, wl, direction)
        return fam('lyotCore', a_mat(Pb), a_vec(1 - m), a_mat(Pf))
    if fam_ == 'sandwich' and cname == 'OccultedLyotCoronagraph':
        fg = el.prop.get_instance_data(entry.input_grid, None, wl).output_grid
        Pf = probe(el.prop.forward, entry.input_grid, wl)
        Pb = probe(el.prop.backward, fg, wl)
        return fam('sandwich', a_mat(Pb), a_vec(apod_of(el.focal_plane_mask, fg, wl, direction)), a_mat(Pf))
    if fam_ == 'multiscale':
        g = entry.input_grid
        stop = apod_of(el.lyot_stop, g, wl, direction)
        F0 = probe_field_map(el.props[0].forward if fwd else el.props[0].backward, g)
        args = [a_opt(stop), a_mat(F0)]
        # Elements.multiscale adds the levels in the order `rest first`: sums commute exactly in the model
        for mask, prop in list(zip(el.focal_masks, el.props))[1:]:
            fg = prop.get_instance_data(g, None, 1).output_grid
            Pf = probe(prop.forward, g, 1)
            Pb = probe(prop.backward, fg, 1)
            mk = np.asarray(mask, dtype=complex)
            args += [a_mat(Pb), a_vec(mk if fwd else mk.conj()), a_mat(Pf)]
        return fam('multiscaleForward' if fwd else 'multiscaleBackward', *args)
    if fam_ == 'fibre-modes':
        inst = el.get_instance_data(grid, None, wl)
        M = np.asarray(inst.fiber_modes.transformation_matrix, dtype=complex)
        ph = np.exp((1j if fwd else -1j) * np.asarray(inst.beta) * el.fiber_length)
        w = grid.weights * np.ones(grid.size)
        return fam('fibreModes', a_mat(M.conj()), a_vec(ph), a_mat(M.conj().T), a_vec(w))
    if fam_ == 'fibre-nuller':
        fib = el.fiber
        fg = el.focal_grid
        if fwd:
            P = probe(el.prop.forward, entry.input_grid, wl)
            if hasattr(fib, 'mode'):
                rows = (np.asarray(fib.mode, dtype=complex) * fib.input_grid.weights)[None, :]
            else:
                Pm = np.asarray(fib.projection_matrix, dtype=complex)
                rows = Pm.T * (fib.input_grid.weights * np.ones(Pm.shape[0]))[None, :]
            return fam('fibreNuller', a_mat(rows), a_mat(P),
                       a_opt(apod_of(el.apodizer, entry.input_grid, wl, 'forward') if el.apodizer is not None else None))
        Pb = probe(el.prop.backward, fg, wl)
        B = np.asarray(fib.mode, dtype=complex)[:, None] if hasattr(fib, 'mode') else np.asarray(fib.projection_matrix, dtype=complex)
        return fam('fibreNullerBackward', a_opt(apod_of(el.apodizer, entry.input_grid, wl, 'backward') if el.apodizer is not None else None),
                   a_mat(Pb), a_mat(B))
    if cname == 'SurfaceAberrationAtDistance':
        Ff = probe(el.fresnel.forward, grid, wl)
        Fb = probe(el.fresnel.backward, grid, wl)
        return fam('sandwich', a_mat(Fb), a_vec(apod_of(el.surface_aberration, grid, wl, direction)), a_mat(Ff))
    subs = None
    if fam_ == 'system' and hasattr(el, '_optical_elements'):
        subs = list(el.optical_elements)
    elif cname == 'PyramidWavefrontSensorOptics':
        subs = [el.pupil_to_focal, el.spatial_filter, el.pyramid, el.focal_to_pupil]
    elif cname == 'MultiLayerAtmosphere':
        subs = list(el.elements)
    if subs is not None:
        subs = subs if fwd else list(reversed(subs))
        g = grid
        parts = []
        for sub in subs:
            f = sub.forward if fwd else sub.backward
            A = probe(f, g, wl)
            parts.append(a_mat(A))
            g = f(hcipy.Wavefront(hcipy.Field(np.zeros(g.size, dtype=complex), g), wl)).electric_field.grid
        return fam('system', *parts)         # Elements.system: first part is applied first
    return None


def parse_clist(s):
    if not (s.startswith('[') and s.endswith(']')):
        raise MachineryError('bad complex list from the model: %r' % s[:80])
    inner = s[1:-1]
    if not inner:
        return np.zeros(0, dtype=complex)
    import fractions
    vals = [float(fractions.Fraction(t)) for t in inner.split(',')]
    return np.array(vals[0::2]) + 1j * np.array(vals[1::2])


# ---------------------------------------------------------------------------------------------
# model correspondence: histories of calls and parameter changes replayed on Effects.callI / runHistory

# families whose elements contain polarisation optics (the components are mixed): no per-component scalar term
PER_COMPONENT_EXCLUDED = ('jones', 'jones-split', 'lyot-jones', 'multiscale-jones')

HIST_WAVELENGTHS = (1.0, 0.75, 1.25)


def hist_subject(name):
    """(family, make() -> fresh element, set_param(el, k), watch(el) -> counter list, grids) for the history tie.
    `set_param(el, k)` gives the element its parameter value number k; `watch` installs a counter of recomputations
    of the memo cell's content (the *fill* the model predicts as a miss)."""
    import hcipy as hp
    g0 = hp.make_pupil_grid(8)
    grids = [g0, hp.make_pupil_grid(8, 1.5), hp.make_pupil_grid(6)]

    def watch_instance(el):
        cnt = [0]
        orig = el.make_instance

        def counted(*a, **k):
            cnt[0] += 1
            return orig(*a, **k)
        el.make_instance = counted          # instance attribute shadows the method: get_instance_data calls self.make_instance
        return cnt

    if name == 'ThinLens':
        return ('agnosticInstance', lambda: hp.ThinLens(4.0, lambda wl: 1.5 + 0.0 * wl, 1.0),
                lambda el, k: setattr(el, 'focal_length', 4.0 + 0.5 * k), watch_instance, grids)
    if name == 'Apodizer':
        def func(k):
            return lambda grid, wavelength: hp.Field((1.0 + 0.25 * k) * np.exp(-(grid.x ** 2 + grid.y ** 2) * wavelength), grid)
        return ('agnosticInstance', lambda: hp.Apodizer(func(0)), lambda el, k: setattr(el, 'apodization', func(k)), watch_instance, grids)
    if name == 'PhaseApodizer':
        def func(k):
            return lambda grid: hp.Field((0.125 * k) * grid.x, grid)
        return ('agnosticInstance', lambda: hp.PhaseApodizer(func(0)), lambda el, k: setattr(el, 'phase', func(k)), watch_instance, grids)
    if name == 'DeformableMirror':
        pool = [np.array([((7 * i + 3 * k) % 11 - 5) / 64.0 for i in range(16)]) for k in range(4)]

        def make():
            return hp.DeformableMirror(hp.make_gaussian_influence_functions(g0, 4, 0.25))

        def watch(el):
            cnt = [0]
            mb = el.influence_functions
            orig = mb.linear_combination

            def counted(*a, **k):
                cnt[0] += 1
                return orig(*a, **k)
            mb.linear_combination = counted
            return cnt
        return ('mirrorSurface', make, lambda el, k: setattr(el, 'actuators', pool[k % len(pool)].copy()), watch, grids[:1])
    if name == 'MatrixFourierTransform':
        # the helper every Fraunhofer propagation on a non-FFT focal grid goes through, wrapped as an element; its
        # "parameter" is the precision of the fields it is handed (model: param 0 of Elements.iMft), value k -> dtype
        fg = hp.make_focal_grid(2, 3)

        class MftElement(object):
            def __init__(self):
                self.mft = hp.MatrixFourierTransform(g0, fg)
                self.precision = 'complex128'

            def forward(self, wf):
                return hp.Wavefront(self.mft.forward(wf.electric_field), wf.wavelength)

        def watch(el):
            # cell 0: the matrices M1/M2 were recomputed (new array object); cell 1: the intermediate array was reallocated
            cnt = [0, 0]
            last = [None, None]
            keep = []

            def poll():
                for i, cur in enumerate((getattr(el.mft, 'M1', None), getattr(el.mft, 'intermediate_array', None))):
                    if cur is not None and cur is not last[i]:
                        cnt[i] += 1
                        last[i] = cur
                        keep.append(cur)            # kept alive: identities stay meaningful
                return tuple(cnt)
            return poll
        return ('mft', MftElement, lambda el, k: setattr(el, 'precision', FLIP_DTYPES[k % 2]), watch, grids[:1])
    raise MachineryError('unknown history subject %r' % name)


HIST_SUBJECTS = ('ThinLens', 'Apodizer', 'PhaseApodizer', 'DeformableMirror', 'MatrixFourierTransform')
HIST_PARAM_POOL = {'DeformableMirror': 4, 'MatrixFourierTransform': 2}


def gen_history(rng, name, idx):
    """A history: first a parameter change, then calls (grid number, wavelength number) and further parameter changes.
    Agnostic elements: at most 10 calls (their cache holds 11 instances; eviction is C05's subject) and parameter values
    never repeat (the setter clears the whole cache, the model keys the entries by the parameter instead).
    The mirror: parameter values from a pool of 4, so setting the *same* actuators again occurs; the matrix Fourier
    transform: the precision of the fields it is handed, a pool of 2 (complex128, complex64)."""
    agnostic = name not in HIST_PARAM_POOL
    pool = HIST_PARAM_POOL.get(name, 0)
    ngrids = 3 if agnostic else 1
    events = [['s', 0, 1 if agnostic else int(rng.integers(pool))]]
    nxt = 2
    ncalls = int(rng.integers(3, 11))
    last = None
    for _ in range(ncalls):
        u = rng.random()
        if u < 0.25:
            if agnostic:
                events.append(['s', 0, nxt]); nxt += 1
            else:
                events.append(['s', 0, int(rng.integers(pool))])
        if last is not None and rng.random() < 0.35:
            g, w = last                                # the same call again: the classical hit
        else:
            g, w = int(rng.integers(ngrids)), int(rng.integers(len(HIST_WAVELENGTHS)))
        if agnostic and rng.random() < 0.2:
            g = -1 - abs(g)                            # an equal but distinct grid object (same contents => same key)
        events.append(['c', g, w])
        last = (abs(g + 1) if g < 0 else g, w)
    return {'mode': 'history', 'subject': name, 'events': events, 'data_seed': [int(idx)]}


def run_history(case):
    """Replay one history on the real element. Returns (bad, observed) with observed = per call event 1 if the memo
    content was recomputed (a miss) else 0."""
    import hcipy as hp
    family, make, set_param, watch, grids = hist_subject(case['subject'])
    el = make()
    cnt = watch(el)
    if not callable(cnt):
        lst = cnt
        cnt = lambda: (lst[0],)      # noqa: E731
    rng = np.random.default_rng(list(case['data_seed']) + [77])
    bad = []
    observed = []
    current = None
    tag = 'history %s' % case['subject']
    for k, ev in enumerate(case['events']):
        if ev[0] == 's':
            current = ev[2]
            set_param(el, current)
            continue
        gi = ev[1]
        grid = grids[gi] if gi >= 0 else registry.fresh_grid(grids[-1 - gi])
        wl = HIST_WAVELENGTHS[ev[2]]
        E = hp.Field(registry.dyadic_complex(rng, (grid.size,)).astype(vars(el).get('precision', 'complex128')), grid)
        keep = np.array(E, copy=True)
        before = cnt()
        with warnings.catch_warnings():
            warnings.simplefilter('ignore')
            out = np.array(el.forward(hp.Wavefront(E, wl)).electric_field, copy=True)
            after = cnt()
            bits = tuple(1 if x > y else 0 for x, y in zip(after, before))
            observed.append(bits[0] if len(bits) == 1 else bits)
            # the clause itself (independent of the model): after this history the element answers like a freshly
            # constructed one with the current parameters, and the input is intact
            fresh = make()
            set_param(fresh, current)
            ref = np.asarray(fresh.forward(hp.Wavefront(hp.Field(keep.copy(), grid), wl)).electric_field)
        if not np.array_equal(np.asarray(E), keep):
            bad.append(('input-modified:field-values ' + tag, 'input-modified: call number %d of the history changed its input' % k))
        if out.shape != ref.shape or maxabs(out - ref) > TOL_REP * max(1.0, maxabs(ref)):
            bad.append(('history-parameters ' + tag,
                        'history: after the events %r the element returns something else than a fresh element with the current '
                        'parameter (max diff %.3g) [%s]' % (case['events'][:k + 1], maxabs(out - ref) if out.shape == ref.shape else float('inf'), case['subject'])))
    return bad, observed, family


def history_line(family, events):
    toks = []
    for k, ev in enumerate(events):
        if ev[0] == 's':
            toks.append('s:%d:%d' % (ev[1], ev[2]))
        else:
            g = ev[1] if ev[1] >= 0 else -1 - ev[1]
            toks.append('c:%d:%d:%d' % (100 + k, ev[2], g))     # field values: a different number every call (never part of a key)
    return 'C06 history %s %s' % (family, ' '.join(toks))


def history_tie(ctx):
    n = ctx.scale(10, 60)
    rng = np.random.default_rng([ctx.seed, 6, 7])
    cases = []
    # directed corpus: same call twice; wavelength change; parameter change between identical calls; back to an earlier key
    cases.append({'mode': 'history', 'subject': 'ThinLens', 'data_seed': [0],
                  'events': [['s', 0, 1], ['c', 0, 0], ['c', 0, 0], ['c', 0, 1], ['c', 0, 0], ['s', 0, 2], ['c', 0, 0], ['c', -1, 0], ['c', 1, 0], ['c', 0, 0]]})
    cases.append({'mode': 'history', 'subject': 'DeformableMirror', 'data_seed': [1],
                  'events': [['s', 0, 0], ['c', 0, 0], ['c', 0, 1], ['s', 0, 1], ['c', 0, 0], ['s', 0, 0], ['c', 0, 0], ['s', 0, 0], ['c', 0, 2]]})
    cases.append({'mode': 'history', 'subject': 'MatrixFourierTransform', 'data_seed': [2],
                  'events': [['s', 0, 0], ['c', 0, 0], ['c', 0, 0], ['s', 0, 1], ['c', 0, 0], ['c', 0, 1], ['s', 0, 0], ['c', 0, 0], ['s', 0, 1], ['c', 0, 2]]})
    idx = 3
    for name in HIST_SUBJECTS:
        for _ in range(n):
            cases.append(gen_history(rng, name, idx)); idx += 1
    lines, kept = [], []
    for case in cases:
        bad, observed, family = run_history(case)
        for key, what in bad:
            ctx.violation(key, what, case)
        ctx.count('history-subject:' + case['subject'])
        ctx.count('history-calls:%d' % len(observed))
        ctx.count('history-param-changes:%d' % (sum(1 for e in case['events'] if e[0] == 's') - 1))
        flat = [b for o in observed for b in (o if isinstance(o, tuple) else (o,))]
        ctx.case(None, nontrivial_key=('history', case['subject'], repr(case['events'])) if (0 in flat and 1 in flat) else None)
        lines.append(history_line(family, case['events']))
        kept.append((case, observed, family))
    answers = ctx.model(lines)
    for (case, observed, family), ans, line in zip(kept, answers, lines):
        toks = ans.split(' ')
        if toks[:2] != ['ok', 'safe=1'] or len(toks) != 3 + len(case['events']) or toks[2] not in ('cells=0', 'cells=0,1'):
            raise MachineryError('unexpected answer to %r: %r' % (line, ans))
        ncell = len(toks[2][6:].split(','))
        predicted, fresh_ok = [], True
        for ev, t in zip(case['events'], toks[3:]):
            if ev[0] == 's':
                if t != 's':
                    raise MachineryError('history token mismatch %r' % ans)
                continue
            if len(t) != 3 + ncell or t[0] != 'h' or t[1 + ncell] != 'f':
                raise MachineryError('history token %r' % t)
            miss = tuple(0 if b == '1' else 1 for b in t[1:1 + ncell])          # hit => no recomputation
            predicted.append(miss[0] if ncell == 1 else miss)
            fresh_ok = fresh_ok and t[2 + ncell] == '1'
        ctx.traces_validated += len(observed)
        for o in observed:
            if isinstance(o, tuple):
                ctx.count('history-observed:%s matrices %s, work buffer %s' % (case['subject'], 'recomputed' if o[0] else 'kept', 'reallocated' if o[1] else 'kept'))
            else:
                ctx.count('history-observed:' + ('miss' if o else 'hit'))
        if predicted != observed or not fresh_ok:
            ctx.disagree('C06 history', {'subject': case['subject'], 'family': family, 'events': case['events'],
                                         'model_miss': predicted, 'impl_miss': observed, 'model_fresh_equal': fresh_ok})


# ---------------------------------------------------------------------------------------------
# the model of the defect class "keep only what this input excites" (OpIR.Old.keepExcited) against the wide-magnitude rule

def keep_excited_selftest(ctx):
    """`OpIR.Old.keepExcited θ` (driver op `C06 keep-excited`) is homogeneous and not additive (theorems
    keepExcited_homogeneous / keepExcited_not_additive).  The harness's wide-magnitude linearity rule is run on the
    MODEL's outputs: on pairs whose faint term lies below the threshold it must report the map, on f(a x) = a f(x) it
    must not; and a direct transcription (exact fractions) must agree with the model value by value."""
    import fractions
    F = fractions.Fraction
    rng = np.random.default_rng([ctx.seed, 6, 11])
    n_cases = ctx.scale(12, 60)
    theta = F(1, 10 ** 10)

    def keep(th, x):
        ss = sum(c * c for c in x)
        return [c if th * ss < c * c else F(0) for c in x]

    def txt(x):
        return '[' + ','.join(str(c) for c in x) + ']'
    lines, meta = [], []
    for k in range(n_cases):
        n = int(rng.integers(2, 7))
        x = [F(int(v), 16) for v in rng.integers(-32, 33, size=n)]
        if all(c == 0 for c in x):
            x[0] = F(1)
        rexp = RATIO_EXPS_FAINT[k % len(RATIO_EXPS_FAINT)]
        y = [F(0)] * n
        j = int(rng.integers(n))
        x[j] = F(0)                                         # the faint term lives where the bright one has nothing
        x[(j + 1) % n] = F(int(rng.integers(16, 33)), 16) * (1 if rng.random() < 0.5 else -1)      # a bright pixel, |x| >= 1
        a = F(int(rng.integers(1, 9)), 4) * F(2) ** int(A_EXPS[k % len(A_EXPS)])
        y[j] = F(int(rng.integers(4, 17)), 16) * a * F(2) ** rexp        # amplitude ratio of the two terms a*x : y = 2^rexp
        z = [a * u + v for u, v in zip(x, y)]
        for vec in (x, y, z, [a * u for u in x]):
            lines.append('C06 keep-excited %s %s' % (theta, txt(vec)))
        meta.append((x, y, z, a))
    answers = ctx.model(lines)
    flagged = homogeneous_ok = 0
    for k, (x, y, z, a) in enumerate(meta):
        outs = []
        for vec, ans in zip((x, y, z, [a * u for u in x]), answers[4 * k:4 * k + 4]):
            toks = ans.split(' ')
            if len(toks) != 3 or toks[0] != 'ok':
                raise MachineryError('unexpected keep-excited answer %r' % ans)
            got = [F(t) for t in toks[1][1:-1].split(',')] if toks[1] != '[]' else []
            ctx.traces_validated += 1
            if got != keep(theta, vec) or F(toks[2][6:]) != sum(c * c for c in vec):
                ctx.disagree('C06 keep-excited', {'theta': str(theta), 'x': txt(vec), 'model': ans, 'transcription': txt(keep(theta, vec))})
            outs.append(np.array([float(c) for c in got]))
        fx, fy, fz, fax = outs
        af = float(a)
        # the rule of run_wide on the model's outputs
        nu, nv = abs(af) * maxabs(fx), maxabs(fy)
        nin = abs(af) * maxabs(np.array([float(c) for c in x])) + maxabs(np.array([float(c) for c in y]))
        r = maxabs(fz - af * fx - fy)
        if r > wide_tolerance(nu, nv, nin, 1.0):
            flagged += 1
        if maxabs(fax - af * fx) <= TOL_LIN * max(1.0, maxabs(fax)):
            homogeneous_ok += 1
        ctx.case(None, nontrivial_key=('keep-excited', k))
    ctx.count('keep-excited-selftest:flagged-by-wide-rule', )
    ctx.extra['keep_excited_selftest'] = {'cases': len(meta), 'flagged_by_wide_rule': flagged, 'homogeneous': homogeneous_ok}
    if flagged != len(meta) or homogeneous_ok != len(meta):
        ctx.disagree('C06 keep-excited', {'note': 'the wide-magnitude rule must flag every one of these pairs (faint term below the threshold of '
                                                  'OpIR.Old.keepExcited) and accept f(a x) = a f(x)', 'cases': len(meta),
                                          'flagged': flagged, 'homogeneous': homogeneous_ok})


def first_fft_tie(ctx):
    """The effect programs `fourierFilter[padded]` / `fourierFilter[unpadded]` (Model/Elements.lean; theorems
    fourierFilter_safeAll, fourierFilter_firstFft) against a real `hcipy.FourierFilter`: the model says what the FIRST
    Fourier transform of `_operation` is handed — (its argument uses the caller's buffer, it may overwrite its argument).
    Observed by spying on `fftn` as the filter calls it (np.shares_memory of the argument's buffer with the array the
    caller's field was built from; the `overwrite_x` flag), for q = 1 / 2 / 3 x field style x dtype x tensor shape x
    direction, directly and through FresnelPropagator(zero_padding=q).  The seeded class
    `fourierFilterIdentityTestOld[wrapper,unpadded]` must be rejected by the model's checker."""
    import hcipy
    from hcipy.fourier import fourier_operations as fo
    names = ('fourierFilter[padded]', 'fourierFilter[unpadded]')
    olds = [(ns, sd, pd) for ns in (0, 1) for sd in (0, 1) for pd in (0, 1)]
    answers = ctx.model(['C06 first-fft ' + n for n in names] + ['C06 first-fft-old %d %d %d' % o for o in olds])
    pred = {}
    for n, ans in zip(list(names) + olds, answers):
        toks = dict(t.split('=', 1) for t in ans.split(' ')[1:] if '=' in t)
        if not ans.startswith('ok ') or set(toks) != {'safe', 'sharesInput', 'overwrite'}:
            raise MachineryError('unexpected first-fft answer %r' % ans)
        pred[n] = tuple({'1': 'true', '0': 'false'}.get(toks[k], toks[k]) for k in ('safe', 'sharesInput', 'overwrite'))
    if pred[names[0]][0] != 'true' or pred[names[1]][0] != 'true':
        ctx.disagree('C06 first-fft', {'note': 'the shipped programs must be accepted', 'model': {str(k): v for k, v in pred.items()}})
    for ns, sd, pd in olds:
        # the identity-test class as the seeded regression describes it: harmful exactly for new-style fields that already
        # have the dtype and no padding; the first FFT may overwrite whenever there is padding or the cast "is not" the field
        want = ('false' if (ns and sd and not pd) else 'true', 'false' if (pd or not sd) else 'true', 'true' if (pd or ns or not sd) else 'false')
        ctx.traces_validated += 1
        if pred[(ns, sd, pd)] != want:
            ctx.disagree('C06 first-fft-old', {'new-style, same dtype, padded': [ns, sd, pd], 'model': pred[(ns, sd, pd)], 'description': want})
    rng = np.random.default_rng([ctx.seed, 6, 12])
    combos = [(q, style, dt, 'scalar', 'forward', 'filter') for q in (1, 2) for style in FLIP_STYLES for dt in ('complex128', 'complex64', 'float64')]
    for _ in range(ctx.scale(20, 150)):
        combos.append((int(rng.integers(1, 4)), FLIP_STYLES[int(rng.integers(2))], ('complex128', 'complex64', 'float64')[int(rng.integers(3))],
                       registry.KINDS[int(rng.integers(3))], ('forward', 'backward')[int(rng.integers(2))], ('filter', 'fresnel')[int(rng.integers(2))]))
    seen = {}
    for q, style, dt, kind, direction, via in combos:
        restore = set_config({}, style)
        fftn = fo._fft_module.fftn
        compute_functions = fo.FourierFilter._compute_functions
        rec = []
        armed = []
        try:
            grid = hcipy.make_uniform_grid([int(rng.integers(4, 9)), int(rng.integers(4, 9))], [1.0, 1.0])
            A = registry.dyadic_complex(rng, registry.field_shape(grid, kind), bits=4)
            A = np.ascontiguousarray(A.real if dt == 'float64' else A.astype(dt))

            def spy(x, *args, **kw):
                if armed:       # transforms made while the filter builds its transfer function are not the filter's own
                    rec.append((bool(np.shares_memory(buffer_of(x), caller[0])), bool(kw.get('overwrite_x', False))))
                return fftn(x, *args, **kw)

            def arm(self, field):
                res = compute_functions(self, field)
                armed.append(1)
                return res
            if via == 'filter':
                op = hcipy.FourierFilter(grid, lambda g: hcipy.Field(np.exp(-0.125j * (g.x**2 + g.y**2)), g), q)
                arg = hcipy.Field(A, grid)
            else:
                op = hcipy.FresnelPropagator(grid, 0.5, zero_padding=q)
                arg = make_wf(hcipy.Field(A, grid), kind, 1.0, registry.STOKES[0])
            # the caller's buffer: the array of the field handed to the filter (a Wavefront built from real values holds a complex copy)
            caller = [buffer_of(arg.electric_field) if via == 'fresnel' else A]
            fo._fft_module.fftn = spy
            fo.FourierFilter._compute_functions = arm
            with warnings.catch_warnings():
                warnings.simplefilter('ignore')
                getattr(op, direction)(arg)
        except Exception as ex:     # noqa
            ctx.disagree('C06 first-fft', {'q': q, 'style': style, 'dtype': dt, 'kind': kind, 'direction': direction, 'via': via,
                                           'fault-while-observing': '%s: %s' % (type(ex).__name__, str(ex)[:160])})
            continue
        finally:
            fo._fft_module.fftn = fftn
            fo.FourierFilter._compute_functions = compute_functions
            restore()
        name = names[0] if q != 1 else names[1]
        got = tuple('true' if b else 'false' for b in rec[0]) if rec else ('-', '-')
        ctx.traces_validated += 1
        ctx.count('first-fft:q=%d %s %s' % (q, style, 'real' if dt == 'float64' else 'complex'))
        seen[(q != 1, got)] = seen.get((q != 1, got), 0) + 1
        if got != pred[name][1:]:
            ctx.disagree('C06 first-fft', {'q': q, 'style': style, 'dtype': dt, 'kind': kind, 'direction': direction, 'via': via,
                                           'model (sharesInput, overwrite)': pred[name][1:], 'running code': got, 'program': name})
        ctx.case(None, nontrivial_key=('first-fft', q, style, dt, kind, direction, via))
    ctx.extra['first_fft_observations'] = {('padded' if p else 'unpadded') + ' shares=%s overwrite=%s' % g: n for (p, g), n in seen.items()}


# ---------------------------------------------------------------------------------------------

def plan(ctx):
    """The list of cases of this run: for each registry (one in the quick tier, several — different grid sizes and
    element parameters — in the thorough tier) every entry x supported kind x direction x wavelength, `rounds` times."""
    nreg = ctx.scale(1, 5)
    rounds = ctx.scale(2, 3)
    registries = []
    cases = []
    idx = 0
    for k in range(nreg):
        reg_seed = [ctx.seed, 6, 0, k]
        entries = registry.elements(np.random.default_rng(reg_seed))
        registries.append(entries)
        for r in range(rounds):
            for e in entries:
                for direction in ('forward', 'backward'):
                    kinds = e.kinds if direction == 'forward' else e.backward_kinds
                    for kind in kinds:
                        for wl in e.wavelengths:
                            idx += 1
                            cases.append({'entry': e.name, 'kind': kind, 'direction': direction, 'wavelength': wl, 'registry': k,
                                          'reg_seed': reg_seed, 'data_seed': [ctx.seed, 6, 1, idx], 'sparse': bool(r % 2), 'lazy_grid': bool(r % 2), 'round': r})
    # widened linearity: per entry x kind x direction, every input structure with (a) a faint term (amplitude ratio
    # <= 2^-17) and (b) a ratio / |a| drawn from the whole range
    wrng = np.random.default_rng([ctx.seed, 6, 2])
    per_structure = ctx.scale(2, 6)
    for k, entries in enumerate(registries):
        for e in entries:
            for direction in ('forward', 'backward'):
                kinds = e.kinds if direction == 'forward' else e.backward_kinds
                for kind in kinds:
                    for structure in STRUCTURES:
                        if structure == 'polarisation' and kind == 'scalar':
                            continue
                        if structure == 'own-modes' and e.modes is None:
                            continue
                        alt_grid = not e.input_grid.is_regular or (e.output_grid is not None and not e.output_grid.is_regular)
                        for j in range(per_structure):
                            idx += 1
                            if alt_grid and ctx.quick() and j > 0:
                                continue        # quick tier: the entries on non-regular grids run the faint-term configuration only
                            rexp = RATIO_EXPS_FAINT[int(wrng.integers(len(RATIO_EXPS_FAINT)))] if j % 2 == 0 else \
                                RATIO_EXPS_ALL[int(wrng.integers(len(RATIO_EXPS_ALL)))]
                            cases.append({'mode': 'wide', 'entry': e.name, 'kind': kind, 'direction': direction,
                                          'wavelength': e.wavelengths[int(wrng.integers(len(e.wavelengths)))], 'registry': k,
                                          'reg_seed': [ctx.seed, 6, 0, k], 'data_seed': [ctx.seed, 6, 3, idx], 'structure': structure,
                                          'ratio_exp': rexp, 'a_exp': A_EXPS[int(wrng.integers(len(A_EXPS)))],
                                          'faint': 'E2' if wrng.random() < 0.6 else 'E1', 'round': 0})
    return registries, cases


def run(ctx):
    ctx.rule = ('registry of small instances (6-12 px) of every OpticalElement subclass found by introspection; for every '
                'entry x wavefront kind the element supports (scalar / Jones vector / Jones matrix+Stokes) x direction x '
                'wavelength, random dyadic complex fields E1, E2 and a dyadic complex factor a: before/after snapshot of the '
                'input, repeated call, call after a different wavefront, fresh-element comparison, linearity (conjugate-linearity '
                'for the fibre-injection forward). Non-trivial = the result is finite and not identically zero; distinct by '
                '(entry, kind, direction, wavelength, dense/sparse input). WIDENED LINEARITY, for every entry x kind x direction: '
                'input pairs of the structures dense / two single pixels / two single Fourier modes / complementary pixel sets / '
                'different polarisation components / two basis modes (the element\'s own exposed modes — fibre modes, mirror '
                'influence functions, coronagraph mode basis, lenslet cells, corrected modes — and low-order polynomials) / sparse / '
                'zero, with |a| in 2^{-20..20} (1e-6..1e6) and the amplitude ratio of the two terms a*E1 : E2 in 2^{0..-40} '
                '(1..9e-13; every structure is run at least once with a ratio <= 2^-17, either term may be the faint one). '
                'Rule: max|f(aE1+E2) - a f(E1) - f(E2)| <= 1e-6*min(|a f(E1)|, |f(E2)|) + 1e-13*max(|a f(E1)|, |f(E2)|, g*(|a||E1|+|E2|)) '
                'in max norms, g = largest |f(E)|/|E| seen for that element/direction/kind (>= 1): the residual is judged '
                'against the SMALLER term, the second summand is the float64 rounding floor of the whole computation; f(0) must be exactly 0. '
                'INPUT INTACT, widened: every call of a case (first, repeated, other wavefront, a*E1+E2, and the first call of a fresh '
                'element = cache miss) is bracketed by snapshots of its input: field bytes/dtype/shape/identity, grid identity, the '
                'defining arrays of the grid coordinates AND its weights, wavelength, Stokes vector, attribute set; first and fresh calls '
                'additionally total power and the digest of EVERY array reachable from the wavefront object (field, grid coordinate arrays, '
                'cached _weights, Stokes vector) read without touching any property. Inputs live on regular grids (scalar weight), a '
                'separated non-uniform grid (lazily computed per-point weight array) and an unstructured grid with explicit per-point '
                'weights (41 extra registry entries: every element class that accepts such grids, incl. magnifiers and Fraunhofer with a '
                'non-uniform pupil / focal grid); round 0 uses the shared grid object with weights materialised beforehand, round 1 gives '
                'every wavefront its own equal grid object whose weights are not computed yet (semantic quantities then read from a deep copy). '
                'ELEMENT-INTERNAL STATE (round-0 cases): recursive snapshot (every ndarray / sparse matrix / grid / RNG state / scalar '
                'reachable through __dict__, dicts, lists of the element and the objects it owns; array bytes hashed, objects kept alive '
                'for identity) before the first call, after it, after a second identical call, and after the whole call sequence; a change '
                'is a memo fill (attribute created or rebound under a cell the model declares for the owning object\'s family), a scratch '
                'write (declared buffer), or: same array object with different bytes outside scratch -> internal-state-mutated; a memo '
                'cell whose value changes during the second identical call -> internal-state-drifts; any value that differs from what a '
                'fresh element holds after the last call alone -> internal-state-history; a change under no declared cell -> disagreement '
                'with the model (C06 internal).')
    ctx.assumptions += ['element-internal caches are exercised behaviourally only (C05 models them)',
                        'float arithmetic on the generated dyadic fields (a*E1+E2) is exact',
                        'sub-propagators probed as dense matrices are linear (checked by their own registry entries)']
    load_internal_declarations(ctx)
    history_tie(ctx)
    keep_excited_selftest(ctx)
    first_fft_tie(ctx)
    internal_seen = {}
    registries, cases = plan(ctx)
    entries = registries[0]
    by_name = {(k, e.name): e for k, ents in enumerate(registries) for e in ents}
    import time
    t_flip = time.time()
    run_flips(ctx, registries, by_name)
    ctx.extra['flip_seconds'] = round(time.time() - t_flip, 1)
    ctx.extra['registries'] = len(registries)
    ctx.extra['registry_entries'] = len(entries)
    ctx.extra['grid_sizes'] = sorted(set(int(e.input_grid.size) for ents in registries for e in ents))
    ctx.extra['uncovered'] = registry.uncovered(entries)
    ctx.extra['classes_covered'] = sorted(set(e.cls.__name__ for e in entries))
    ctx.extra['entry_notes'] = {e.name: e.notes for e in entries if e.notes}
    elements = {}
    gains = {}
    wide_worst = {}
    ctx.extra['wide_worst_residual_over_floor_denominator'] = wide_worst
    fresh_done = set()
    requests = []        # (line, kind-of-request, payload)
    denote_done = set()
    heavy_budget = ctx.scale(48, 600)
    pc_budget = {}                              # large per-component requests: their own budget, per family
    for case in cases:
        e = by_name[(case['registry'], case['entry'])]
        ekey = (case['registry'], e.name)
        if ekey not in elements:
            try:
                elements[ekey] = e.factory()
            except Exception as ex:     # noqa
                raise MachineryError('registry entry %s cannot be constructed: %s: %s' % (e.name, type(ex).__name__, ex))
        el = elements[ekey]
        if case.get('mode') == 'wide':
            bad, worst = run_wide(e, el, case, gains)
            for key, what in bad:
                ctx.violation(key, what, case)
            if worst is None and not bad:
                ctx.count('wide-structure-not-applicable')
                continue
            ctx.count('wide:' + case['structure'])
            ctx.count('wide-ratio:2^%d' % case['ratio_exp'])
            ctx.count('wide-|a|:2^%d' % case['a_exp'])
            ctx.count('wide-failed' if bad else 'wide-ok')
            if worst is not None:
                wide_worst[case['structure']] = max(wide_worst.get(case['structure'], 0.0), worst)
            ctx.case(None, nontrivial_key=('wide', case['registry'], e.name, case['kind'], case['direction'], case['structure'],
                                           case['ratio_exp'], case['a_exp'], case['faint']))
            continue
        fkey = (case['registry'], e.name, case['kind'], case['direction'], case['wavelength'])
        fresh = None
        fkey2 = fkey + (bool(case.get('lazy_grid')),)
        if fkey2 not in fresh_done:
            fresh_done.add(fkey2)
            fresh = e.factory()
        bad, obs = run_case(e, el, case, fresh, track=fresh is not None and not case.get('lazy_grid'))
        for key, what in bad:
            ctx.violation(key, what, case)
        for verdict, fam, cell, ckind in sorted(obs.get('internal', ())):
            k = '%s %s %s (%s)' % (verdict, fam, cell, ckind)
            internal_seen[k] = internal_seen.get(k, 0) + 1
            ctx.traces_validated += 1
            if verdict == 'undeclared':
                ctx.disagree('C06 internal', {'case': {q: case[q] for q in ('entry', 'kind', 'direction', 'wavelength')},
                                              'impl': 'attribute %s changed (%s) during a call' % (cell, ckind),
                                              'model': 'family %s declares memo=%s scratch=%s' % (fam, list(DECLARED.get(fam, ((), ()))[0]), list(DECLARED.get(fam, ((), ()))[1]))})
        if fresh is not None and not case.get('lazy_grid'):
            ctx.count('state-tracked-cases')
        ctx.count('kind:' + case['kind'])
        ctx.count('direction:' + case['direction'])
        ctx.count('family:' + e.family)
        ctx.count('clauses-failed' if bad else 'clauses-ok')
        ctx.count('input-grid:%s,%s' % ('regular' if e.input_grid.is_regular else 'separated' if e.input_grid.is_separated else 'unstructured',
                                       'weights-not-yet-computed' if case.get('lazy_grid') else 'weights-materialised'))
        nontriv = 'out' in obs and any(maxabs(x) > 0 for x in obs['out'])
        ctx.case({k: case[k] for k in ('entry', 'kind', 'direction', 'wavelength')} if case['round'] == 0 else None,
                 nontrivial_key=(case['registry'], e.name, case['kind'], case['direction'], case['wavelength'], case['sparse']) if nontriv else None)
        if 'out' not in obs:
            continue
        # model correspondence (first round only: the programs/terms do not depend on the field values)
        if fkey in denote_done:
            continue
        denote_done.add(fkey)
        prog = effect_program(e, el, case['direction'], case['kind'])
        if prog is not None:
            try:
                n_rounds = loop_rounds(prog, e, el, case)
            except Exception as ex:     # noqa
                raise MachineryError('cannot read the number of loop rounds of %s: %s: %s' % (e.name, type(ex).__name__, ex))
            if n_rounds is None:
                requests.append(('C06 effects ' + prog, 'effects', (case, obs, prog)))
            else:
                requests.append(('C06 effects-loop %s %d' % (prog, n_rounds), 'effects', (case, obs, prog)))
                ctx.count('effects-loop-rounds:%s:%d' % (prog, n_rounds))
            ctx.count('effects-program:' + prog)
        else:
            ctx.count('effects-program:none')
        if obs['multi']:
            continue
        if e.family == 'filter':
            # the padded FFT matrices of a FourierFilter make a 1.7 MB request: their own budget (entries x directions first)
            left = pc_budget.setdefault('filter-term', ctx.scale(4, 16))
            if left <= 0 or case['kind'] != 'scalar' or (ctx.quick() and case['wavelength'] != e.wavelengths[0]):
                ctx.count('denote-filter-term-skipped-budget')
                continue
            pc_budget['filter-term'] = left - 1
        try:
            term = ir_term(e, el, case['direction'], case['kind'], case['wavelength'])
        except Exception as ex:     # noqa
            if ctx.violations:
                # the oracle has already found failing inputs in this run; a defect that rewrites shared
                # objects (a grid rescaled in place …) can leave later elements with non-finite parameters:
                # report what was found instead of dying on the wreckage
                ctx.count('denote-skipped-after-violation')
                continue
            raise MachineryError('cannot build the IR term of %s: %s: %s' % (e.name, type(ex).__name__, ex))
        if term is None and case['kind'] != 'scalar' and 'outs' in obs and len(obs['outs']) == len(obs['ins']):
            # polarised input (vector: 2 components, Jones-matrix field: 4): the elements without polarisation optics act on
            # every component as they act on a scalar field.  The scalar term is evaluated on each component of E1, E2
            # and a*E1+E2 and compared with the corresponding component of the element's output (theorem
            # family_semilinear then speaks about each component; the direct sum of linear maps is linear).
            try:
                term = ir_term(e, el, case['direction'], 'scalar', case['wavelength']) if e.family not in PER_COMPONENT_EXCLUDED else None
            except Exception as ex:     # noqa
                if ctx.violations:
                    ctx.count('denote-skipped-after-violation')
                    continue
                raise MachineryError('cannot build the IR term of %s: %s: %s' % (e.name, type(ex).__name__, ex))
            if term is not None:
                reps = {'vector': 2, 'tensor': 4}[case['kind']]
                for x_, o_ in zip(obs['ins'], obs['outs']):
                    if np.asarray(x_).shape[:-1] != ((2,) if reps == 2 else (2, 2)) or np.asarray(o_[0]).shape[:-1] != np.asarray(x_).shape[:-1]:
                        raise MachineryError('%s on a %s field: input/output is not made of %d components' % (e.name, case['kind'], reps))
                obs = dict(obs, blocks=reps)        # arrays are C-ordered: component after component when flattened
        if term is not None:
            heavy = len(term) > 200000
            if heavy and 'blocks' in obs:
                left = pc_budget.setdefault(e.family, ctx.scale(3, 60))
                if left <= 0:
                    ctx.count('denote-per-component-skipped-budget')
                    continue
                pc_budget[e.family] = left - 1
            elif heavy and heavy_budget <= 0:
                ctx.count('denote-skipped-budget')
                continue
            elif heavy:
                heavy_budget -= 1
            if 'blocks' in obs:
                ctx.count('denote-per-component:%s %s' % (e.family, case['kind']))
                requests.append(('C06 denote-family-blocks %d %s @ %s' % (obs['blocks'], term, ' @ '.join(clist(np.asarray(x).ravel()) for x in obs['ins'])),
                                 'denote', (case, obs, e)))
                ctx.count('denote-schema-blocks:' + term.split(' ', 1)[0])
                ctx.extra.setdefault('blocks_request_MB', {})
                ctx.extra['blocks_request_MB'][e.family] = round(ctx.extra['blocks_request_MB'].get(e.family, 0) + len(requests[-1][0]) / 1e6, 2)
                continue
            requests.append(('C06 denote-family %s @ %s' % (term, ' @ '.join(clist(x) for x in obs['ins'])), 'denote', (case, obs, e)))
            ctx.count('denote-family:' + e.family)
            ctx.count('denote-schema:' + term.split(' ', 1)[0])
            ctx.count('denote-inputs:%d' % len(obs['ins']))
    ctx.extra['internal_cells_seen'] = internal_seen
    if not requests:
        return
    import time
    t_model = time.time()
    answers = ctx.model([r[0] for r in requests])
    ctx.extra['model_seconds'] = round(time.time() - t_model, 1)
    ctx.extra['model_request_MB'] = round(sum(len(r[0]) for r in requests) / 1e6, 1)
    for (line, what, payload), ans in zip(requests, answers):
        ctx.traces_validated += 1
        case, obs = payload[0], payload[1]
        label = {k: case[k] for k in ('entry', 'kind', 'direction', 'wavelength')}
        if what == 'effects':
            prog = payload[2]
            toks = ans.split(' ')
            if len(toks) != 10 or toks[0] != 'ok' or not toks[8].startswith('touches=') or not toks[9].startswith('created='):
                raise MachineryError('unexpected effects answer %r' % ans)
            if toks[1] != 'safe=1' or toks[5] != 'safeGrid=1' or toks[6] != 'safeStokes=1':
                ctx.disagree('C06 effects', {'case': label, 'program': prog, 'model': ans,
                                             'note': 'program not accepted by the checker on all three heaps (field arrays, grid objects, Stokes vectors)'})
                continue
            if ' '.join(toks[2:5]) != effects_line(obs):
                ctx.disagree('C06 effects', {'case': label, 'program': prog, 'model': ans, 'impl': effects_line(obs)})
            # what was done to the input object, in order ('copy' of it, a wavefront 'wrap'ped around its array, attribute
            # writes), and how many wavefront objects the call created.  `chain` stands for compositions of arbitrary
            # parts (no fixed trace); the programs with a loop are unrolled by the model for this element's number of
            # rounds (`effects-loop`).
            obs_touch = 'touches=%s' % (','.join(obs['touches']) or '-')
            m_created = int(toks[9][len('created='):])
            if prog == 'chain':
                ctx.count('object-trace: opaque composition (not compared)')
            else:
                ctx.count('object-trace: touches and created exact')
                if toks[8] != obs_touch or obs['created'] != m_created:
                    ctx.disagree('C06 effects', {'case': label, 'program': line[len('C06 '):], 'model': ' '.join(toks[8:10]),
                                                 'impl': '%s created=%d' % (obs_touch, obs['created']),
                                                 'note': 'what the call does to the object it was given / number of wavefront objects it creates'})
            # aliasing of the attached objects: the model over-approximates ("may point to the input's grid"), so the
            # comparison is one-sided: a result that really points to the input's grid object must be known to the model;
            # the Stokes vector of a result is never the input's object (the model copies it on every construction)
            ctx.count('grid-aliasing %s model=%s observed=%d' % (prog, toks[7][-1], obs['ret_shares_grid']))
            if (obs['ret_shares_grid'] and toks[7] != 'retSharesGrid=1') or (obs['ret_shares_stokes'] and not obs['ret_is_input']):
                ctx.disagree('C06 effects', {'case': label, 'program': prog, 'model': ans,
                                             'impl': 'result points to the input\'s grid object: %d, to its Stokes vector object: %d' % (obs['ret_shares_grid'], obs['ret_shares_stokes'])})
        else:
            e = payload[2]
            toks = ans.split(' ')
            n_in = len(obs['ins'])
            if len(toks) != 3 + n_in or toks[0] != 'ok':
                raise MachineryError('unexpected denote-family answer %r to %r' % (ans[:120], line[:80]))
            conj = e.conj_forward if case['direction'] == 'forward' else e.conj_backward
            want = 'conj' if conj else 'lin'
            # the parity computed structurally on the term Lean built, the parity the Lean family table declares
            # (Family.conj; theorem family_parity says the two agree) and what the registry says the code does
            if toks[1] != 'par=' + want or toks[2] != 'expect=' + want:
                ctx.disagree('C06 denote parity', {'case': label, 'model': toks[1] + ' ' + toks[2], 'registry': want})
            for k in range(n_in):
                ctx.traces_validated += 1 if k else 0
                ref = parse_clist(toks[3 + k])
                got = obs['outs'][k][0].ravel()
                if ref.shape != got.shape or maxabs(ref - got) > TOL_MODEL * max(1.0, maxabs(got)):
                    ctx.disagree('C06 denote', {'case': label, 'input': ('E1', 'E2', 'a*E1+E2')[k], 'schema': line.split(' ')[3 if 'blocks' in obs else 2],
                                                'max_diff': (maxabs(ref - got) if ref.shape == got.shape else 'shape %r vs %r' % (ref.shape, got.shape)),
                                                'scale': maxabs(got)})


def warm_up(e, el, case):
    """Give the element of a replay the kind of history it had in the run: one call per direction x kind x
    wavelength (in the run the element is shared by all cases of its registry entry)."""
    rng = np.random.default_rng(list(case['data_seed']) + [99])
    for direction in ('forward', 'backward'):
        grid = e.input_grid if direction == 'forward' else e.output_grid
        for kind in (e.kinds if direction == 'forward' else e.backward_kinds):
            for wl in e.wavelengths:
                try:
                    call(el, direction, make_wf(registry.make_field(rng, grid, kind), kind, wl, registry.STOKES[0]))
                except Exception:       # noqa
                    pass


def replay(ctx, case):
    if case.get('mode') == 'history':
        bad, _, _ = run_history(case)
        for key, what in bad:
            print('  fails:', key, '-', what)
        return not bad
    e = find_entry(case)
    if case.get('mode') == 'flip':
        bad, _ = run_flip(e, case)
        for key, what in bad:
            print('  fails:', key, '-', what)
        return not bad
    el = e.factory()
    warm_up(e, el, case)
    if case.get('mode') == 'wide':
        bad, _ = run_wide(e, el, case, {})
        for key, what in bad:
            print('  fails:', key, '-', what)
        return not bad
    bad, _ = run_case(e, el, case, e.factory(), track=True)
    for key, what in bad:
        print('  fails:', key, '-', what)
    return not bad
